#!/usr/bin/env python3
"""Regenerates MANIFEST.json from the table below (kept here so the manifest stays valid and in sync)."""
import json
import os
import sys

VERIF = os.path.dirname(os.path.dirname(os.path.abspath(__file__)))

BASELINE_OFF = ("cd /repo && cargo nextest run --workspace --no-fail-fast --test-threads 8 --offline "
                "|| (cd /repo && cargo test --workspace --no-fail-fast --offline)")

NOT_YET = {
    # property -> reason (kept current as checks land)
}


def main():
    sys.path.insert(0, os.path.join(VERIF, "lib"))
    import props
    _, CLAIMED = props.load_clusters()
    props = [json.loads(l) for l in open(os.path.join(VERIF, "properties.jsonl"))]
    checks = []
    na = []
    for p in props:
        pid = p["id"]
        if pid in CLAIMED:
            c = CLAIMED[pid]
            checks.append({
                "property_id": pid,
                "quick_cmd": "./check %s --tier quick" % pid,
                "thorough_cmd": "./check %s --tier thorough" % pid,
                "evidence_file": "/verif/evidence/%s.json" % pid,
                "replay_cmd_template": "./check %s --replay {path}" % pid,
                "engine": "coq-correspondence",
                "level_claimed": {"category": "proof", "text": c["text"], "design_ref": "DESIGN.md section " + c["design_ref"]},
                "level_note": c["note"],
                "technique": c["technique"],
            })
        else:
            na.append({"property_id": pid, "reason": NOT_YET.get(
                pid, "check not built yet in this session (machinery under construction; see DESIGN.md section 9); "
                     "the technique applies and the property is not claimed until its check exists")})
    man = {
        "version": 1,
        "setup_cmd": "./setup.sh",
        "hooks": {
            "guard": "cargo feature `verif` (default off)",
            "enable": "the harness crate depends on locustdb with features = [\"verif\"]",
            "baseline_off_cmd": BASELINE_OFF,
            "source_commits": [],
            "add_only": True,
        },
        "engines": [{
            "name": "coq-correspondence",
            "path": "/verif/check",
            "serves_properties": [c["property_id"] for c in checks],
            "kind_free_text": "Coq 8.16 theorems over executable Gallina models (coq/theories), models extracted to OCaml "
                              "(ocaml/), Rust harness (harness/) runs the implementation on generated cases, python driver diffs",
        }],
        "checks": checks,
        "not_applicable": na,
        "notes": "All checks are ./check <id>; evidence in evidence/<id>.json; known findings in known_findings.json.",
    }
    hooks_file = os.path.join(VERIF, "hooks_commits.txt")
    if os.path.exists(hooks_file):
        man["hooks"]["source_commits"] = [l.strip() for l in open(hooks_file) if l.strip()]
    json.dump(man, open(os.path.join(VERIF, "MANIFEST.json"), "w"), indent=1)


if __name__ == "__main__":
    main()
