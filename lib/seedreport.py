#!/usr/bin/env python3
"""Writes seeded/README.md: one row per seeded change with what it needs and whether the check reports it."""
import json, os
ROOT = os.path.join(os.path.dirname(os.path.dirname(os.path.abspath(__file__))), "seeded")
rows = []
for pid in sorted(os.listdir(ROOT)):
    d = os.path.join(ROOT, pid)
    if not os.path.isdir(d):
        continue
    for n in sorted(os.listdir(d)):
        mp = os.path.join(d, n, "meta.json")
        if not os.path.exists(mp):
            continue
        m = json.load(open(mp))
        res = m.get("check_result") or []
        first_missed = any(l.startswith("first run") or "after strengthening" in l for l in res) or bool(m.get("note"))
        sig = ""
        rp = os.path.join(d, n, "replay_example.json")
        if os.path.exists(rp):
            try:
                sig = json.load(open(rp)).get("signature", "")[:70]
            except Exception:
                pass
        status = "reported" if m.get("detected_by_check") else "**missed**"
        if m.get("detected_by_check") and m.get("note"):
            status = "reported after strengthening (missed at first)"
        rows.append((pid, n, (m.get("title") or "").replace("|", "/")[:150], (m.get("needs_to_manifest") or "").replace("|", "/").replace("\n", " ")[:220], status, sig.replace("|", "/")))
with open(os.path.join(ROOT, "README.md"), "w") as f:
    f.write("# Seeded changes\n\nEach directory `<property>/<n>/` holds `patch.diff` (apply with `git -C /repo apply`), `demo.rs` (a test that fails with the patch and passes without it), "
            "`meta.json` (what it breaks, what it needs to manifest, what was run, the check's output), `confirm.json` (independent confirmation in a clean worktree) and `check_result.txt`.\n"
            "All were written by sub-agents that saw only the property text and a scratch worktree of /repo.\n\n"
            "| property | # | change | needs to manifest | `./check` result | example signature |\n|---|---|---|---|---|---|\n")
    for r in rows:
        f.write("| %s | %s | %s | %s | %s | %s |\n" % r)
    tot = len(rows); rep = sum(1 for r in rows if not r[4].startswith("**missed"))
    f.write("\n%d of %d seeded changes are reported by the property's check.\n" % (rep, tot))
print(open(os.path.join(ROOT, "README.md")).read()[-300:])
