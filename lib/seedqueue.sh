#!/bin/bash
# lib/seedqueue.sh <lane> <baseline worktree> : process "<PID> <seed root>" lines appended to /tmp/seedqueue_<lane> one after another
LANE=$1; W=$2; Q=/tmp/seedqueue_$LANE; touch $Q; DONE=0
while true; do
  N=$(wc -l < $Q)
  if [ $N -gt $DONE ]; then
    DONE=$((DONE+1)); L=$(sed -n "${DONE}p" $Q); [ "$L" = "STOP" ] && exit 0
    set -- $L; /verif/lib/seedall.sh $LANE $1 $2 $W >> /tmp/seedall_$LANE.queue.log 2>&1
  else sleep 30; fi
done
