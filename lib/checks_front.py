"""Checks of the `front` cluster: C12 (query front end), C11 (every call completes / failing requests do no damage)."""
from props import standard_check


def check_C12(tier, seed):
    return standard_check(
        "C12", tier, seed, "front", ["c12_parse", "c12_api"],
        trusted=["sqlparser crate (0.56, GenericDialect): the harness parses the query text with the same call as parse_query and maps the crate's AST "
                 "to the reduced AST of Model/Frontend.v (harness/src/bin/lv_front/ast.rs, catch-all arms = `other`); f64 parsing of number literals and "
                 "Unicode upper-casing of function names are oracle leaves computed by Rust std in the harness",
                 "the API oracle (c12_api) derives select items, names, table and LIMIT from the sqlparser AST of the text, independently of parse_query"],
        assumptions=["query texts are valid UTF-8 (run_query takes &str)"],
        rule="c12_parse: pinned witnesses of the refutation lemmas + generated strings in 7 classes (probe: rich supported grammar; shape: plain statements; "
             "limits: every LIMIT/OFFSET literal form; quoting: quote styles, doubled quotes, multi-byte neighbours (both at full weight since the fixes); unsupported: 120 constructs sqlparser "
             "accepts or rejects; mutation: 1-3 character/token edits of any of those; tokens: token soup), class label extended by AST features "
             "(+const +offset +topn +finalpass +grouping +aggconst); model = extracted parse_query / normalize on the reduced AST, compared with the real "
             "Query / normal form field by field. c12_api: the same generators (shape-heavy) against a 4-table, 3-partition fixture database through "
             "LocustDB::run_query under catch_unwind and a deadline; non-trivial = sqlparser accepted the text; distinct by input hash")


def check_C11(tier, seed):
    import os
    import sys
    sys.path.insert(0, os.path.join(os.path.dirname(os.path.abspath(__file__)), "..", "translators"))
    import panic_sites
    import driver as D

    def t7():
        r = panic_sites.generate(D.REPO, os.path.join(D.COQ, "theories", "Gen", "PanicSites.v"))
        if r["unclassified"]:
            D.log("T7: unclassified panic sites: %s" % r["unclassified"][:5])
    t7.__name__ = "T7 panic_sites (parser.rs, locustdb.rs, query.rs, query_task.rs, batch_merging.rs, inner_locustdb.rs, shared_sender.rs, task.rs, input_column.rs, buffer.rs)"
    return standard_check(
        "C11", tier, seed, "front", ["c11_canary"], translators=[t7],
        trusted=["translator T7 (translators/panic_sites.py): the inventory of panic-capable constructs and the hand-written classification rules / table "
                 "(the classes Guarded / NotRequestPath are claims by reading, not theorems)",
                 "the canary harness: one child process per database lifetime (killed on a total deadline), every API call on its own thread with an 8 s "
                 "deadline, a process-wide panic hook as the only view of pool-thread / flush-job panics, and the table `panic site -> locks held` of canary.rs::held_of",
                 "thread scheduling, std::sync poisoning semantics and the one-shot / mpsc channels are not modelled: the model states their effect on the bookkeeping"],
        assumptions=["fairness: a live worker / the flush thread keeps iterating (C11_progress, C11_flush_handshake are statements about iterations)"],
        rule="every open-finding request once (1 worker in memory or 2 workers on disk), plus random scenarios: 1-3 workers, memory/disk, 2-6 rounds of 1-3 "
             "concurrent requests drawn from 28 valid (incl. the repaired ones: OFFSET beyond the rows / without LIMIT, LIMIT 0, i64::MIN % -1, empty batches, short string "
             "columns, mixed columns), 32 failing (bad SQL, LIMIT 1.5, empty text, type errors, overflow, division by zero, unsupported features) and - in 1 scenario of 5, at "
             "most one per scenario - 5 requests of the open findings F27, F32, F23, F2; pinned: SUM over table `ov` (three partitions 2^62, 2^61, 2^62: the overflow appears only in the "
             "final cross-partition merge) with 1 and 3 workers, a 140 000-row / 69 000-distinct dictionary column compacted by force_flush, expressions nested 60 / 100 / 1000 / 30000 deep "
             "(parentheses, unary minus, NOT, subqueries), and the F36 witness; a child process that dies is reported as c11:process-died; after every round a canary ingestion, force_flush, query and table_stats; the extracted model is fed the observed "
             "request outcomes and must reproduce every canary observation; non-trivial = every scenario; distinct by scenario hash")


CHECKS = {"C12": check_C12, "C11": check_C11}
CLAIMED = {
    "C12": dict(
        text="Machine-checked proof (Coq) over an executable model of the conversion from the SQL parser's AST to LocustDB's query (parse_query and all its "
             "helpers as repaired by ec6c954 / 88d707c / 7f4db9b, Query::normalize / extract_aggregators, the output slice as repaired by 0df51a0), stated for EVERY "
             "reduced AST that satisfies the parser invariants (texts are valid UTF-8, number tokens parse as f64): (1) C12_total - the conversion returns a query or "
             "an error value, never a panic; the former panic witnesses (LIMIT 1.5, LIMIT 10^23-1, OFFSET 1.5, empty statement list, lone-quote identifier, quoted text "
             "ending in a multi-byte character) are theorems returning ParseError / the expected names, and the invariants are shown to be necessary; (2) it returns a "
             "query exactly for the supported grammar (`supported`, a syntactic predicate), so every unsupported construct - joins, GROUP BY, HAVING, DISTINCT, several "
             "FROM items, set operations, non-SELECT statements, unsupported operators / functions / AST nodes / values, named and wildcard arguments, wrong arity, "
             "LIKE ... ESCAPE, LIMIT/OFFSET literals that are not u64 - yields NotImplemented / ParseError (Fatal for an unknown unary operator); (3) on success there is "
             "exactly one output name per select item, in order, equal to `*`, or the alias / written text, unquoted when it is enclosed in a matching pair of quote "
             "characters; (4) normalize never panics, maps every select position to an existing projection / aggregate slot carrying the item's name and uses each slot "
             "exactly once in order (or, with a final pass, position i = final column i with LIMIT/OFFSET moved there); (5) for every limit / offset / length the output "
             "slice has at most LIMIT rows and stays inside the result, and limit + offset saturates. The model is tied to the code by a differential run on generated "
             "and mutated query strings (the full converted Query and the normal form are compared field by field, the parser invariants are checked on every case) and "
             "the property itself is checked on LocustDB::run_query against a fixture database by an oracle that derives its expectations (names, star expansion, unknown "
             "table / column, LIMIT, and the exact row count of plain SELECTs under LIMIT/OFFSET) from the sqlparser AST.",
        note="Trusted: Coq kernel, extraction, sqlparser (the harness re-parses the text and reduces the AST; its panics would surface as caller panics), Rust's f64 "
             "parser and Unicode upper-casing as oracle leaves. Select-star expansion, unknown table => error, unknown column => NULL, equal column lengths, row/column "
             "agreement and row counts are covered by the API oracle only (the executor is not modelled). Engine-internal pool-thread panics reached through the rich "
             "expression grammar are attributed to one family finding (F32) for the generator classes probe/mutation/tokens/quoting/limits; in the `shape`, "
             "`unsupported`, `pinned` and `fresh-db` classes every violation must match a site-specific known finding (open: F23, F27, F29b, F30, F31, F33, F34).",
        technique="Coq proof (totality on parser outputs, acceptance = supported grammar, naming, slot bijection, slice bounds) over an executable model + AST-level differential + API oracle",
        design_ref="5/C12"),
    "C11": dict(
        text="Machine-checked proof (Coq) over a model of the scheduler bookkeeping: (1) the damage state machine - requests that return values (results or error "
             "values of any kind), in any number of rounds of concurrent requests, leave the live-worker count, the lock health and the flush thread exactly as they "
             "were and all four canaries succeed after every round; damage is monotone (a lost worker is never replaced, a poisoned lock never heals, a dead flush "
             "thread stays dead); the unguarded statement is refuted by what is still reachable on the repaired tree: a pool-thread panic (F27, F32, F23, F35) loses a "
             "worker and with the last one gone every later query hangs (concrete witness), a panicking flush job (F2) blocks every later force_flush; the canaries detect every modelled damage except a partially depleted pool; "
             "(2) the task queue (schedule / await_task / worker_loop, sequentialised): while a live worker keeps iterating and no task panics the queue drains within "
             "`measure` iterations and every scheduled task has answered; a panicking task consumes its entry and answers nobody; (3) the force_flush hand-shake: every "
             "caller registered before an iteration of the flush thread is answered after that iteration's flush, a late caller by the next one, the rest at shutdown, "
             "nobody after a panicking flush job. The damage machine is tied to the code by the canary differential: every database lifetime in its own child process, "
             "scenarios of valid / failing / known-damaging requests from 1-3 client threads against 1-3 workers (memory and disk), after every round a canary ingestion, "
             "force_flush, query and table_stats under deadlines; the extracted model is fed the observed request outcomes and must reproduce every canary observation.",
        note="Partial: 'returns in bounded time' is a fairness-conditional statement about iterations of the model (real thread interleavings, std::sync poisoning and the "
             "channels are not modelled, their effect on the bookkeeping is stated and validated by the differential). C11_sites_classified is a regenerated-table "
             "obligation over the T7 inventory (102 constructs in 10 request-path files): the rule classes are backed by the model theorems, the Guarded / "
             "NotRequestPath classes are justified by reading only; the planner and the vector operators are not inventoried. Compaction/encoding branches are exercised for one branch only (hex-packed strings, finding F2).",
        technique="Coq proof of invariants of three small state machines + canary differential in child processes",
        design_ref="5/C11"),
}
