"""Checks of the `front` cluster: C12 (query front end), C11 (every call completes / failing requests do no damage)."""
from props import standard_check


def check_C12(tier, seed):
    return standard_check(
        "C12", tier, seed, "front", ["c12_parse"],
        trusted=["sqlparser crate: the harness parses the query text with the same dialect and maps the AST to the reduced AST (ast.rs, catch-all arms = other)"],
        assumptions=[],
        rule="")


CHECKS = {"C12": check_C12}
CLAIMED = {}
