"""Checks of the `front` cluster: C12 (query front end), C11 (every call completes / failing requests do no damage)."""
from props import standard_check


def check_C12(tier, seed):
    return standard_check(
        "C12", tier, seed, "front", ["c12_parse", "c12_api"],
        trusted=["sqlparser crate (0.56, GenericDialect): the harness parses the query text with the same call as parse_query and maps the crate's AST "
                 "to the reduced AST of Model/Frontend.v (harness/src/bin/lv_front/ast.rs, catch-all arms = `other`); f64 parsing of number literals and "
                 "Unicode upper-casing of function names are oracle leaves computed by Rust std in the harness",
                 "the API oracle (c12_api) derives select items, names, table and LIMIT from the sqlparser AST of the text, independently of parse_query"],
        assumptions=["query texts are valid UTF-8 (run_query takes &str)"],
        rule="c12_parse: pinned witnesses of the refutation lemmas + generated strings in 7 classes (probe: rich supported grammar; shape: plain statements; "
             "limits: every LIMIT/OFFSET literal form; quoting: quote styles, doubled quotes, multi-byte neighbours; unsupported: 120 constructs sqlparser "
             "accepts or rejects; mutation: 1-3 character/token edits of any of those; tokens: token soup), class label extended by AST features "
             "(+const +offset +topn +finalpass +grouping +aggconst); model = extracted parse_query / normalize on the reduced AST, compared with the real "
             "Query / normal form field by field. c12_api: the same generators (shape-heavy) against a 4-table, 3-partition fixture database through "
             "LocustDB::run_query under catch_unwind and a 4 s deadline; non-trivial = sqlparser accepted the text; distinct by input hash")


def check_C11(tier, seed):
    return standard_check(
        "C11", tier, seed, "front", ["c11_canary"],
        trusted=["the canary harness: one child process per database lifetime (killed on a total deadline), every API call on its own thread with an 8 s "
                 "deadline, a process-wide panic hook as the only view of pool-thread / flush-job panics, and the table `panic site -> locks held` of canary.rs::held_of",
                 "thread scheduling, std::sync poisoning semantics and the one-shot / mpsc channels are not modelled: the model states their effect on the bookkeeping"],
        assumptions=["fairness: a live worker / the flush thread keeps iterating (C11_progress, C11_flush_handshake are statements about iterations)"],
        rule="every known-finding request once with 1 and with 2 workers (in memory / on disk), plus random scenarios: 1-3 workers, memory/disk, 2-6 rounds of 1-3 "
             "concurrent requests drawn from 14 valid, 27 failing (bad SQL, type errors, overflow, division by zero, unsupported features) and - in 1 scenario of 5, at most "
             "one per scenario - 17 damaging requests; after every round a canary ingestion, force_flush, query and table_stats; the extracted model is fed the observed "
             "request outcomes and must reproduce every canary observation; non-trivial = every scenario; distinct by scenario hash")


CHECKS = {"C12": check_C12, "C11": check_C11}
CLAIMED = {}
