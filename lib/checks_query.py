"""Checks of the `query` cluster: C02..C06 (query results)."""
from props import standard_check

QUERY_TRUSTED = [
    "Rust reference evaluator in harness/src/bin/lv_query (i128 arithmetic / row-at-a-time evaluation) used as the "
    "implementation-only oracle; it is cross-checked against the extracted Coq model on every non-violating case",
    "add-only #[cfg(feature = \"verif\")] wrappers around private kernel functions in /repo/src/engine/operators "
    "(merge, merge_deduplicate, merge_aggregate, merge_drop, merge_keep, subpartition, top_n::heap_replace)",
]


def check_C06(tier, seed):
    return standard_check(
        "C06", tier, seed, "query", ["c06_kernel", "c06_api"],
        trusted=QUERY_TRUSTED,
        assumptions=["operands are widened to i64 before every operation (as numeric_operators.rs does)",
                     "stored integers exclude i64::MAX (the engine's NULL sentinel, C01's domain)",
                     "columns whose own value range exceeds i64 are excluded (C01: F10/F19)"],
        rule="c06_kernel: perform_checked for 5 ops x 16 operand-width pairs at u8/u16/u32/i64 edges, Checked/NullableChecked "
             "vector operators through a real Scratchpad, Combinable<i64>::combine, SUM over random merge trees; "
             "c06_api: expression trees of depth <= 3 and SUM over int columns at encoding edges under generated layouts "
             "(1-4 batches, flush patterns, options); non-trivial = at least 2 rows/elements; distinct by input hash")


CHECKS = {
    "C06": check_C06,
}

CLAIMED = {
    "C06": dict(
        text="Machine-checked proof (Coq 8.16, no axioms) over a transcription of numeric_operators.rs / binary_operator.rs / "
             "aggregate.rs / merge_aggregate.rs that each of + - * / % returns the exact in-range result or raises the overflow "
             "flag (never a wrapped value), that the flag is raised only when no exact i64 result exists (one documented "
             "conservative case), that NULL rows raise nothing, that expression trees evaluate to their exact integer value, and "
             "that per-partition checked SUM followed by checked merging over ANY merge tree gives the exact sum or Overflow "
             "(guard: no partial sum equals the i64::MAX sentinel; refutation witness included). i64::MIN % -1 is proved to be "
             "the only panic. The model is tied to the Rust kernels and to LocustDB::run_query by a differential run on every check.",
        note="Planner choice of checked vs unchecked operators is covered only by the API-level differential (no registry "
             "translator). Trusted: Coq kernel, extraction, OCaml/Rust glue, the Rust reference evaluator.",
        technique="Coq proof over an executable model of the checked-arithmetic kernels + kernel-level and API-level differential correspondence",
        design_ref="5/C06"),
}
