"""Checks of the `query` cluster: C02..C06 (query results)."""
from props import standard_check

QUERY_TRUSTED = [
    "Rust reference evaluator in harness/src/bin/lv_query (i128 arithmetic / row-at-a-time evaluation) used as the "
    "implementation-only oracle; it is cross-checked against the extracted Coq model on every non-violating case",
    "add-only #[cfg(feature = \"verif\")] wrappers around private kernel functions in /repo/src/engine/operators "
    "(merge, merge_deduplicate, merge_aggregate, merge_drop, merge_keep, subpartition, top_n::heap_replace)",
]


def check_C06(tier, seed):
    return standard_check(
        "C06", tier, seed, "query", ["c06_kernel", "c06_api"],
        trusted=QUERY_TRUSTED,
        assumptions=["operands are widened to i64 before every operation (as numeric_operators.rs does)",
                     "stored integers exclude i64::MAX (the engine's NULL sentinel, C01's domain)",
                     "columns whose own value range exceeds i64 are excluded (C01: F10/F19)"],
        rule="c06_kernel: perform_checked for 5 ops x 16 operand-width pairs at u8/u16/u32/i64 edges, Checked/NullableChecked "
             "vector operators through a real Scratchpad, Combinable<i64>::combine, SUM over random merge trees; "
             "c06_api: expression trees of depth <= 3 and SUM over int columns at encoding edges under generated layouts "
             "(1-4 batches, flush patterns, options); non-trivial = at least 2 rows/elements; distinct by input hash")


API_ASSUMPTIONS = [
    "type-homogeneous columns (int / float / string), nullable or absent from some batches; columns mixing types across rows are C01's subject",
    "stored integers exclude i64::MAX (NULL sentinel); columns whose own value range exceeds i64 are excluded (C01: F10/F19)",
    "float SUM is compared numerically with a relative tolerance of 1e-9 by the harness (the Coq checker treats it as a wildcard); NaN is not generated",
    "an Overflow error is accepted whenever some expression of the query overflows on some row of the table or a partial SUM of a group can leave i64 (which partial sums occur depends on the split)",
]


def check_C03(tier, seed):
    return standard_check(
        "C03", tier, seed, "query", ["c03_kernel", "c03_filter"],
        trusted=QUERY_TRUSTED, assumptions=API_ASSUMPTIONS,
        rule="c03_kernel: the six comparisons on u8/u16/u32 offset encodings against constants inside / at the edges of / outside the "
             "column range through the real Codec::encode_int, InverseDictLookup on generated dictionaries; c03_filter: "
             "SELECT id [,col] FROM t WHERE <pred> on generated tables (9 typed columns, 1-300 rows) and layouts (1-4 batches, flush "
             "patterns, batch_size/threads/lz4/max_partition_size options) in 9 predicate slices; non-trivial = table has >= 2 rows; "
             "distinct by input hash")


def check_C05(tier, seed):
    return standard_check(
        "C05", tier, seed, "query", ["c05_kernel", "c05_order"],
        trusted=QUERY_TRUSTED, assumptions=API_ASSUMPTIONS,
        rule="c05_kernel: merge / merge_keep / merge_keep_nullable / partition / subpartition / merge_partitioned / heap_replace "
             "on generated sorted inputs (ties, ASC and DESC comparators, limits 0..n+2 and usize::MAX); c05_order: "
             "SELECT .. [WHERE] ORDER BY 1-3 keys (columns or expressions, ASC/DESC mixes) LIMIT/OFFSET around half the partition "
             "length and around the row count, and LIMIT/OFFSET without ORDER BY, in 7 slices")


def check_C04(tier, seed):
    return standard_check(
        "C04", tier, seed, "query", ["c04_kernel", "c04_group"],
        trusted=QUERY_TRUSTED, assumptions=API_ASSUMPTIONS,
        rule="c04_kernel: merge_deduplicate / merge_aggregate (SUM, COUNT, MIN, MAX; values at the i64 edges) / merge_drop / "
             "partition + merge_deduplicate_partitioned on generated strictly sorted key columns; c04_group: 0-3 grouping "
             "columns (int/float/string, nullable, partially absent, cardinalities 1..260), COUNT/SUM/MIN/MAX/AVG over int and float "
             "measures, optional WHERE / ORDER BY / LIMIT, 1-4 partitions, in 10 slices")


def check_C02(tier, seed):
    return standard_check(
        "C02", tier, seed, "query", ["c02_layout"],
        trusted=QUERY_TRUSTED, assumptions=API_ASSUMPTIONS,
        rule="c02_layout: one logical table under two generated physical layouts (batch splits, flush after any subset of batches, "
             "partition_combine_factor in {0,1,4,999}, mem_lz4, max_partition_size_bytes in {1,64,4096,8Mi}, batch_size in "
             "{8,16,64,1024}, threads in {1,2,8}, memory-only / on-disk, typed-column / row-wise ingestion); 4-5 queries per pair "
             "(filter, nullable filter, order-by-limit, aggregate, one gap-prone query); every answer is checked against the "
             "specification and the two answers against each other")


CHECKS = {
    "C02": check_C02,
    "C03": check_C03,
    "C04": check_C04,
    "C05": check_C05,
    "C06": check_C06,
}

CLAIMED = {
    "C06": dict(
        text="Machine-checked proof (Coq 8.16, no axioms) over a transcription of numeric_operators.rs / binary_operator.rs / "
             "aggregate.rs / merge_aggregate.rs that each of + - * / % returns the exact in-range result or raises the overflow "
             "flag (never a wrapped value), that the flag is raised only when no exact i64 result exists (one documented "
             "conservative case), that NULL rows raise nothing, that expression trees evaluate to their exact integer value, and "
             "that per-partition checked SUM followed by checked merging over ANY merge tree gives the exact sum or Overflow "
             "(guard: no partial sum equals the i64::MAX sentinel; refutation witness included). No operation can panic "
             "(i64::MIN % -1 = 0 after the wrapping_rem fix). The model is tied to the Rust kernels (perform_checked on every operand "
             "width; the Checked / NullableChecked operators in their vector-vector, vector-scalar and scalar-vector forms, driven "
             "through a real Scratchpad) and to LocustDB::run_query (incl. constant-on-the-left `/`, `%`, `-` over nullable columns) "
             "by a differential run on every check.",
        note="Planner choice of checked vs unchecked operators is covered only by the API-level differential (no registry "
             "translator). Trusted: Coq kernel, extraction, OCaml/Rust glue, the Rust reference evaluator.",
        technique="Coq proof over an executable model of the checked-arithmetic kernels + kernel-level and API-level differential correspondence",
        design_ref="5/C06"),
    "C03": dict(
        text="Machine-checked proof (Coq 8.16, no axioms): comparing an offset-encoded integer with the translated constant equals "
             "comparing the decoded values for all six operators whenever `constant - offset` stays in i64 (the overflow set is "
             "characterised exactly; the release-profile wrap-around is refuted with a witness); on a sorted duplicate-free "
             "dictionary = / <> on indices agree with byte equality for present and absent constants, < <= > >= agree with byte "
             "order when the constant is present (refuted when absent, F7); null-aware AND as planned keeps exactly the rows of "
             "three-valued AND (OR refuted, F21); the specification's WHERE returns exactly the sub-list of rows whose predicate "
             "is TRUE, NULL comparisons are never true, IS [NOT] NULL tests presence; an integer column compared with a float literal "
             "is compared exactly (m*2^e against the integer, worked examples proved). The kernels are tied to the Rust code and the "
             "specification to LocustDB::run_query by differential runs on every check.",
        note="Plan selection (which encoded / decoded operator the planner picks per partition), LIKE/regex and the filter "
             "application to other columns are covered only by the API-level differential against Model/QuerySpec.v (LIKE is "
             "specified by a direct matcher, regex() is not generated). 30-odd engine gaps in this area are listed as known findings.",
        technique="Coq proof over executable models of the encoded-comparison kernels and of the WHERE semantics + kernel-level and API-level differential correspondence",
        design_ref="5/C03"),
    "C04": dict(
        text="Machine-checked proof (Coq 8.16, no axioms) over a transcription of merge_deduplicate.rs / merge_aggregate.rs / "
             "merge_drop.rs: on strictly sorted key columns the index loop computes the three-way merge; replaying its ops with "
             "Combinable::combine yields exactly the union of the two partial group-by results (each key once, COUNT/SUM/MIN/MAX "
             "combined exactly) unless Overflow is reported; that union equals the group-by of the concatenated rows; hence over ANY "
             "binary merge tree every group occurs exactly once, exactly the occurring keys are present and each carries the "
             "aggregate of exactly its rows.",
        note="Proved for integer keys (a key = its rank in the key order) and one key column; the partitioned multi-column kernels, "
             "the per-partition grouping strategies (array / bit-packed / hash), compaction of accumulator arrays, AVG's final pass "
             "and float sums are covered by the kernel and API differentials only. Nullable-key grouping and multi-column grouping "
             "with float / wide-integer / string keys or under WHERE are broken in the engine (known findings Q15/Q16); multi-column "
             "grouping by narrow non-null integer keys, groups whose measure is NULL-only in one partition and grouping by a column "
             "that never exists have dedicated slices that must pass.",
        technique="Coq proof over executable models of the dedup-merge / aggregate-merge kernels + kernel-level and API-level differential correspondence",
        design_ref="5/C04"),
    "C05": dict(
        text="Machine-checked proof (Coq 8.16, no axioms; comparator = any total transitive relation) over a transcription of "
             "merge.rs / merge_keep.rs / the select branch of batch_merging::combine / the final slice: merge with limit is the "
             "limit-prefix of the stable merge (sorted, permutation of the inputs); merge_keep carries the other columns row-aligned; "
             "the relation `topk` (sorted, min(k,n) rows, nothing smaller left out, ties free) is preserved by merging and holds for "
             "sort-then-cut partitions, hence for ANY merge tree; without ORDER BY any tree yields the ingestion-order prefix; the "
             "final slice is total, returns rows offset+1..offset+limit (fewer or none when short) and equals the LIMIT/OFFSET window "
             "of the specification; limit + offset saturates (both after fix 0df51a0).",
        note="top_n's heap (heap_replace is modelled and differentially tested, no heap-invariant proof), partition / subpartition / "
             "merge_partitioned for multi-key sorts (modelled and differentially tested, not proved), NULL placement by the "
             "comparators and per-partition sorting are covered by the kernel and API differentials against Model/QuerySpec.v only "
             "(one slice sorts by a key that is NULL throughout one of >= 3 partitions, which sends the merge through the dynamically "
             "typed comparators). "
             "The bridge from `topk` to the QuerySpec checker is not proved.",
        technique="Coq proof over executable models of the sorted-merge kernels + kernel-level and API-level differential correspondence",
        design_ref="5/C05"),
    "C02": dict(
        text="Machine-checked proof (Coq 8.16, no axioms) that for the three result kinds every binary merge tree over the "
             "per-partition results yields the answer for the concatenated table: select/filter (append with limit = ingestion-order "
             "prefix), ORDER BY with LIMIT (the topk relation), aggregates (group-by of all rows; checked SUM exact or Overflow); two "
             "splits of the same rows therefore give the same rows / groups. The specification `valid` takes the logical table only, "
             "its canonical answer is proved valid for every query, table, LIMIT and OFFSET, and its arithmetic is proved equal to the "
             "engine's checked arithmetic. Every run builds one logical table under pairs of physical layouts and checks both answers "
             "against the extracted `valid` and against each other.",
        note="Planner, executor (stage partitioning, streaming batch size), lazy column loading, compaction and restart are reached "
             "only by the correspondence run (memory-only / on-disk, flush subsets, combine factors, options); restarted-and-cold "
             "layouts are not generated. Trusted: Coq kernel, extraction, OCaml/Rust glue, the Rust reference evaluator.",
        technique="Coq proof of the merge algebra over executable kernel models + executable SQL specification with a proved-sound checker + layout-pair metamorphic correspondence",
        design_ref="5/C02"),
}
