"""Checks of the `conc` cluster: C10 (a concurrent query sees a clean prefix of every table)."""
from props import standard_check


def check_C10(tier, seed):
    return standard_check(
        "C10", tier, seed, "conc", ["c10_sched", "c10_stress"],
        trusted=["sync points (feature `verif`): labels inside the critical sections of Table::{snapshot,freeze_buffer,batch,compact,ingest_homogeneous}, "
                 "InnerLocustDB::{ingest_efficient,wal_flush,flush_table_buffer,compact} and DiskReadScheduler::get_or_load; the order in which threads enter the "
                 "callback is taken as the linearisation of the real lock operations",
                 "std::sync::{Mutex,RwLock} provide mutual exclusion as modelled; Arc keeps a partition alive for the query that holds it; the real memory model, "
                 "atomics (next_partition_id, next_partition_offset) and lock poisoning are runtime behaviour, exercised only by the harness"],
        assumptions=["one flush thread (wal_flush is never run concurrently, as the code states)", "row ids are unique per ingested row (harness data)"],
        rule="c10_sched: the flush thread (with / without compaction, fresh / restarted on-disk database) parked at each of 34 sync points, a query thread at 6, an ingester at 6, "
             "while SELECT id + COUNT + ORDER BY id + a column some partitions lack + a column no partition has (all at once) and/or a second ingestion and/or a flush are started at that instant; "
             "evict_cache + queries in dedicated classes; "
             "c10_stress: 2 ingesters + flush loop + 3 queriers (+ eviction loop in a dedicated class) with seeded perturbation at the sync points; every query result judged by the prefix relation against the "
             "acknowledged-batch log, every observed sync-point sequence replayed on the Coq model (must be a path and reproduce every snapshot and the final layout); "
             "non-trivial = the parked label was reached and something was injected; distinct by input hash")


CHECKS = {"C10": check_C10}

CLAIMED = {
    "C10": dict(
        text="Machine-checked proof (Coq) over a small-step interleaving model of the lock / publication protocol of one table (any number of ingesters serialised by the wal "
             "lock, the flush thread: freeze, batch, plan, compact; any number of queriers: snapshot), for ALL schedules the locks admit and unbounded numbers of batches, "
             "flushes, compactions and queries: every snapshot a query runs on is the concatenation of the first k pushed batches with k >= the number acknowledged when the "
             "query was issued (each batch wholly in or out, no row twice); the compaction swap never shows a snapshot both an old and the merged partition and leaves the "
             "visible rows unchanged; locks are acquired in one global order (wal < frozen_buffer < partitions < buffer) and some lock holder can always move (no deadlock); "
             "the two protocol panics (freeze assert, snapshot_parts index) are unreachable. The catalogue look-up on the query path, the flush thread's handle unwrap and "
             "eviction are modelled separately (Model/ConcSMCat.v, on the code repaired by 3a6284a / 7a0a728): no query ever panics (C10_query_no_panic, unconditional); without "
             "evictions nobody panics, no query sees an existing column as absent and the flush / compaction lose no column, for all schedules and all queried columns "
             "(C10_no_panic_no_loss_guarded; the former F14a / F14 witnesses pass: C10_former_witnesses_pass); with an eviction these are REFUTED (C10_eviction_refuted) - "
             "confirmed on the code as the open finding F14b. "
             "Tie: deterministic schedule enumeration through sync points plus seeded stress; the prefix oracle on every query, and replay of every observed label sequence on the model.",
        note="Partial: the real memory model, Arc/atomics, lock poisoning, the worker pool and disk loads are runtime behaviour reached only by the harness; the model has one table; "
             "get_cols is one atomic step in the catalogue model. Known finding F14b (eviction of a partition's columns before it is in the catalogue: NULL ids, hanging flush) is "
             "confined to the dedicated eviction classes; every other class, absent-column queries included, must be clean.",
        technique="Coq invariant proof over all interleavings of an executable lock-protocol model + sync-point schedule enumeration and stress with model replay",
        design_ref="5/C10"),
}
