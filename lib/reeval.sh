#!/bin/bash
# lib/reeval.sh <lane> <PID/n> ... : re-run lib/seedeval.sh for seeded changes already collected under
# /verif/seeded and update their check_result.txt (keeping the first-run result when it was a miss).
LANE=$1; shift
for pn in "$@"; do
  PID=${pn%/*}; N=${pn#*/}; D=/verif/seeded/$PID/$N
  OUT=$(/verif/lib/seedeval.sh $LANE $PID $D/patch.diff 2>&1 | grep -E "VIOLATION|KNOWN|^\[|SEEDEVAL" | cut -c1-400)
  if grep -q "^VIOLATION" $D/check_result.txt 2>/dev/null && ! grep -q "first run" $D/check_result.txt; then
    echo "$OUT" > $D/check_result.txt
  else
    FIRST=$(grep -E "^\[|SEEDEVAL" $D/check_result.txt | head -2 | tr '\n' ' ')
    (echo "first run: $FIRST"; echo "after strengthening the check:"; echo "$OUT") > $D/check_result.txt
  fi
  cp /tmp/seedeval-$LANE/verif/evidence/replay/$PID-1.json $D/replay_example.json 2>/dev/null
  echo "$pn: $(echo "$OUT" | grep -c '^VIOLATION') violation lines; $(echo "$OUT" | grep SEEDEVAL)"
done
