"""Driver for the LocustDB verification checks (see DESIGN.md section 2.2).

One property check =
  1. translators  -> coq/theories/Gen/*.v          (regenerated from /repo on every run)
  2. make         -> Props/<id>.vo and its closure  (under timeout)
  3. audit        -> coqc on a generated file: Print Assumptions for every theorem of Props/<id>.v,
                     compared against the allow-list; forbidden-word grep over the development
  4. harness      -> lvharness runs the implementation on generated cases (current /repo tree, feature
                     `verif`), writes JSONL: input, implementation output, property-oracle verdict
  5. lvmodel      -> the extracted Coq model evaluates the same inputs; outputs are diffed
  6. on any broken obligation / disagreement: failing-input search with the property oracle
  7. known_findings.json is consulted; evidence/<id>.json is written; exit code 0/1
"""
import fcntl
import hashlib
import json
import os
import re
import subprocess
import sys
import time

VERIF = os.path.dirname(os.path.dirname(os.path.abspath(__file__)))
REPO = os.environ.get("VERIF_REPO", "/repo")
COQ = os.path.join(VERIF, "coq")
OCAML = os.path.join(VERIF, "ocaml")
HARNESS = os.path.join(VERIF, "harness")
CACHE = os.path.join(VERIF, ".cache")
EVID = os.path.join(VERIF, "evidence")
TARGET = os.path.join(CACHE, "target")

ALLOWED_AXIOMS = {
    # none are needed so far; standard-library axioms that may be allow-listed by name go here
}

FORBIDDEN = re.compile(
    r"\b(Admitted|admit|Axiom|Axioms|Parameter|Parameters|Conjecture|Hypothesis|Variable|Variables|"
    r"Hypotheses)\b|Unset Guard|bypass_check|type-in-type|impredicative-set|Admit Obligations|"
    r"Unset Universe Checking|Unset Positivity")


def log(msg):
    print(msg, flush=True)


class Lock:
    def __init__(self, name):
        os.makedirs(CACHE, exist_ok=True)
        self.path = os.path.join(CACHE, name + ".lock")

    def __enter__(self):
        self.f = open(self.path, "w")
        fcntl.flock(self.f, fcntl.LOCK_EX)
        return self

    def __exit__(self, *a):
        fcntl.flock(self.f, fcntl.LOCK_UN)
        self.f.close()


def run(cmd, cwd=None, timeout=1800, env=None, stdin=None):
    e = dict(os.environ)
    e.setdefault("CARGO_NET_OFFLINE", "true")
    if env:
        e.update(env)
    try:
        p = subprocess.run(cmd, cwd=cwd, timeout=timeout, env=e, input=stdin,
                           stdout=subprocess.PIPE, stderr=subprocess.STDOUT, text=True)
        return p.returncode, p.stdout
    except subprocess.TimeoutExpired as ex:
        out = ex.stdout or ""
        if isinstance(out, bytes):
            out = out.decode("utf8", "replace")
        return 124, out + "\n[timeout after %ss]" % timeout


# ------------------------------------------------------------------------------------------------
# Coq
# ------------------------------------------------------------------------------------------------

def coq_files():
    out = []
    for root, _, files in os.walk(os.path.join(COQ, "theories")):
        for f in sorted(files):
            if f.endswith(".v"):
                out.append(os.path.relpath(os.path.join(root, f), COQ))
    return sorted(out)


def write_coqproject():
    files = [f for f in coq_files() if not f.startswith("theories/Extract/") and "/Audit" not in f]
    body = "-Q theories LV\n-arg -w -arg -notation-overridden,-deprecated\n" + "\n".join(files) + "\n"
    p = os.path.join(COQ, "_CoqProject")
    old = open(p).read() if os.path.exists(p) else None
    if old != body or not os.path.exists(os.path.join(COQ, "Makefile")):
        open(p, "w").write(body)
        rc, out = run(["coq_makefile", "-f", "_CoqProject", "-o", "Makefile"], cwd=COQ)
        if rc != 0:
            raise RuntimeError("coq_makefile failed: " + out)


def theorem_names(prop_file):
    src = open(prop_file).read()
    src = re.sub(r"\(\*.*?\*\)", "", src, flags=re.S)
    return re.findall(r"^\s*(?:Theorem|Corollary)\s+([A-Za-z0-9_']+)", src, re.M)


def closure(pid):
    """files of the development that Props/<pid>.v depends on (transitively, by Require lines)"""
    seen, todo = set(), ["theories/Props/%s.v" % pid]
    while todo:
        f = todo.pop()
        if f in seen or not os.path.exists(os.path.join(COQ, f)):
            continue
        seen.add(f)
        src = open(os.path.join(COQ, f)).read()
        for m in re.finditer(r"From\s+LV\s+Require\s+(?:Import\s+|Export\s+)?((?:[A-Za-z_]\w*(?:\.[A-Za-z_]\w*)*\s*)+)\.", src):
            for mod in m.group(1).split():
                todo.append("theories/" + mod.replace(".", "/") + ".v")
        for m in re.finditer(r"(?<!LV )Require\s+(?:Import\s+|Export\s+)?((?:LV\.[A-Za-z0-9_.]*\w\s*)+)\.", src):
            for mod in m.group(1).split():
                todo.append("theories/" + mod[3:].replace(".", "/") + ".v")
    return sorted(seen)


def forbidden_scan(pid):
    bad = []
    for f in closure(pid):
        src = open(os.path.join(COQ, f)).read()
        nocomment = re.sub(r"\(\*.*?\*\)", lambda m: " " * len(m.group(0)), src, flags=re.S)
        for m in FORBIDDEN.finditer(nocomment):
            # Section-local Variable/Hypothesis are allowed only inside a Section ... End block
            word = m.group(0)
            if word in ("Variable", "Variables", "Hypothesis", "Hypotheses"):
                before = nocomment[:m.start()]
                opened = len(re.findall(r"^\s*Section\s+\w+", before, re.M))
                closed = len(re.findall(r"^\s*End\s+\w+\s*\.", before, re.M))
                modules = len(re.findall(r"^\s*Module\s+(?:Type\s+)?\w+", before, re.M))
                if opened > closed - modules and opened > 0:
                    continue
            line = nocomment[:m.start()].count("\n") + 1
            bad.append("%s:%d: %s" % (f, line, word))
    return bad


def coq_build(pid, translators=()):
    """Returns dict(ok, obligations=[{name, status, axioms}], log, translators)"""
    res = {"ok": True, "obligations": [], "log": "", "translator_errors": []}
    with Lock("coq"):
        os.makedirs(os.path.join(COQ, "theories", "Gen"), exist_ok=True)
        for t in translators:
            try:
                t()
            except Exception as ex:  # translator fails closed
                res["ok"] = False
                res["translator_errors"].append("%s: %s" % (getattr(t, "__name__", "translator"), ex))
        write_coqproject()
        target = "theories/Props/%s.vo" % pid
        rc, out = run(["make", "-j16", target], cwd=COQ, timeout=1500)
        res["log"] = out[-6000:]
        prop_file = os.path.join(COQ, "theories", "Props", pid + ".v")
        names = theorem_names(prop_file)
        if rc != 0:
            res["ok"] = False
            # find which theorems still check: not attempted file by file; everything in the
            # property file counts as undischarged
            for n in names:
                res["obligations"].append({"name": n, "status": "broken", "axioms": None})
            return res
        audit = os.path.join(CACHE, "audit")
        os.makedirs(audit, exist_ok=True)
        af = os.path.join(audit, "Audit_%s.v" % pid)
        with open(af, "w") as f:
            f.write("From LV Require Import Props.%s.\n" % pid)
            for n in names:
                f.write('Goal True. idtac "@@BEGIN %s". exact I. Qed.\n' % n)
                f.write("Print Assumptions %s.\n" % n)
                f.write('Goal True. idtac "@@END %s". exact I. Qed.\n' % n)
        rc, out = run(["coqc", "-Q", os.path.join(COQ, "theories"), "LV", "-o",
                       os.path.join(audit, "Audit_%s.vo" % pid), af], cwd=audit, timeout=600)
        if rc != 0:
            res["ok"] = False
            res["log"] += "\n[audit failed]\n" + out[-3000:]
            for n in names:
                res["obligations"].append({"name": n, "status": "broken", "axioms": None})
            return res
        for n in names:
            m = re.search(r"@@BEGIN %s\n(.*?)@@END %s" % (re.escape(n), re.escape(n)), out, re.S)
            text = m.group(1).strip() if m else "?"
            if "Closed under the global context" in text:
                status, axioms = "closed", []
            else:
                axioms = re.findall(r"^([A-Za-z0-9_.']+)\s*:", text, re.M)
                status = "allowed-axioms" if axioms and all(a in ALLOWED_AXIOMS for a in axioms) else "disallowed"
                if status == "disallowed":
                    res["ok"] = False
            res["obligations"].append({"name": n, "status": status, "axioms": axioms, "print_assumptions": text[:400]})
        bad = forbidden_scan(pid)
        res["closure"] = closure(pid)
        if bad:
            res["ok"] = False
            res["log"] += "\n[forbidden constructs]\n" + "\n".join(bad)
            res["forbidden"] = bad
    return res


def coqchk(pid):
    rc, out = run(["coqchk", "-silent", "-o", "-Q", "theories", "LV", "LV.Props.%s" % pid], cwd=COQ, timeout=3000)
    return rc, out[-3000:]


# ------------------------------------------------------------------------------------------------
# OCaml model runner
# ------------------------------------------------------------------------------------------------

def model_build(cluster):
    """(Re-)extract and build ocaml/<cluster>/lvmodel when the models changed. Returns (ok, log)."""
    with Lock("coq"):
        write_coqproject()
        extract_v = os.path.join(COQ, "theories", "Extract", "Extract_%s.v" % cluster)
        src = open(extract_v).read()
        mods = re.findall(r"^From LV Require Import (.*?)\.\s*$", src, re.M)
        targets = []
        for line in mods:
            for m in line.split():
                targets.append("theories/" + m.replace(".", "/") + ".vo")
        rc, out = run(["make", "-j16"] + targets, cwd=COQ, timeout=1500)
        if rc != 0:
            return False, out[-4000:]
        h = hashlib.sha256()
        for d in ("Model", "Gen", "Base"):
            p = os.path.join(COQ, "theories", d)
            if not os.path.isdir(p):
                continue
            for f in sorted(os.listdir(p)):
                if f.endswith(".v"):
                    h.update(f.encode())
                    h.update(open(os.path.join(p, f), "rb").read())
        h.update(src.encode())
        cdir = os.path.join(OCAML, cluster)
        for d in (cdir, os.path.join(OCAML, "common")):
            for f in sorted(os.listdir(d)):
                if f.endswith(".ml") or f in ("dune",):
                    h.update(open(os.path.join(d, f), "rb").read())
        stamp = os.path.join(CACHE, "model_%s.stamp" % cluster)
        exe = model_exe(cluster)
        if os.path.exists(stamp) and open(stamp).read() == h.hexdigest() and os.path.exists(exe):
            return True, "cached"
        ext = os.path.join(cdir, "extracted")
        os.makedirs(ext, exist_ok=True)
        for f in os.listdir(ext):
            os.remove(os.path.join(ext, f))
        rc, out = run(["coqc", "-Q", os.path.join(COQ, "theories"), "LV", "-o",
                       os.path.join(CACHE, "Extract_%s.vo" % cluster), extract_v], cwd=ext, timeout=900)
        if rc != 0:
            return False, "extraction failed\n" + out[-4000:]
        rc, out = run(["dune", "build", "./%s/lvmodel.exe" % cluster], cwd=OCAML, timeout=900)
        if rc != 0:
            return False, "dune build failed\n" + out[-4000:]
        open(stamp, "w").write(h.hexdigest())
        return True, "rebuilt"


def model_exe(cluster):
    return os.path.join(OCAML, "_build", "default", cluster, "lvmodel.exe")


def model_eval(cluster, pairs):
    """pairs: list of (suite, input_sexp) -> list of output strings"""
    if not pairs:
        return []
    exe = model_exe(cluster)
    nshards = min(16, max(1, len(pairs) // 200))
    shards = [pairs[i::nshards] for i in range(nshards)]
    procs = []
    for sh in shards:
        p = subprocess.Popen(["bash", "-c", "ulimit -s unlimited 2>/dev/null; exec '%s'" % exe],
                             stdin=subprocess.PIPE, stdout=subprocess.PIPE, text=True)
        procs.append(p)
    import threading
    outs = [None] * nshards

    def feed(i):
        data = "".join("%s\t%s\n" % (s, inp) for s, inp in shards[i])
        o, _ = procs[i].communicate(data)
        outs[i] = o.split("\n")
    ths = [threading.Thread(target=feed, args=(i,)) for i in range(nshards)]
    for t in ths:
        t.start()
    for t in ths:
        t.join()
    res = [None] * len(pairs)
    for i in range(nshards):
        for j, line in enumerate(outs[i][:len(shards[i])]):
            res[i + j * nshards] = line
    for k in range(len(res)):
        if res[k] is None:
            res[k] = "!ERR model produced no output"
    return res


# ------------------------------------------------------------------------------------------------
# Rust harness
# ------------------------------------------------------------------------------------------------

def harness_build(cluster, profile="dev"):
    with Lock("cargo"):
        # keep the lock file of the harness in sync with the repository's own
        src = os.path.join(REPO, "Cargo.lock")
        dst = os.path.join(HARNESS, "Cargo.lock")
        if not os.path.exists(dst):
            import shutil
            shutil.copy(src, dst)
        cmd = ["cargo", "build", "--offline", "--bin", "lv_" + cluster]
        if profile == "release":
            cmd.append("--release")
        rc, out = run(cmd, cwd=HARNESS, timeout=3000,
                      env={"CARGO_TARGET_DIR": TARGET, "CARGO_NET_OFFLINE": "true"})
        return rc == 0, out[-6000:]


def harness_exe(cluster, profile="dev"):
    return os.path.join(TARGET, "release" if profile == "release" else "debug", "lv_" + cluster)


def harness_run(cluster, suite, seed, tier, out_path, profile="dev", extra=(), timeout=1500):
    os.makedirs(os.path.dirname(out_path), exist_ok=True)
    if os.path.exists(out_path):
        os.remove(out_path)
    cmd = [harness_exe(cluster, profile), "run", suite, "--seed", str(seed), "--tier", tier, "--out", out_path] + list(extra)
    rc, out = run(cmd, cwd=VERIF, timeout=timeout, env={"RUST_BACKTRACE": "0", "RUST_LOG": "off"})
    return rc, out[-4000:]


def read_jsonl(path):
    rows = []
    if not os.path.exists(path):
        return rows
    with open(path) as f:
        for line in f:
            line = line.strip()
            if line:
                try:
                    rows.append(json.loads(line))
                except ValueError:
                    # a suite killed by its timeout may leave a truncated last line
                    rows.append({"suite": "?", "class": "truncated-output", "input": "", "model": None, "impl": None,
                                 "oracle": None, "nontrivial": False})
    return rows


# ------------------------------------------------------------------------------------------------
# Findings and evidence
# ------------------------------------------------------------------------------------------------

def load_known(pid):
    """known_findings.json (orchestrator) + known_findings.d/*.json (per cluster); read-only at run time"""
    entries = []
    paths = [os.path.join(VERIF, "known_findings.json")]
    d = os.path.join(VERIF, "known_findings.d")
    if os.path.isdir(d):
        paths += [os.path.join(d, f) for f in sorted(os.listdir(d)) if f.endswith(".json")]
    for p in paths:
        if os.path.exists(p):
            entries += json.load(open(p)).get("findings", [])
    return [e for e in entries if e.get("property") == pid and e.get("status") == "known"]


def match_known(known, viol):
    sig = viol.get("signature", "")
    cls = viol.get("class", "")
    for e in known:
        m = e.get("match", {})
        if "signature" in m and not re.search(m["signature"], sig):
            continue
        if "class" in m and not re.search(m["class"], cls):
            continue
        if "suite" in m and m["suite"] != viol.get("suite"):
            continue
        return e
    return None


class Check:
    """Accumulates the result of one property check and writes evidence."""

    def __init__(self, pid, tier, seed):
        self.pid, self.tier, self.seed = pid, tier, seed
        self.t0 = time.time()
        self.obligations = []
        self.coq_ok = True
        self.coq_log = ""
        self.evaluations = 0
        self.distinct = set()
        self.samples = []
        self.distribution = {}
        self.violations = []       # dicts: suite, class, signature, input, expected, observed, kind
        self.broken = []           # names of theorems / correspondence suites that no longer check
        self.notes = []
        self.rule = ""
        self.trusted_base = []
        self.assumptions = []
        self.checker_cmd = ""
        self.extra = {}

    def add_case(self, suite, cls, inp, nontrivial=True, sample=None):
        self.evaluations += 1
        key = hashlib.sha1((suite + "\0" + inp).encode()).hexdigest()
        if nontrivial:
            self.distinct.add(key)
        d = self.distribution.setdefault(suite, {})
        d[cls] = d.get(cls, 0) + 1
        if sample is not None and sum(1 for s in self.samples if s.get("suite") == suite) < 2:
            self.samples.append(sample)

    def finish(self):
        known = load_known(self.pid)
        os.makedirs(os.path.join(EVID, "replay"), exist_ok=True)
        for f in os.listdir(os.path.join(EVID, "replay")):       # no stale replays from earlier runs
            if re.fullmatch(re.escape(self.pid) + r"-\d+\.json", f):
                os.remove(os.path.join(EVID, "replay", f))
        known_hit = {}
        real = []
        for v in self.violations:
            e = match_known(known, v)
            if e is not None:
                known_hit.setdefault(e["id"], (e, 0))
                known_hit[e["id"]] = (e, known_hit[e["id"]][1] + 1)
            else:
                real.append(v)
        for fid, (e, n) in sorted(known_hit.items()):
            log("KNOWN-FINDING: property=%s %s: %s (%d case(s) this run)" % (self.pid, fid, e["what"], n))
        lines = []
        # group real violations by signature: one replay file per signature (first = smallest input)
        bysig = {}
        for v in real:
            bysig.setdefault(v.get("signature", "?"), []).append(v)
        k = 0
        for sig, vs in sorted(bysig.items()):
            vs.sort(key=lambda v: len(v.get("input", "")))
            k += 1
            path = os.path.join(EVID, "replay", "%s-%d.json" % (self.pid, k))
            rep = dict(vs[0])
            rep["property"] = self.pid
            rep["cases_with_this_signature"] = len(vs)
            rep["replay_cmd"] = "./check %s --replay %s" % (self.pid, path)
            json.dump(rep, open(path, "w"), indent=1)
            lines.append("VIOLATION property=%s replay=%s" % (self.pid, path))
        if self.broken and not real:
            # a proof obligation or a correspondence no longer checks, and the search found no
            # failing input of the property itself
            k += 1
            path = os.path.join(EVID, "replay", "%s-%d.json" % (self.pid, k))
            json.dump({"property": self.pid, "no_longer_checks": self.broken, "coq_log": self.coq_log[-3000:],
                       "notes": self.notes}, open(path, "w"), indent=1)
            lines.append("VIOLATION property=%s replay=%s no-failing-input-found" % (self.pid, path))
        discharged = sum(1 for o in self.obligations if o["status"] in ("closed", "allowed-axioms"))
        ev = {
            "property_id": self.pid,
            "tier": self.tier,
            "seed": self.seed,
            "level": "proof",
            "coverage": {
                "obligations": len(self.obligations),
                "discharged": discharged,
                "checker_cmd": self.checker_cmd or
                ("cd coq && make theories/Props/%s.vo && coqc Audit_%s.v (Print Assumptions per theorem)" % (self.pid, self.pid)),
                "trusted_base": self.trusted_base,
                "theorems": self.obligations,
                "evaluations": self.evaluations,
                "distinct_nontrivial": len(self.distinct),
                "rule": self.rule,
                "samples": self.samples[:8],
                "distribution": self.distribution,
                "correspondence_broken": self.broken,
                "known_findings_hit": {fid: n for fid, (e, n) in known_hit.items()},
                "exhaustive": False,
            },
            "assumptions": self.assumptions,
            "wall_s": round(time.time() - self.t0, 2),
            "violations": len(lines),
        }
        ev["coverage"].update(self.extra)
        os.makedirs(EVID, exist_ok=True)
        json.dump(ev, open(os.path.join(EVID, self.pid + ".json"), "w"), indent=1)
        for l in lines:
            log(l)
        log("[%s] tier=%s seed=%d obligations=%d/%d evaluations=%d distinct_nontrivial=%d violations=%d wall=%.1fs" % (
            self.pid, self.tier, self.seed, discharged, len(self.obligations), self.evaluations,
            len(self.distinct), len(lines), time.time() - self.t0))
        return 1 if lines else 0


def signature_of(text):
    """Normalise a panic / error message into a bucket signature: digits and quoted payloads removed."""
    t = re.sub(r"0x[0-9a-fA-F]+", "#", text)
    t = re.sub(r"-?\d+", "#", t)
    t = re.sub(r"\"[^\"]*\"", "\"…\"", t)
    return t[:200]


def correspond(chk, cluster, suite_rows, label):
    """suite_rows: rows from the harness JSONL.  Feeds model cases to lvmodel, diffs, records
    oracle verdicts.  Returns number of disagreements."""
    pairs = [(r["model"], r["input"]) for r in suite_rows if r.get("model")]
    outs = model_eval(cluster, pairs)
    it = iter(outs)
    disagreements = 0
    for r in suite_rows:
        sample = {"suite": r["suite"], "class": r.get("class", ""), "input": r["input"][:600],
                  "impl": (r.get("impl") or "")[:300]}
        chk.add_case(r["suite"], r.get("class", ""), r["input"], r.get("nontrivial", True), sample)
        if r.get("oracle"):
            chk.violations.append({
                "kind": "property-oracle", "suite": r["suite"], "class": r.get("class", ""),
                "signature": r.get("signature") or signature_of(r["oracle"]),
                "input": r["input"], "observed": r.get("impl"), "why": r["oracle"],
                "cluster": cluster, "replay_input": r.get("case_input") or r["input"]})
        if r.get("model"):
            mo = next(it)
            if mo != r.get("impl"):
                disagreements += 1
                if label not in chk.broken:
                    chk.broken.append(label)
                chk.notes.append({"suite": r["suite"], "class": r.get("class", ""), "input": r["input"][:2000],
                                  "impl": (r.get("impl") or "")[:2000], "model": mo[:2000]})
    return disagreements
