#!/usr/bin/env python3
"""Compose seeded/<id>/<n>/meta.json from the seeding agent's meta, the independent confirmation and the check result."""
import json, os, sys
ROOT = os.path.join(os.path.dirname(os.path.dirname(os.path.abspath(__file__))), "seeded")
NOTES = json.load(open(os.path.join(ROOT, "notes.json"))) if os.path.exists(os.path.join(ROOT, "notes.json")) else {}
for pid in sorted(os.listdir(ROOT)):
    d = os.path.join(ROOT, pid)
    if not os.path.isdir(d):
        continue
    for n in sorted(os.listdir(d)):
        s = os.path.join(d, n)
        if not os.path.exists(os.path.join(s, "patch.diff")):
            continue
        seed = json.load(open(os.path.join(s, "meta.seed.json"))) if os.path.exists(os.path.join(s, "meta.seed.json")) else {}
        conf = json.load(open(os.path.join(s, "confirm.json"))) if os.path.exists(os.path.join(s, "confirm.json")) else {}
        res = open(os.path.join(s, "check_result.txt")).read().strip().splitlines() if os.path.exists(os.path.join(s, "check_result.txt")) else []
        detected = any(l.startswith("VIOLATION") for l in res)
        meta = {
            "property": pid,
            "title": seed.get("title"),
            "what_it_breaks": seed.get("what_it_breaks"),
            "needs_to_manifest": seed.get("needs_to_manifest"),
            "files_touched": seed.get("files_touched"),
            "origin": "written by an independent sub-agent that saw only the property text and a scratch worktree of /repo (nothing from /verif)",
            "confirmed_by_orchestrator": conf or "not yet re-run independently",
            "what_was_run": [
                "lib/seedconfirm.sh <seed dir>: clean worktree of /repo HEAD; demo.rs as tests/seed_demo.rs with and without patch.diff; cargo build --features verif; cargo test --workspace with the patch (private network namespace)",
                "lib/seedeval.sh <lane> %s patch.diff: private worktree + private copy of /verif, ./check %s --tier quick" % (pid, pid),
            ],
            "check_result": res,
            "detected_by_check": detected,
            "note": NOTES.get("%s/%s" % (pid, n)),
        }
        json.dump(meta, open(os.path.join(s, "meta.json"), "w"), indent=1)
        print(pid, n, "detected" if detected else "MISSED", "| confirmed" if conf.get("demo_fails_with_patch") and conf.get("demo_passes_without_patch") and conf.get("repo_tests_pass_with_patch") else "| confirmation incomplete: %s" % conf)
