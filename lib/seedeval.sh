#!/bin/bash
# Evaluate a seeded defect against a check WITHOUT touching /repo (other builders compile against it):
#   lib/seedeval.sh <lane> <property-id> <patch.diff> [tier]
# Uses a private copy of /verif and a private worktree of /repo under /tmp/seedeval-<lane>.
set -u
LANE=$1; PID=$2; PATCH=$3; TIER=${4:-quick}
ROOT=/tmp/seedeval-$LANE
mkdir -p $ROOT
if [ ! -d $ROOT/repo ]; then
  git -C /repo worktree add -q --detach $ROOT/repo HEAD || exit 2
fi
git -C $ROOT/repo checkout -q --detach $(git -C /repo rev-parse HEAD) 2>/dev/null
git -C $ROOT/repo checkout -q -- . ; git -C $ROOT/repo clean -fdq -e target
# bring over uncommitted hook edits of the live tree (add-only) so the harness still compiles
git -C /repo diff > $ROOT/live_hooks.diff
if [ -s $ROOT/live_hooks.diff ]; then git -C $ROOT/repo apply $ROOT/live_hooks.diff 2>/dev/null || echo "WARN: live hook diff did not apply"; fi
for f in $(git -C /repo ls-files --others --exclude-standard src); do mkdir -p $ROOT/repo/$(dirname $f); cp /repo/$f $ROOT/repo/$f; done
rsync -a --delete --exclude .cache --exclude .git /verif/ $ROOT/verif/
mkdir -p $ROOT/verif/.cache
if [ ! -d $ROOT/verif/.cache/target ]; then cp -a /verif/.cache/target $ROOT/verif/.cache/target; fi
sed -i "s#path = \"/repo#path = \"$ROOT/repo#g" $ROOT/verif/harness/Cargo.toml
sed -i "s#target-dir = \"/verif/.cache/target\"#target-dir = \"$ROOT/verif/.cache/target\"#" $ROOT/verif/harness/.cargo/config.toml
cp /repo/Cargo.lock $ROOT/verif/harness/Cargo.lock 2>/dev/null
echo "== baseline sanity (no patch) skipped; applying $PATCH"
if ! git -C $ROOT/repo apply $PATCH; then echo "SEEDEVAL: patch does not apply"; exit 3; fi
cd $ROOT/verif
VERIF_REPO=$ROOT/repo timeout 3000 ./check $PID --tier $TIER > $ROOT/out_$PID.txt 2>&1
RC=$?
grep -E "VIOLATION|KNOWN-FINDING|^\[$PID\]" $ROOT/out_$PID.txt | cut -c1-300
echo "SEEDEVAL: exit=$RC"
git -C $ROOT/repo apply -R $PATCH
exit 0
