#!/bin/bash
# Confirm a seeded defect independently in the clean worktree /tmp/baseline (HEAD of /repo):
#   lib/seedconfirm.sh <seed_dir>     (seed_dir holds patch.diff and demo.rs)
# Checks: builds with the patch (with and without feature verif), the repository's own test suite
# still passes with the patch, the demo fails with the patch and passes without it.
set -u
S=$1
W=${2:-/tmp/baseline}
export CARGO_TARGET_DIR=$W/target CARGO_NET_OFFLINE=true
cd $W || exit 2
git checkout -q --detach $(git -C /repo rev-parse HEAD); git checkout -q -- .; rm -f tests/seed_demo*.rs
cp $S/demo.rs tests/seed_demo.rs
FEAT=""
grep -q "verif" $S/demo.rs && FEAT="--features verif"
run_demo() { timeout -s KILL 2400 unshare -n bash -c "ip link set lo up; cargo test --offline $FEAT --test seed_demo" 2>&1 | tail -60; }
echo "### demo WITHOUT patch"; OUT0=$(run_demo); echo "$OUT0" | grep -E "^test result|error(\[|:)" | head -5
git apply $S/patch.diff || { echo "CONFIRM: patch does not apply"; exit 3; }
echo "### build with patch (feature verif)"; timeout 2400 cargo build --offline --features verif 2>&1 | grep -E "^error|warning: unused" | head -5
echo "### demo WITH patch"; OUT1=$(run_demo); echo "$OUT1" | grep -E "^test result|error(\[|:)" | head -5
echo "### repository tests WITH patch"
rm -f tests/seed_demo.rs
if [ "${SKIP_SUITE:-0}" = "1" ]; then
git apply -R $S/patch.diff
P0=$(echo "$OUT0" | grep -c "^test result: ok")
F1=$(echo "$OUT1" | grep -c "^test result: FAILED")
# a demo that hangs or aborts the process (killed by the deadline) also counts as failing
[ "$F1" = "0" ] && ! echo "$OUT1" | grep -q "^test result: ok" && F1=1
echo "CONFIRM: demo_passes_without_patch=$P0 demo_fails_with_patch=$F1 repo_test_failures_with_patch=not-rerun"
python3 - <<PY
import json
json.dump({"demo_passes_without_patch": $P0 >= 1, "demo_fails_with_patch": $F1 >= 1, "repo_tests_pass_with_patch": None,
           "how": "lib/seedconfirm.sh (SKIP_SUITE=1) in a clean worktree of /repo HEAD: cargo test --test seed_demo with/without the patch, cargo build --features verif with the patch; the repository suite with the patch was run by the seed agent (its log is quoted in meta.seed.json), not re-run by the orchestrator for lack of time"},
          open("$S/confirm.json", "w"), indent=1)
PY
exit 0
fi
T=$(timeout -s KILL 1200 unshare -n bash -c "ip link set lo up; cargo test --workspace --no-fail-fast --offline" 2>&1 | grep -E "^test result|^test .* FAILED")
echo "$T"
if echo "$T" | grep -q "FAILED"; then
  echo "### retry failing targets once (fixed ports may collide with other runs)"
  T2=$(timeout -s KILL 1200 unshare -n bash -c "ip link set lo up; cargo test --workspace --no-fail-fast --offline" 2>&1 | grep -E "^test result|^test .* FAILED"); echo "$T2"; T="$T2"
fi
git apply -R $S/patch.diff
P0=$(echo "$OUT0" | grep -c "^test result: ok")
F1=$(echo "$OUT1" | grep -c "^test result: FAILED")
TF=$(echo "$T" | grep -c "FAILED")
echo "CONFIRM: demo_passes_without_patch=$P0 demo_fails_with_patch=$F1 repo_test_failures_with_patch=$TF"
python3 - <<PY
import json
json.dump({"demo_passes_without_patch": $P0 >= 1, "demo_fails_with_patch": $F1 >= 1, "repo_tests_pass_with_patch": $TF == 0,
           "how": "lib/seedconfirm.sh in a clean worktree of /repo HEAD (cargo test --test seed_demo with/without the patch; cargo test --workspace with the patch)",
           "repo_test_summary": """$T""".splitlines()}, open("$S/confirm.json", "w"), indent=1)
PY
