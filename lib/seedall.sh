#!/bin/bash
# lib/seedall.sh <lane> <property-id> <seed root with 1/,2/,3/> [baseline worktree]: confirm + evaluate every seed,
# collect into /verif/seeded/<id>/<n + OFFSET>/ (OFFSET from the environment, default 0; round 2 uses OFFSET=3)
LANE=$1; PID=$2; ROOT=$3
for n in 1 2 3; do
  S=$ROOT/$n
  [ -f $S/patch.diff ] && [ -f $S/demo.rs ] || continue
  echo "######## $PID seed $n"
  /verif/lib/seedconfirm.sh $S ${4:-/tmp/baseline} > $S/confirm.log 2>&1; tail -1 $S/confirm.log
  /verif/lib/seedeval.sh $LANE $PID $S/patch.diff > $S/eval.log 2>&1; grep -E "VIOLATION|KNOWN|^\[|SEEDEVAL" $S/eval.log | cut -c1-250
  D=/verif/seeded/$PID/$((n + ${OFFSET:-0})); mkdir -p $D
  cp $S/patch.diff $S/demo.rs $D/; [ -f $S/meta.json ] && cp $S/meta.json $D/meta.seed.json
  [ -f $S/confirm.json ] && cp $S/confirm.json $D/
  grep -E "VIOLATION|KNOWN|^\[|SEEDEVAL" $S/eval.log | cut -c1-400 > $D/check_result.txt
  cp /tmp/seedeval-$LANE/verif/evidence/replay/$PID-1.json $D/replay_example.json 2>/dev/null
done
