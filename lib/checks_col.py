"""Checks of the `col` cluster: C01 (ingested values come back unchanged from a plain SELECT)."""
from props import standard_check


def check_C01(tier, seed):
    return standard_check(
        "C01", tier, seed, "col", ["c01_colbuf", "c01_api"],
        trusted=[],
        assumptions=[],
        rule="")


CHECKS = {
    "C01": check_C01,
}

CLAIMED = {
    "C01": dict(
        text="(in progress)",
        note="",
        technique="Coq proof of encoder/decoder round trips over an executable model + column-structure and API differential",
        design_ref="5/C01"),
}
