"""Checks of the `col` cluster: C01 (ingested values come back unchanged from a plain SELECT)."""
from props import standard_check


def check_C01(tier, seed):
    return standard_check(
        "C01", tier, seed, "col", ["c01_colbuf", "c01_api", "c01_csv"],
        trusted=[
            "lz4_flex / pco (generic compression of data section 0) are not modelled: the column-level suite compares the "
            "column after Column::lz4_or_pco_decode (the real round trip is exercised, not proved); the f64 -> f32 -> f64 "
            "exactness test of pco's fp32 path is likewise only exercised",
            "f64 Display (`to_string`) is a section variable of the model (only its output length < 2^24 is assumed); the "
            "harness hands the model the strings Rust produces",
            "the query engine between Codec::decode and the result rows (planner, streaming operators, materialisation to "
            "RawVal / BasicTypeColumn) is not modelled: it is reached by both suites and compared cell by cell",
            "capnp (EventBuffer::serialize/deserialize) is external: the wire variant of the API suite exercises it",
        ],
        assumptions=[
            "value domain: i64 without i64::MAX, f64 patterns without 0x7ffaaaaaaaaaaaaa (the engine's NULL markers)",
            "strings shorter than 2^24 bytes and dictionaries smaller than 2^40 bytes (IndexedPackedStrings packs offset<<24|len)",
            "ingestion pushes only (ColumnBuffer::push_* with present = None); the caller-supplied null map of compaction is C07",
        ],
        rule="c01_colbuf: seeded generator over 14 integer classes (width edges with/without offset, negative, i64 extremes, "
             "monotone runs around the 90% delta threshold, the former F10/F19 shapes), 8 float classes, 16 string classes (254/255/256/510/765 "
             "bytes, unicode, hex around the >5 threshold, dictionary cardinality around len/2 and 254..257, and 65535..65537 oracle-only), mixed-type buffers, "
             "8 null patterns, lengths around 8/64/128 multiples and around 1024/2048, 3 push styles (runs, split runs, one push per value with "
             "push_nulls(gap)), 6 batch sizes; c01_api: 1-4 columns x 1-3 table buffers x 1-3 batches, ColumnData "
             "dense/sparse/i64/sparse-i64/string (also shorter than the batch)/mixed/empty built by TableBuffer::new or push_row_and_timestamp, table buffers without rows, native or "
             "serialize->deserialize, memory-only or on disk with force_flush, mem_lz4 on/off, row and column format; "
             "c01_csv: typed tables rendered to CSV text (ints, floats via Debug, non-numeric strings, empty = NULL), "
             "load_csv with allow_nulls_all_columns and partition sizes below / at / above the row count (oracle only). "
             "A case is non-trivial when the column has a NULL or two different adjacent cells; distinct by hash of the input")


CHECKS = {
    "C01": check_C01,
}

CLAIMED = {
    "C01": dict(
        text="Machine-checked proof (Coq 8.16, closed under the global context) over an executable model transcribed from "
             "column_buffer.rs / integers.rs / floats.rs / strings.rs / stringpack.rs / bitvec.rs / codec.rs: for EVERY "
             "sequence of ingestion pushes into a column buffer, the cells the query-path decode program reads from the "
             "finished column equal the supplied cells with NULLs in place and the documented int+float->float / "
             "anything+string->string degradation (C01_roundtrip, by a refinement invariant over the push state machine, "
             "incl. the byte-level null bitmap: C01_bitmap); per-type theorems: integer encode->decode for every rung of the "
             "width/offset ladder, delta and plain, nullable or not, with overflow-freedom of the decoder and of the encoder up to one "
             "practically unreachable corner (see below); strings for all byte strings < 2^24 in the packed, hex-packed and dictionary layouts plus "
             "totality of the string writer; floats bit-exact. Model and theorems follow /repo 4a8ac11: the three witnesses "
             "(F4, F10, F19) that refuted the statement on the earlier code are now positive examples, and the only guard "
             "left in C01_roundtrip is the range-metadata subtraction of a delta-coded column whose maximum lies within 2^32 "
             "of i64::MAX. The model is tied to the Rust "
             "code on every run by a column-structure differential (codec ops, section payloads, range) and by an API-level "
             "oracle + differential through LocustDB::ingest_efficient and SELECT (rows and columns, memory and disk).",
        note="Proved about the model: write path + decode program semantics. Only covered by correspondence: the query "
             "engine's execution of that program (streaming, materialisation), from_column_data/push_typed_cols glue at table "
             "level (modelled, executed, not the subject of a theorem), lz4/pco/capnp round trips, CSV type inference (oracle only, not modelled). "
             "Trusted: Coq kernel, extraction, OCaml/Rust glue, f64 Display.",
        technique="Coq proof (refinement invariant + codec round trips) over an executable model + column-structure and API differential",
        design_ref="5/C01"),
}
