"""Checks of the `wire` cluster: C16 (client/server encodings)."""
from props import standard_check

def check_C16(tier, seed):
    return standard_check(
        "C16", tier, seed, "wire", ["c16_xor", "c16_int", "c16_rows"],
        trusted=["bitbuffer 0.10 LittleEndian bit order and write_int truncation (modelled as bits_of); capnp packing not modelled (bytes compared before/after it)"],
        assumptions=["floats are their 64-bit patterns", "sequence length < 2^64"],
        rule="seeded generator over 9 float-sequence classes x mantissa None/0..52 x 8 max_regret values x optional truncation; "
             "a case is non-trivial when the sequence has >= 2 values; distinct by hash of the s-expression input")


CHECKS = {
    "C16": check_C16,
}

CLAIMED = {
    "C16": dict(
        text="Machine-checked proof (Coq 8.16) that the XOR float coder model round-trips every list of 64-bit patterns "
             "bit-exactly for every max_regret, that the encoder cannot panic below max_regret = u32::MAX-62, and that a "
             "reduced mantissa keeps sign, exponent and the requested leading mantissa bits; the model is tied to the Rust "
             "coder by a byte-level differential (encoded bytes and decoded values) on every run.",
        note="Trusted: Coq kernel, extraction (ExtrOcamlBasic), OCaml/Rust glue, bitbuffer bit order as modelled; capnp packing "
             "is not modelled.",
        technique="Coq proof of codec round-trip over an executable model + byte-level differential correspondence",
        design_ref="5/C16"),
}


