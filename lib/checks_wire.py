"""Checks of the `wire` cluster: C16 (client/server encodings)."""
from props import standard_check

def check_C16(tier, seed):
    return standard_check(
        "C16", tier, seed, "wire", ["c16_xor", "c16_int", "c16_rows", "c16_event_ser", "c16_event_de"],
        trusted=["bitbuffer 0.10 LittleEndian bit order and write_int truncation (modelled as bits_of); capnp packing not modelled (fields compared on either side of it); the event-buffer message is modelled at capnp field level (Model/EventWire.v)"],
        assumptions=["floats are their 64-bit patterns", "sequence length < 2^64"],
        rule="seeded generator over 9 float-sequence classes x mantissa None/0..52 x 8 max_regret values x optional truncation; "
             "a case is non-trivial when the sequence has >= 2 values; distinct by hash of the s-expression input; integer columns over 12 classes around the i8/i16/i32 delta edges; "
             "row histories with late starts, gaps and int/float mixing; event buffers of 0-3 tables over all 7 column representations and hand-built messages (regular, ragged sparse lists, repeated names)")


def check_C17(tier, seed):
    import sys, os
    sys.path.insert(0, os.path.join(os.path.dirname(os.path.abspath(__file__)), "..", "translators"))
    import server_map
    import driver as D

    def t6():
        server_map.generate(D.REPO, os.path.join(D.COQ, "theories", "Gen", "ServerMap.v"))
    t6.__name__ = "T6 server_map (errors.rs, server/mod.rs)"
    return standard_check(
        "C17", tier, seed, "wire", ["c17_encode", "c17_status", "c17_http"], translators=[t6],
        trusted=["actix-web, tokio, reqwest, serde_json, capnp (runtime; exercised over loopback only)",
                 "translator T6 (translators/server_map.py): QueryError variants, map_err_response arms, query-endpoint handlers"],
        assumptions=["the reserved NaN 0x7ffaaaaaaaaaaaaa is not a data value", "JSON cannot carry non-finite floats (excepted by the property)"],
        rule="encode_column: all column kinds, all 15 type signatures of Mixed columns, xor on/off, mantissa None/0..52; status: every QueryError variant; "
             "http: seeded sessions of 6-14 interleaved inserts and queries (8 succeeding, 8 failing query shapes) against /query, /query_cols, /multi_query_cols "
             "(JSON, binary, binary+xor, binary+xor+mantissa) compared with the embedded API on an independent database fed the same batches")


CHECKS = {
    "C16": check_C16,
    "C17": check_C17,
}

CLAIMED = {
    "C17": dict(
        text="Machine-checked proof (Coq) that the response encoder (encode_column: all five column kinds, every type signature of a Mixed column, with and "
             "without XOR float compression / reduced mantissa) delivers to the client exactly the embedded result's cells (floats: on all bits the mantissa keeps), "
             "and — over tables REGENERATED from the source on every run — that every QueryError maps to a 4xx/5xx status and that every query endpoint routes errors "
             "through that mapping. Tied to the code by a direct differential of encode_column and map_err_response and by loopback HTTP sessions compared with the "
             "embedded API (JSON and binary encodings, interleaved inserts and queries, failing queries, server still answering afterwards).",
        note="Partial: actix/tokio/sockets, JSON rendering by serde_json and request plumbing are runtime behaviour reached only by the loopback sessions. "
             "Trusted: Coq kernel, extraction, translator T6, harness glue.",
        technique="Coq proof over encoder model + regenerated error/handler tables + loopback HTTP differential",
        design_ref="5/C17"),
    "C16": dict(
        text="Machine-checked proof (Coq 8.16) that (a) the XOR float coder model round-trips every list of 64-bit patterns "
             "bit-exactly for every max_regret, cannot panic below max_regret = u32::MAX-62, and with a reduced mantissa keeps sign, "
             "exponent and the requested leading mantissa bits; (b) integer response columns decode to themselves through whichever of the "
             "eight layouts the encoder picks, with no failing narrowing; (c) the client row API denotes, after ANY accepted sequence of rows, "
             "exactly the pushed cells row for row (int+float degradation only), and rejects exactly the stated pushes; (d) the binary "
             "event-buffer message, modelled at capnp field level, is lossless for every column representation and every buffer with distinct "
             "table / column names, with the reader's treatment of ragged sparse lists and repeated names specified. Each model is tied to the "
             "Rust code on every run: byte-level differential for the XOR coder, value differentials for the integer codec and the row API, and for "
             "the message both directions (the real writer's bytes taken apart field by field; hand-built messages through the real reader).",
        note="Trusted: Coq kernel, extraction (ExtrOcamlBasic), OCaml/Rust glue, bitbuffer bit order as modelled; capnp's packed byte encoding "
             "is not modelled (fields are compared on either side of it).",
        technique="Coq proof of codec round-trip over an executable model + byte-level differential correspondence",
        design_ref="5/C16"),
}


