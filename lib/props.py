"""Per-property check definitions."""
import json
import os
import sys

import driver as D

BASE_TRUSTED = [
    "Coq 8.16.1 kernel (coqc); vm_compute inside proofs only for closed finite computations; no native_compute",
    "extraction to OCaml with ExtrOcamlBasic only (no Extract Constant; Extract Inductive limited to bool/option/unit/list/prod/sumbool/comparison as declared by ExtrOcamlBasic); N/Z/positive/nat stay inductive",
    "ocaml/lvmodel.ml + conv.ml + sx.ml: parsing/printing glue between harness cases and the extracted model (Zarith for decimal <-> positive)",
    "harness/ (Rust): generators, canonicalisation of implementation outputs, property oracles; /repo built with cargo feature `verif` (add-only re-exports and callbacks)",
    "hand-written Model/*.v are transcriptions of the Rust they name; tied to the code only by the correspondence run of this check (differential testing, bounded by its generators)",
]


def suite_file(pid, suite):
    return os.path.join(D.EVID, "tmp", pid, suite + ".jsonl")


def run_suites(chk, pid, cluster, suites, tier, seed, label=None, profile="dev", timeout=1500):
    """Run harness suites and correspond them with the model. Returns total disagreements."""
    total = 0
    for s in suites:
        path = suite_file(pid, s)
        rc, out = D.harness_run(cluster, s, seed, tier, path, profile=profile, timeout=timeout)
        rows = D.read_jsonl(path)
        if rc != 0:
            chk.broken.append("harness suite %s exited %d" % (s, rc))
            chk.notes.append({"suite": s, "harness_output": out[-2000:]})
        for r in rows:
            r["cluster"] = cluster
        total += D.correspond(chk, cluster, rows, "correspondence:" + s)
    return total


def standard_check(pid, tier, seed, cluster, suites, translators=(), trusted=(), assumptions=(), rule="",
                   search_suites=None):
    chk = D.Check(pid, tier, seed)
    chk.trusted_base = BASE_TRUSTED + list(trusted)
    chk.assumptions = list(assumptions)
    chk.rule = rule
    coq = D.coq_build(pid, translators)
    chk.obligations = coq["obligations"]
    chk.coq_log = coq["log"]
    if not coq["ok"]:
        chk.broken += ["theorem:" + o["name"] for o in coq["obligations"] if o["status"] not in ("closed", "allowed-axioms")]
        chk.broken += ["translator:" + e for e in coq.get("translator_errors", [])]
        chk.broken += ["forbidden:" + e for e in coq.get("forbidden", [])]
        if not chk.broken:
            chk.broken.append("coq build failed")
        D.log(coq["log"][-3000:])
    ok, out = D.model_build(cluster)
    if not ok:
        chk.broken.append("model build (extraction/ocaml) failed")
        chk.notes.append({"model_build": out})
        D.log(out)
    ok, out = D.harness_build(cluster)
    if not ok:
        chk.broken.append("harness build failed against the current /repo tree")
        chk.notes.append({"harness_build": out})
        D.log(out)
        return chk.finish()
    dis = run_suites(chk, pid, cluster, suites, tier, seed)
    if tier == "thorough":
        ok, out = D.harness_build(cluster, "release")
        if ok:
            dis += run_suites(chk, pid, cluster, suites, tier, seed + 1, profile="release")
        rc, out = D.coqchk(pid)
        chk.extra["coqchk"] = out[-1500:]
        if rc != 0:
            chk.broken.append("coqchk failed")
    if chk.broken and not chk.violations:
        # failing-input search: the property oracles over a larger, differently seeded budget
        for k in range(3):
            run_suites(chk, pid, cluster, search_suites or suites, "thorough" if k else tier, seed + 1000 + k)
            if chk.violations:
                break
    return chk.finish()


# ------------------------------------------------------------------------------------------------
# Per-cluster check modules lib/checks_<cluster>.py are discovered here. Each exports
#   CHECKS  = {"C16": fn(tier, seed) -> exit code}
#   CLAIMED = {"C16": {text, note, technique, design_ref}}      (used by manifest_gen.py)

def load_clusters():
    import importlib
    checks, claimed = {}, {}
    here = os.path.dirname(os.path.abspath(__file__))
    for f in sorted(os.listdir(here)):
        if f.startswith("checks_") and f.endswith(".py"):
            m = importlib.import_module(f[:-3])
            checks.update(getattr(m, "CHECKS", {}))
            claimed.update(getattr(m, "CLAIMED", {}))
    return checks, claimed


def replay(pid, path):
    rep = json.load(open(path))
    if "suite" not in rep or "replay_input" not in rep:
        D.log("replay file names no concrete input: %s" % json.dumps(rep.get("no_longer_checks")))
        return 1
    cluster = rep.get("cluster", "wire")
    ok, out = D.harness_build(cluster)
    if not ok:
        D.log(out)
        return 1
    rc, out = D.run([D.harness_exe(cluster), "replay", rep["suite"], "--input", rep["replay_input"]], cwd=D.VERIF)
    D.log(out)
    bad = any(json.loads(l).get("oracle") for l in out.splitlines() if l.startswith("{"))
    if bad:
        D.log("VIOLATION property=%s replay=%s" % (pid, path))
        return 1
    return 0


def main(argv):
    if not argv:
        print(__doc__)
        return 2
    pid = argv[0]
    tier = os.environ.get("VERIF_TIER", "quick")
    seed = int(os.environ.get("VERIF_SEED", "1"))
    if "--tier" in argv:
        tier = argv[argv.index("--tier") + 1]
    if "--seed" in argv:
        seed = int(argv[argv.index("--seed") + 1])
    if "--replay" in argv:
        return replay(pid, argv[argv.index("--replay") + 1])
    checks, _ = load_clusters()
    if pid not in checks:
        print("no check for", pid)
        return 2
    return checks[pid](tier, seed)
