"""Checks of the `files` cluster: C14 (stored files), C15 (naming and routing)."""
from props import standard_check


def check_C14(tier, seed):
    import os
    import sys
    sys.path.insert(0, os.path.join(os.path.dirname(os.path.abspath(__file__)), "..", "translators"))
    import segment_map
    import driver as D

    def t1():
        segment_map.generate(D.REPO, os.path.join(D.COQ, "theories", "Gen", "SegmentMap.v"))
    t1.__name__ = "T1 segment_map (partition_segment.rs, codec.rs)"
    return standard_check(
        "C14", tier, seed, "files", ["c14_envelope", "c14_segments", "c14_catalogue", "c14_catalogue_ser", "c14_catalogue_de", "c14_wal", "c14_open_corrupt"], translators=[t1],
        trusted=["sha2 crate as the digest (supplied to the model as an oracle leaf; theorems quantify over any digest function with 32-byte output)",
                 "capnp packed serialisation is not modelled: partition-segment and WAL-segment round trips are checked by the object-level oracle suites only; the catalogue is modelled at capnp FIELD level (Model/CatalogueCodec.v, v2 compressed legacy fields excluded) and tied by c14_catalogue_ser (real writer's message taken apart field by field) and c14_catalogue_de (hand-built current/v0/v1 messages through the real reader)",
                 "translator T1 (translators/segment_map.py): codec-op / data-section / encoding-type match arms of PartitionSegment::{serialize,deserialize}"],
        assumptions=["bytes are < 256", "payload length <= 2^64 - 49"],
        rule="envelope: for each payload (lengths 0, 1, small, medium, large) EVERY single-bit flip, EVERY truncation length, suffixes of 6 lengths, plus foreign blobs in 4 classes; "
             "objects: seeded columns of 14 codec/data-section shapes, catalogues of 0-4 tables, event buffers over all 7 column representations; "
             "catalogue codec: catalogues with empty / repeated / unordered last columns and a cursor behind the next WAL id; messages in the current, v0, v1 and mixed formats, duplicated (table,id) keys, interned ids outside the string table; "
             "non-trivial = every corruption / object case; distinct by input hash")


def check_C15(tier, seed):
    return standard_check(
        "C15", tier, seed, "files", ["c15_naming", "c15_routing", "c15_api"],
        trusted=["Unicode tables (char::is_alphanumeric, is_lowercase, str::to_lowercase) and sha256 are supplied to the model by the harness as oracle leaves; the theorems quantify over arbitrary tables"],
        assumptions=["column names within one partition are pairwise distinct"],
        rule="table names from a 40-name adversarial pool (dots, slashes, case pairs, non-ASCII, reserved-looking names) plus generated names around the 189/255 length edges; "
             "column-name sets of 0-14 names from a pool with case pairs, digits, non-ASCII, 63/64/65-byte names, size limits 1 byte / small / medium / default, "
             "queries for every stored name and absent names sorting before, between and after; non-trivial = name was modified / more than one file")


CHECKS = {"C14": check_C14, "C15": check_C15}

CLAIMED = {
    "C14": dict(
        text="Machine-checked proof (Coq) over a byte-level model of the versioned, checksummed envelope: load(store p) = p; whatever load accepts is exactly "
             "what store writes for the returned payload (so any bit flip, truncation, extension or foreign blob is rejected unless it is itself a genuine file, "
             "with sha256 collisions as an explicit disjunct; truncations/extensions rejected by a pure length argument); and, over maps REGENERATED from the source on "
             "every run, that the hand-enumerated codec-op, data-section and encoding-type arms of the partition-segment serialiser and deserialiser are mutually inverse "
             "and total; and, over a field-level model of the catalogue codec, that a catalogue reads back exactly (cursor, every partition and sub-partition field, rebuilt index), that the reader's "
             "handling of the older formats yields the greatest listed column name, that its only panic is an interned id outside the string table, and that a later duplicate entry wins. The envelope model is tied to the Rust writer by "
             "an exhaustive corruption sweep (every bit, every truncation) compared case by case with the extracted model; the catalogue model by taking the real writer's message apart field by field and by feeding hand-built messages of every format generation to the real reader; partition segments, catalogues and WAL "
             "segments are round-tripped through the real capnp codecs for every codec-op / data-section / event-buffer arm (oracle, capnp not modelled).",
        note="Trusted: Coq kernel, extraction, harness glue, sha2 and capnp crates. The object-level (capnp) round trips are differential testing, not proof.",
        technique="Coq proof of envelope soundness/completeness + exhaustive corruption-sweep correspondence + object round-trip oracle",
        design_ref="5/C14"),
    "C15": dict(
        text="Machine-checked proof (Coq) over a model of sub-partitioning, file keys, the lower-bound routing map, partition file names and table-directory "
             "sanitising: every column is routed to exactly the file that holds it for every size limit and size oracle; absent names are routed nowhere or to a "
             "file that lacks them; file keys are pairwise distinct up to stated sha256 coincidences; file names determine (id,key); directory names are injective "
             "up to sha256 collisions and are single safe path components of at most 255 bytes. Tied to the Rust functions by differential runs on adversarial names.",
        note="Trusted: Coq kernel, extraction, harness glue; Unicode tables and sha256 enter as parameters (oracle leaves in the tie). The read path after restart "
             "(get_cols / get_or_load) is covered by the API-level suite only.",
        technique="Coq proof of routing/naming invariants over an executable model + differential correspondence",
        design_ref="5/C15"),
}
