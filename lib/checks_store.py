"""Checks of the `store` cluster: the persistence state machine (C07 C08 C09 C13 C18)."""
from props import standard_check

STORE_TRUSTED = [
    "the storage hooks of /repo (feature `verif`): fs_effect / store_event callbacks in FileBlobWriter, MetaStore and "
    "Storage, read-only accessors of InnerLocustDB / Table / LocustDB; the harness reads the durable catalogue with the "
    "crate's own MetaStore::deserialize",
    "history model granularity: one step = one completed API call; a flush running concurrently with ingestion is "
    "linearised at its freeze step as reported by the hooks; hash-map iteration orders are fixed to list order; "
    "sub-partition files are abstracted to one file per partition; rows are association lists column -> cell "
    "(column encodings are the business of C01/C14)",
]


def check_C08(tier, seed):
    return standard_check(
        "C08", tier, seed, "store", ["c08_history"],
        trusted=STORE_TRUSTED,
        assumptions=["clean restarts only (the database is at rest when it is dropped): crashes are C09",
                     "the directory a table name maps to is computed by the harness from the documented rule "
                     "(lower-case, [a-z0-9_.-], no leading '-'/'.', 189 bytes, '-<stem>-<sha256 of the name>' when that "
                     "changed the name), not by the crate; the rule itself is C15's",
                     "the race class lines three client threads up with the sync points of the `verif` feature "
                     "(ingest:begin, ingest:wal_locked, wal_flush:begin); the model stays sequential: the hook events "
                     "give the order in which the ingestions and the freeze took effect"],
        rule="seeded histories of 3..12 operations over {ingest into 1..3 tables, burst of ingests, force_flush, "
             "evict_cache, restart} on an on-disk database, every lifetime in its own process; classes: dense "
             "(no background flush), dense-bgflush (max_wal_files in {0,1,2} / max_wal_size_bytes in {1,300,700}), "
             "dense-recompact (partition_combine_factor 0 only), odd-table-names (three names with one stem after "
             "sanitising: case pairs, '/', ' ', leading '-' / '.', non-ASCII, > 189 bytes; factors 4/999), "
             "ingest-flush-race (a forced flush starts while one ingestion owns the ingestion lock and a second one "
             "may be queued; a case counts only if the line-up was observed); wal-backlog-restart (3..8 requests of very "
             "different sizes with no flush - the first lifetime runs with max_wal_files 1000 - then a restart into "
             "max_wal_files 1 or 2, so that the new lifetime starts over its limit and flushes on its own, then a second "
             "restart; content checked after each); factors {0,1,4,999} in the other "
             "classes, integer columns of 8/16/32-bit width, io_threads and "
             "wal_flush_compaction_threads in {1,4}, max_partition_size_bytes in {1,40,8Mi}; a case is non-trivial "
             "when it contains a flush or a restart; after every step the model must predict table content, both "
             "catalogue listings, partition layout, buffer lengths, column-name sets, durable catalogue entries, "
             "partition files, WAL ids, cursor and accounted WAL size")


HIST_RULE = ("seeded histories of 3..12 operations over {ingest into 1..3 tables, burst of ingests, force_flush, evict_cache, "
             "restart} on an on-disk database, every lifetime in its own process; partition_combine_factor in {0,1,4,999}, "
             "io_threads and wal_flush_compaction_threads in {1,4}, max_partition_size_bytes in {1,40,8Mi}; a case is "
             "non-trivial when it contains a flush or a restart; after every step the model must predict table content, both "
             "catalogue listings, partition layout, buffer lengths, column-name sets, durable catalogue entries, partition "
             "files, WAL ids, cursor and accounted WAL size; ")


def check_C18(tier, seed):
    return standard_check(
        "C18", tier, seed, "store", ["c18_history"],
        trusted=STORE_TRUSTED,
        assumptions=["no crash between the effects of a flush (C09)",
                     "table directories are computed by the harness from the documented sanitising rule (C15)",
                     "liveness of the background trigger is fairness-conditional: the model says the trigger condition "
                     "holds whenever ingestion is blocked; that the blocked call then returns is observed by the harness "
                     "under a deadline"],
        rule=HIST_RULE + "classes: cycles (ingest/flush cycles), cycles-bgflush (max_wal_files in {0,1,2}, "
             "max_wal_size_bytes in {1,300,700}: ingestion blocks until the background flush ran), odd-table-names (table "
             "names the storage layer sanitises, three with one stem), odd-table-names-compacting (dissimilar such "
             "names, io_threads 4, factor 1, all tables created by the first request so that _meta_tables is never "
             "compacted - F28 - while the others are: merged-away files of sanitised directories must disappear); "
             "max_wal_size_bytes also 0 and, in every fourth bgflush history, exactly the size of the first segment "
             "(measured on a scratch database): an ingestion that never returns is a violation (90 s deadline); "
             "oracle without model: "
             "after every step the directory holds exactly the catalogue file, the partition files the durable catalogue "
             "names and the log segments from the cursor on; after a completed flush no segment and wal_size = 0")


def check_C07(tier, seed):
    return standard_check(
        "C07", tier, seed, "store", ["c07_history"],
        trusted=STORE_TRUSTED,
        assumptions=["the column-level rebuild (column::decode + ColumnBuffer::push_* + finalize) is abstracted to: columns "
                     "outside Table.column_names are dropped, NULL cells of a partially-NULL column are lost (F1); the "
                     "byte-level encoders are C01's"],
        rule=HIST_RULE + "classes: dense, absent-columns (column sets change at partition boundaries; F1 once a merged "
             "partition has a partially-NULL column), nulls-no-compaction, nulls-compaction (F1), absent-columns-blind (restart, batch without a column, "
             "compacting flush with no query in between, content read afterwards), dense-gap-nullable (three flushed "
             "partitions of one table in which a float column is dense, then absent for 8/16/24 rows, then NULL in "
             "every 2nd or 3rd row; factor 2 merges them at the third flush; the model's F1 guard stops there, the "
             "code preserves the content - which the content oracle requires; the class is outside the F1 matcher), mixed-case-subpartitions (columns "
             "a0 B1 c2 D3 ..., max_partition_size_bytes 10..20: several multi-column files; flush, evict or restart, "
             "read), odd-table-names (sanitised table names, one group of three in three is Events / EVENTS / events; "
             "first request for every table, flush, evict or restart, read), strings (ordinary words; "
             "F28 once a merged packed-string column compresses), hex-strings (F2), compressible-strings (F28), wide-ints "
             "(every factor with restarts; regression class of the fixed F29), the F1 witness and the witness of the fixed "
             "F3; strings occur only in the three string classes, integers of 8/16/32-bit width (a column u of "
             "non-negative values up to 2^32, i.e. u32 storage above 2^31, in the fixed-column classes) and floats "
             "everywhere; "
             "oracle without model: "
             "content after every maintenance step = content before = acknowledged rows; partition ranges tile [0,n)")


def check_C09(tier, seed):
    return standard_check(
        "C09", tier, seed, "store", ["c09_crash"],
        trusted=STORE_TRUSTED + [
            "crash = process death: the harness copies the directory inside the fs_effect callback after every primitive "
            "effect of FileBlobWriter::{store,delete} (effects of other threads wait meanwhile) and truncates freshly "
            "written temp files; reordering of effects by the host file system (power loss) is neither modelled nor tested",
            "the effect model keeps what recovery can tell apart: temp files of partition / catalogue files are never "
            "read, so only their rename is an effect; sync changes nothing a reader sees; that the file renamed into "
            "place holds exactly the bytes of this write (File::create truncates a leftover temp file of the same name) "
            "is not modelled - it is exercised by the continuation probes"],
        assumptions=["workloads are sequential (no ingestion concurrent with the flush)",
                     "the theorems that exclude every failure of recovery are for histories of well-formed requests "
                     "(table names outside the catalogue namespace, C13); for arbitrary histories recovery returns the "
                     "same content or stops at a catalogue look-up of the replay (C09_cuts_any_history)"],
        rule="seeded workloads of 3..6 operations over {ingest into 1..3 tables, force_flush with factor 0/1/4/999, restart}; "
             "every directory copy taken after a primitive effect (deduplicated by names+sizes, capped at 32 per workload in "
             "the quick tier: all cuts of ingestions, an even sample of the others) and 0%/50% truncations of a written log "
             "temp file are opened in a child process under a deadline; required, as in the model: for a cut of an "
             "ingestion exactly the acknowledged content while the segment still has its temporary name and exactly that "
             "plus the in-flight request whole (catalogue included) once it is renamed, for every other cut the "
             "acknowledged content; the recovery must have removed a leftover log temp file; every 4th copy is opened twice, copies taken at the recovery's "
             "own effects (removal of the temp file, of segments below the cursor) are opened once more; continuation "
             "probes, once per workload and kind of leftover: a copy recovered from a cut with a log temp file / from a "
             "cut of a flush gets a request for a new table, a flush and a clean restart; a copy recovered from the "
             "cut that left a completely written catalogue temp file (always kept by the sampling) / a partition temp "
             "file at the LAST flush gets a flush with factor 0 (every table merged: the catalogue file written is "
             "shorter than the leftover) and a clean restart; content must be the recovered content (plus the "
             "request) both times; one workload in eight is three rounds of (request for every table, flush) with "
             "factor 999 (the catalogue grows); the abstracted effect trace of "
             "every operation must equal the model's (store_effects) and partition files / catalogue / removals must be "
             "ordered; non-trivial: the workload produced at least one cut")


def check_C13(tier, seed):
    return standard_check(
        "C13", tier, seed, "store", ["c13_history"],
        trusted=STORE_TRUSTED,
        assumptions=["table directories are computed by the harness from the documented sanitising rule (C15); column names: ASCII, names differing only in case, non-ASCII, "
                     "70 bytes long, sorting before / after all others, _meta_-like",
                     "the hash-map order of the tables inside one event buffer is fixed to: client tables, _meta_tables, "
                     "_meta_columns_* (the model's and the theorems' order)"],
        rule=HIST_RULE + "classes: vary-within (every batch its own column subset, factor 999), vary-within-bgflush, "
             "vary-across (column sets change at partition boundaries, factors 1/4), vary-across-recompact (factor 0; F1 once "
             "a merged partition has a partially-NULL column), long-compressible-names (F28), odd-table-names (table names the storage layer sanitises, three with "
             "one stem), null-first-columns (a column is often all-NULL - ColumnData::Empty - in the batch that "
             "mentions it first; factor 999), mixed-case-subpartitions (eight columns a0 B1 c2 D3 ..., "
             "max_partition_size_bytes 8..40 so that partitions are several multi-column files; first request flushed, "
             "then restart or evict, then read), absent-columns-blind (flushed partitions with a column, then restart, "
             "a batch without it and a compacting flush with NO query in between - nothing resident - and content "
             "read only afterwards and after one more restart), the witness of the fixed F3; oracle "
             "without model: SELECT column_name FROM _meta_columns_<t> = the set of names ever sent to t, each once; "
             "SELECT name FROM _meta_tables = tables and their catalogue tables, each once; SELECT * has the sorted "
             "catalogue as columns and the acknowledged cells (NULL where a batch did not carry the column)")


CHECKS = {
    "C07": check_C07,
    "C13": check_C13,
    "C09": check_C09,
    "C08": check_C08,
    "C18": check_C18,
}

CLAIMED = {
    "C13": dict(
        text="Machine-checked proof (Coq 8.16) over the persistence model, for every history of well-formed requests "
             "interleaved with flushes (any factor / sizes), evictions and restarts: (1) the catalogue of every client table "
             "(SELECT column_name FROM _meta_columns_<t>) is a string column listing exactly the names some request "
             "mentioned for the table, each exactly once (C13_catalogue_exact); (2) whenever the lazily loaded in-memory "
             "name set is present it equals that catalogue and covers every column the table's rows carry "
             "(C13_loaded_names_are_catalogue) - the invariant is re-established segment by segment during WAL replay; "
             "(3) a column a batch did not mention reads NULL for that batch's rows in every reachable state "
             "(C13_missing_is_null); (4) catalogue rows travel in the request's own log segment; (5) compaction of any table "
             "(client table or catalogue table, restored from disk or not) always iterates over every column the merged "
             "rows carry - the guarded run never stops for an incomplete name set, only at the F1 site "
             "(C13_compaction_carries_all, without premise since F3 was fixed by 647a26b); (6) a restart of "
             "any reachable state returns: no catalogue-loading panic during WAL replay (C13_restart_total); (7) SELECT name "
             "FROM _meta_tables lists exactly the tables of the database other than itself, each once (C13_tables_listed). The "
             "witness of the fixed F3 is evaluated in Coq (C13_f3_witness_passes) and replayed on the implementation on "
             "every run. Tied to the code by the history differential with column-set generators and the "
             "catalogue / SELECT * observers.",
        note="All statements of the design are closed; SELECT * column order / expansion is covered by the correspondence run only. Guarded run (stops at the F1 site). The order of tables within one event buffer is fixed in the "
             "model (client tables, _meta_tables, catalogue tables).",
        technique="Coq invariant proof over operation histories (log-level catalogue invariant + replay induction) + "
                  "history correspondence",
        design_ref="5/C13"),
    "C09": dict(
        text="Machine-checked proof (Coq 8.16) over a model of the persistence protocol at the granularity of the primitive "
             "file effects recovery can tell apart (log temp file created / written / renamed / removed, partition file "
             "renamed into place, catalogue file replaced, partition file removed, segment removed), for every history of "
             "well-formed requests: from every prefix of the effects of an ingestion recovery returns a database holding "
             "exactly the acknowledged content while the segment has its temporary name (absent, partial or complete: "
             "Storage::recover does not read it) and exactly that plus the in-flight request, whole across all its tables, "
             "once it is renamed (C09_ingest_cuts); from every prefix of the effects of a flush (any factor, any size "
             "oracle) it returns exactly the acknowledged content (C09_flush_cuts); no cut makes recovery fail "
             "(C09_recoverable); partition files precede the catalogue which precedes removals (C09_order); recovery's own "
             "effects (removal of the temp file, of segments below the cursor) can be cut anywhere without changing what "
             "the next recovery returns, and recovering twice gives the same (C09_idempotent). Tied to the code by the "
             "fs_effect hook: effect-trace conformance per operation and reopening a copy of the directory taken at every "
             "effect in a child process under a deadline.",
        note="Partial w.r.t. the host file system (process death only, no reordering). The earlier findings F8 (incomplete "
             "log temp file: the database could not be opened) and F8b (complete log temp file replayed, next flush "
             "panicked) were fixed by 4e8886f; their refutation theorems are kept as history in comments and their "
             "witness is now C09_f8_witness_recovers.",
        technique="Coq proof over effect prefixes (frame invariants + totality of the replay) + effect-trace "
                  "correspondence + crash-copy reopen",
        design_ref="5/C09"),
    "C18": dict(
        text="Machine-checked proof (Coq 8.16) over the persistence model that after every completed flush of any reachable "
             "state - any compaction factor, any size oracle - no log segment remains, the accounted log size is 0, the "
             "catalogue holds the new cursor and every table directory holds exactly one file per partition the catalogue "
             "lists (no file of a merged-away partition, nothing pending deletion); between flushes the log holds one "
             "segment per ingestion whose sizes add up to the accounted size; a blocked ingestion implies the background "
             "trigger condition and no ingestion is blocked right after a flush; a flush cannot trip over its own "
             "bookkeeping (frozen buffer, missing file/segment on removal, compaction range). Tied to the code by the history "
             "differential including the recursive directory listing after every step.",
        note="Temp files and intermediate directory states are C09. Liveness (the blocked call returns) is observed under a "
             "deadline, not proved.",
        technique="Coq invariant proof over operation histories + history/directory correspondence with hooks",
        design_ref="5/C18"),
    "C07": dict(
        text="Machine-checked proof (Coq 8.16) that in every reachable state of the persistence model partition ranges tile "
             "[0, next_partition_offset) with unique ids, that plan_compaction always selects a non-empty suffix in offset "
             "order, that every maintenance operation (flush with batching and compaction for any factor and size oracle, "
             "eviction, restart) leaves every table's rows, order, cells and columns unchanged, and that a reload reads "
             "exactly the partition's rows; for the faithful model the statement is refuted by the F1 witness (a = [10, NULL], "
             "one flush with factor 0 gives [10, 0]), which is replayed on the implementation.",
        note="Content preservation is proved for the guarded run (compaction stops at the F1 site; the incomplete-name-set "
             "site of the fixed F3 is unreachable, C13). F2 (hex-packed strings: todo!()) and F28 (LZ4-compressed packed "
             "strings) are open defects of the free column::decode found by the correspondence run, not modelled; F29 "
             "(LZ4-compressed u16/u32 integers) was fixed by e838f01.",
        technique="Coq invariant proof over operation histories + refutation witness + history correspondence",
        design_ref="5/C07"),
    "C08": dict(
        text="Machine-checked proof (Coq 8.16) over an executable model of the persistence protocol (ingest with catalogue "
             "rows in the same segment, WAL flush with batching / compaction / catalogue replacement / deletions, restart "
             "with cursor-based segment deletion, contiguity check and replay) that in every state reachable by any history "
             "over {ingest, flush, evict, restart}: rows of the partitions the durable catalogue lists ++ rows of the log "
             "segments at or above the durable cursor = acknowledged log, segment ids form [earliest, next), and a restart "
             "yields exactly the acknowledged log (for client tables: exactly the rows sent, in order, once); the "
             "non-contiguity assertion, missing-file and missing-segment panics are unreachable; the flush of the model "
             "records the segment range in the step that freezes the buffers, and a flush that takes the end of the range "
             "from before an ingestion it then freezes is proved to serve rows twice after a restart "
             "(C08_stale_range_duplicates). The model is tied to the code by a history differential on a real on-disk "
             "database (content, catalogue, layout, directory, cursor), including table names the storage layer has to "
             "sanitise and steps in which two clients and a flush meet at the ingestion lock.",
        note="Proved for the guarded run, which stops at the compaction site of the open finding F1 (null map lost) "
             "instead of executing it. Trusted: Coq kernel, extraction, glue, hooks; "
             "crash behaviour is C09.",
        technique="Coq invariant proof by induction over operation histories + history correspondence with hooks",
        design_ref="5/C08"),
}
