"""Checks of the `store` cluster: the persistence state machine (C07 C08 C09 C13 C18)."""
from props import standard_check

STORE_TRUSTED = [
    "the storage hooks of /repo (feature `verif`): fs_effect / store_event callbacks in FileBlobWriter, MetaStore and "
    "Storage, read-only accessors of InnerLocustDB / Table / LocustDB; the harness reads the durable catalogue with the "
    "crate's own MetaStore::deserialize",
    "history model granularity: one step = one completed API call; a flush running concurrently with ingestion is "
    "linearised at its freeze step as reported by the hooks; hash-map iteration orders are fixed to list order; "
    "sub-partition files are abstracted to one file per partition; rows are association lists column -> cell "
    "(column encodings are the business of C01/C14)",
]


def check_C08(tier, seed):
    return standard_check(
        "C08", tier, seed, "store", ["c08_history"],
        trusted=STORE_TRUSTED,
        assumptions=["clean restarts only (the database is at rest when it is dropped): crashes are C09",
                     "table names of generated histories are file-system safe (naming is C15)"],
        rule="seeded histories of 3..12 operations over {ingest into 1..3 tables, burst of ingests, force_flush, "
             "evict_cache, restart} on an on-disk database, every lifetime in its own process; classes: dense "
             "(no background flush), dense-bgflush (max_wal_files in {0,1,2} / max_wal_size_bytes in {1,300,700}), "
             "dense-recompact (partition_combine_factor 0); factors {0,1,4,999}, io_threads and "
             "wal_flush_compaction_threads in {1,4}, max_partition_size_bytes in {1,40,8Mi}; a case is non-trivial "
             "when it contains a flush or a restart; after every step the model must predict table content, both "
             "catalogue listings, partition layout, buffer lengths, column-name sets, durable catalogue entries, "
             "partition files, WAL ids, cursor and accounted WAL size")


CHECKS = {
    "C08": check_C08,
}

CLAIMED = {
    "C08": dict(
        text="Machine-checked proof (Coq 8.16) over an executable model of the persistence protocol (ingest with catalogue "
             "rows in the same segment, WAL flush with batching / compaction / catalogue replacement / deletions, restart "
             "with cursor-based segment deletion, contiguity check and replay) that in every state reachable by any history "
             "over {ingest, flush, evict, restart}: rows of the partitions the durable catalogue lists ++ rows of the log "
             "segments at or above the durable cursor = acknowledged log, segment ids form [earliest, next), and a restart "
             "yields exactly the acknowledged log (for client tables: exactly the rows sent, in order, once); the "
             "non-contiguity assertion, missing-file and missing-segment panics are unreachable. The model is tied to the "
             "code by a history differential on a real on-disk database (content, catalogue, layout, directory, cursor).",
        note="Proved for the guarded run, which stops at the compaction sites of findings F1 (null map lost) and F3 "
             "(misspelt catalogue column) instead of executing them. Trusted: Coq kernel, extraction, glue, hooks; "
             "crash behaviour is C09.",
        technique="Coq invariant proof by induction over operation histories + history correspondence with hooks",
        design_ref="5/C08"),
}
