"""Checks of the `store` cluster: the persistence state machine (C07 C08 C09 C13 C18)."""
from props import standard_check

STORE_TRUSTED = [
    "the storage hooks of /repo (feature `verif`): fs_effect / store_event callbacks in FileBlobWriter, MetaStore and "
    "Storage, read-only accessors of InnerLocustDB / Table / LocustDB; the harness reads the durable catalogue with the "
    "crate's own MetaStore::deserialize",
    "history model granularity: one step = one completed API call; a flush running concurrently with ingestion is "
    "linearised at its freeze step as reported by the hooks; hash-map iteration orders are fixed to list order; "
    "sub-partition files are abstracted to one file per partition; rows are association lists column -> cell "
    "(column encodings are the business of C01/C14)",
]


def check_C08(tier, seed):
    return standard_check(
        "C08", tier, seed, "store", ["c08_history"],
        trusted=STORE_TRUSTED,
        assumptions=["clean restarts only (the database is at rest when it is dropped): crashes are C09",
                     "table names of generated histories are file-system safe (naming is C15)"],
        rule="seeded histories of 3..12 operations over {ingest into 1..3 tables, burst of ingests, force_flush, "
             "evict_cache, restart} on an on-disk database, every lifetime in its own process; classes: dense "
             "(no background flush), dense-bgflush (max_wal_files in {0,1,2} / max_wal_size_bytes in {1,300,700}), "
             "dense-recompact (partition_combine_factor 0); factors {0,1,4,999}, io_threads and "
             "wal_flush_compaction_threads in {1,4}, max_partition_size_bytes in {1,40,8Mi}; a case is non-trivial "
             "when it contains a flush or a restart; after every step the model must predict table content, both "
             "catalogue listings, partition layout, buffer lengths, column-name sets, durable catalogue entries, "
             "partition files, WAL ids, cursor and accounted WAL size")


HIST_RULE = ("seeded histories of 3..12 operations over {ingest into 1..3 tables, burst of ingests, force_flush, evict_cache, "
             "restart} on an on-disk database, every lifetime in its own process; partition_combine_factor in {0,1,4,999}, "
             "io_threads and wal_flush_compaction_threads in {1,4}, max_partition_size_bytes in {1,40,8Mi}; a case is "
             "non-trivial when it contains a flush or a restart; after every step the model must predict table content, both "
             "catalogue listings, partition layout, buffer lengths, column-name sets, durable catalogue entries, partition "
             "files, WAL ids, cursor and accounted WAL size; ")


def check_C18(tier, seed):
    return standard_check(
        "C18", tier, seed, "store", ["c18_history"],
        trusted=STORE_TRUSTED,
        assumptions=["no crash between the effects of a flush (C09)", "table names are file-system safe (C15)",
                     "liveness of the background trigger is fairness-conditional: the model says the trigger condition "
                     "holds whenever ingestion is blocked; that the blocked call then returns is observed by the harness "
                     "under a deadline"],
        rule=HIST_RULE + "classes: cycles (ingest/flush cycles), cycles-bgflush (max_wal_files in {0,1,2}, "
             "max_wal_size_bytes in {1,300,700}: ingestion blocks until the background flush ran); oracle without model: "
             "after every step the directory holds exactly the catalogue file, the partition files the durable catalogue "
             "names and the log segments from the cursor on; after a completed flush no segment and wal_size = 0")


def check_C07(tier, seed):
    return standard_check(
        "C07", tier, seed, "store", ["c07_history"],
        trusted=STORE_TRUSTED,
        assumptions=["the column-level rebuild (column::decode + ColumnBuffer::push_* + finalize) is abstracted to: columns "
                     "outside Table.column_names are dropped, NULL cells of a partially-NULL column are lost (F1); the "
                     "byte-level encoders are C01's"],
        rule=HIST_RULE + "classes: dense, absent-columns (column sets change at partition boundaries), nulls-no-compaction, "
             "nulls-compaction (known finding F1), hex-strings (F2), compressible-strings (F28); oracle without model: "
             "content after every maintenance step = content before = acknowledged rows; partition ranges tile [0,n)")


CHECKS = {
    "C07": check_C07,
    "C08": check_C08,
    "C18": check_C18,
}

CLAIMED = {
    "C18": dict(
        text="Machine-checked proof (Coq 8.16) over the persistence model that after every completed flush of any reachable "
             "state - any compaction factor, any size oracle - no log segment remains, the accounted log size is 0, the "
             "catalogue holds the new cursor and every table directory holds exactly one file per partition the catalogue "
             "lists (no file of a merged-away partition, nothing pending deletion); between flushes the log holds one "
             "segment per ingestion whose sizes add up to the accounted size; a blocked ingestion implies the background "
             "trigger condition and no ingestion is blocked right after a flush; a flush cannot trip over its own "
             "bookkeeping (frozen buffer, missing file/segment on removal, compaction range). Tied to the code by the history "
             "differential including the recursive directory listing after every step.",
        note="Temp files and intermediate directory states are C09. Liveness (the blocked call returns) is observed under a "
             "deadline, not proved.",
        technique="Coq invariant proof over operation histories + history/directory correspondence with hooks",
        design_ref="5/C18"),
    "C07": dict(
        text="Machine-checked proof (Coq 8.16) that in every reachable state of the persistence model partition ranges tile "
             "[0, next_partition_offset) with unique ids, that plan_compaction always selects a non-empty suffix in offset "
             "order, that every maintenance operation (flush with batching and compaction for any factor and size oracle, "
             "eviction, restart) leaves every table's rows, order, cells and columns unchanged, and that a reload reads "
             "exactly the partition's rows; for the faithful model the statement is refuted by the F1 witness (a = [10, NULL], "
             "one flush with factor 0 gives [10, 0]), which is replayed on the implementation.",
        note="Content preservation is proved for the guarded run (compaction stops at the F1 / F3 sites). F2 (hex-packed "
             "strings: todo!()) and F28 (LZ4-compressed packed strings) are column-encoding defects found by the "
             "correspondence run, not modelled.",
        technique="Coq invariant proof over operation histories + refutation witness + history correspondence",
        design_ref="5/C07"),
    "C08": dict(
        text="Machine-checked proof (Coq 8.16) over an executable model of the persistence protocol (ingest with catalogue "
             "rows in the same segment, WAL flush with batching / compaction / catalogue replacement / deletions, restart "
             "with cursor-based segment deletion, contiguity check and replay) that in every state reachable by any history "
             "over {ingest, flush, evict, restart}: rows of the partitions the durable catalogue lists ++ rows of the log "
             "segments at or above the durable cursor = acknowledged log, segment ids form [earliest, next), and a restart "
             "yields exactly the acknowledged log (for client tables: exactly the rows sent, in order, once); the "
             "non-contiguity assertion, missing-file and missing-segment panics are unreachable. The model is tied to the "
             "code by a history differential on a real on-disk database (content, catalogue, layout, directory, cursor).",
        note="Proved for the guarded run, which stops at the compaction sites of findings F1 (null map lost) and F3 "
             "(misspelt catalogue column) instead of executing them. Trusted: Coq kernel, extraction, glue, hooks; "
             "crash behaviour is C09.",
        technique="Coq invariant proof by induction over operation histories + history correspondence with hooks",
        design_ref="5/C08"),
}
