#!/bin/bash
# lib/seedsuite.sh <worktree> <seeded dir>... : run the repository's own suite with each seed's patch applied (clean worktree of
# /repo HEAD, private network namespace) and record the outcome in the seed's confirm.json (used when lib/seedconfirm.sh ran with SKIP_SUITE=1)
W=$1; shift
export CARGO_TARGET_DIR=$W/target CARGO_NET_OFFLINE=true
cd $W || exit 2
for S in "$@"; do
  git checkout -q -- .; rm -f tests/seed_demo*.rs
  git apply $S/patch.diff || { echo "$S: patch does not apply"; continue; }
  T=$(timeout -s KILL 1500 unshare -n bash -c "ip link set lo up; cargo test --workspace --no-fail-fast --offline" 2>&1 | grep -E "^test result|^test .* FAILED")
  if echo "$T" | grep -q "FAILED" || ! echo "$T" | grep -q "106 passed"; then
    T=$(timeout -s KILL 1500 unshare -n bash -c "ip link set lo up; cargo test --workspace --no-fail-fast --offline" 2>&1 | grep -E "^test result|^test .* FAILED")
  fi
  git apply -R $S/patch.diff
  TF=$(echo "$T" | grep -c "FAILED"); OK=$(echo "$T" | grep -c "106 passed")
  echo "$S: failures=$TF query_tests_ok=$OK"
  python3 - <<PY
import json
p="$S/confirm.json"
c=json.load(open(p))
c["repo_tests_pass_with_patch"] = ($TF == 0 and $OK >= 1)
c["repo_test_summary"] = """$T""".splitlines()
c["how"] = "lib/seedconfirm.sh (SKIP_SUITE=1): demo with/without the patch and cargo build --features verif in a clean worktree of /repo HEAD; then lib/seedsuite.sh: cargo test --workspace --no-fail-fast with the patch in a clean worktree (private network namespace)"
json.dump(c, open(p, "w"), indent=1)
PY
done
