#!/bin/bash
# Builds the framework from files on disk only (offline): Coq development, extracted OCaml model
# runners, Rust harness binaries (against /repo's current tree with feature `verif`).
set -e
cd "$(dirname "$0")"
export CARGO_NET_OFFLINE=true
mkdir -p .cache evidence
python3 - <<'PY'
import sys, os
sys.path.insert(0, os.path.join(os.getcwd(), "lib"))
import driver as D
D.write_coqproject()
rc, out = D.run(["make", "-k", "-j16"], cwd=D.COQ, timeout=3000)
print(out[-2000:])
if rc != 0:
    print("WARNING: some Coq files did not build; the checks that need them will report it")
for cl in sorted(f[len("Extract_"):-2] for f in os.listdir(os.path.join(D.COQ, "theories", "Extract")) if f.startswith("Extract_")):
    ok, out = D.model_build(cl)
    print("model", cl, ok, out[-500:])
    ok, out = D.harness_build(cl)
    print("harness", cl, ok, out[-500:])
PY
