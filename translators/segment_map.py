"""T1: regenerate coq/theories/Gen/SegmentMap.v from /repo/src/disk_store/partition_segment.rs
(serialize / deserialize match arms for codec ops, data-section kinds and encoding types) and
/repo/src/mem_store/codec.rs (CodecOp definition).  Fails closed on any shape it does not recognise."""
import os
import re


def norm(tag):
    return tag.replace("_", "").lower()


def split_args(s):
    out, depth, cur = [], 0, ""
    for ch in s:
        if ch in "([{":
            depth += 1
        elif ch in ")]}":
            depth -= 1
        if ch == "," and depth == 0:
            out.append(cur.strip())
            cur = ""
        else:
            cur += ch
    if cur.strip():
        out.append(cur.strip())
    return out


def match_block(src, start):
    """text of the {...} block whose '{' is at src[start]"""
    assert src[start] == "{"
    depth, j = 0, start
    while True:
        if src[j] == "{":
            depth += 1
        elif src[j] == "}":
            depth -= 1
            if depth == 0:
                return src[start + 1:j]
        j += 1


def arms_of(block, head_re):
    """split a match body into (head match object, arm text) by arm heads at the block's top level"""
    heads = []
    depth = 0
    for m in re.finditer(head_re, block, re.M):
        # only heads at depth 0 of the block
        pre = block[:m.start()]
        if pre.count("{") - pre.count("}") == 0:
            heads.append(m)
    out = []
    for i, m in enumerate(heads):
        end = heads[i + 1].start() if i + 1 < len(heads) else len(block)
        out.append((m, block[m.end():end]))
    return out


def codec_variants(repo):
    src = open(os.path.join(repo, "src/mem_store/codec.rs")).read()
    m = re.search(r"pub enum CodecOp\s*\{", src)
    if not m:
        raise ValueError("CodecOp enum not found")
    body = re.sub(r"//.*", "", match_block(src, m.end() - 1))
    out = []
    for v in split_args(body):
        vm = re.fullmatch(r"(\w+)(?:\((.*)\))?", v.strip(), re.S)
        if not vm:
            raise ValueError("unrecognised CodecOp variant %r" % v)
        tys = split_args(vm.group(2)) if vm.group(2) else []
        for t in tys:
            if t not in ("EncodingType", "i64", "usize", "bool"):
                raise ValueError("unsupported CodecOp argument type %r" % t)
        out.append((vm.group(1), tys))
    return out


def type_maps(src):
    m = re.search(r"fn encoding_type_to_capnp\([^)]*\)[^{]*\{", src)
    body = match_block(src, m.end() - 1)
    mm = re.search(r"match t\s*\{", body)
    arms = match_block(body, mm.end() - 1)
    ser = []
    for a in split_args(arms):
        am = re.fullmatch(r"EncodingType::(\w+)\s*=>\s*(\w+)", a.strip())
        if am:
            ser.append((am.group(1), am.group(2)))
        elif re.match(r"_\s*=>\s*panic!", a.strip()):
            continue
        else:
            raise ValueError("unrecognised encoding_type_to_capnp arm %r" % a)
    m = re.search(r"fn deserialize_type\([^)]*\)[^{]*\{", src)
    body = match_block(src, m.end() - 1)
    mm = re.search(r"match t\s*\{", body)
    arms = match_block(body, mm.end() - 1)
    de = []
    for a in split_args(arms):
        am = re.fullmatch(r"(\w+)\s*=>\s*EncodingType::(\w+)", a.strip())
        if not am:
            raise ValueError("unrecognised deserialize_type arm %r" % a)
        de.append((am.group(1), am.group(2)))
    return ser, de


def value_of(expr, params):
    """normalise a serialised value expression to (kind, param index)"""
    e = expr.strip()
    if e == "()":
        return ("unit", None)
    tm = re.fullmatch(r"encoding_type_to_capnp\((\w+)\)", e)
    if tm:
        return ("ty", params.index(tm.group(1)))
    vm = re.fullmatch(r"\*?(\w+)(?:\s+as\s+\w+)?", e)
    if vm and vm.group(1) in params:
        return ("val", params.index(vm.group(1)))
    raise ValueError("unrecognised serialised value %r (params %r)" % (expr, params))


def ser_ops(src):
    m = re.search(r"match op\s*\{", src)
    block = match_block(src, m.end() - 1)
    out = {}
    for hm, text in arms_of(block, r"^\s*CodecOp::(\w+)(?:\(([^)]*)\))?\s*=>"):
        name = hm.group(1)
        params = [p.strip() for p in hm.group(2).split(",")] if hm.group(2) else []
        if re.match(r"\s*panic!", text):
            out[name] = None
            continue
        calls = []
        for cm in re.finditer(r"(\w+)\s*\.\s*(set|init)_(\w+)\(", text):
            calls.append((cm.group(1), cm.group(2), cm.group(3), match_paren(text, cm.end() - 1).strip()))
        if not calls or calls[0][0] != "capnp_op":
            raise ValueError("serialize arm for %s does not start with a capnp_op setter: %r" % (name, text[:120]))
        tag = norm(calls[0][2])
        fields = []
        if calls[0][1] == "set":
            fields.append(("", value_of(calls[0][3], params)))
        elif calls[0][3].strip():
            raise ValueError("init_ call with arguments in arm %s" % name)
        for recv, kind, fname, arg in calls[1:]:
            if kind != "set":
                raise ValueError("nested init in arm %s" % name)
            fields.append((norm(fname), value_of(arg, params)))
        used = sorted(v[1] for _, v in fields if v[1] is not None)
        if used != list(range(len(params))):
            raise ValueError("serialize arm for %s does not write every argument exactly once" % name)
        out[name] = (tag, fields)
    return out


def de_ops(src):
    m = re.search(r"match op\.which\(\)\.unwrap\(\)\s*\{", src)
    block = match_block(src, m.end() - 1)
    out = {}
    for hm, text in arms_of(block, r"^\s*(\w+)\((\w+)\)\s*=>"):
        tag, bound = norm(hm.group(1)), hm.group(2)
        cm = re.search(r"CodecOp::(\w+)\s*(\()?", text)
        if not cm:
            raise ValueError("deserialize arm %s builds no CodecOp" % tag)
        args = []
        if cm.group(2):
            inner = match_paren(text, cm.end() - 1)
            for a in split_args(inner):
                is_ty = "deserialize_type(" in a
                gm = re.search(r"\.get_(\w+)\(\)", a)
                if gm:
                    args.append((norm(gm.group(1)), is_ty))
                elif re.search(r"\b%s\b" % re.escape(bound), a):
                    args.append(("", is_ty))
                else:
                    raise ValueError("unrecognised deserialised argument %r in arm %s" % (a, tag))
        out[tag] = (cm.group(1), args)
    return out


def match_paren(src, start):
    assert src[start] == "("
    depth, j = 0, start
    while True:
        if src[j] == "(":
            depth += 1
        elif src[j] == ")":
            depth -= 1
            if depth == 0:
                return src[start + 1:j]
        j += 1


def section_maps(src):
    m = re.search(r"match section\s*\{", src)
    block = match_block(src, m.end() - 1)
    ser = {}
    for hm, text in arms_of(block, r"^\s*DataSection::(\w+)\s*(?:\([^)]*\)|\{[^}]*\})\s*=>"):
        cm = re.search(r"ds\s*\.\s*(?:set|init)_(\w+)\(", text)
        if not cm:
            raise ValueError("section arm %s writes nothing" % hm.group(1))
        ser[hm.group(1)] = norm(cm.group(1))
    m = re.search(r"match d\.which\(\)\.unwrap\(\)\s*\{", src)
    block = match_block(src, m.end() - 1)
    de = {}
    for hm, text in arms_of(block, r"^\s*(\w+)\((\w+)\)\s*=>"):
        cm = re.search(r"DataSection::(\w+)", text)
        if not cm:
            raise ValueError("section arm %s builds nothing" % hm.group(1))
        de[norm(hm.group(1))] = cm.group(1)
    return ser, de


COQ_TY = {"EncodingType": "enc_type", "i64": "Z", "usize": "N", "bool": "bool"}


def generate(repo, dest):
    src = open(os.path.join(repo, "src/disk_store/partition_segment.rs")).read().replace("\r\n", "\n")
    variants = codec_variants(repo)
    ty_ser, ty_de = type_maps(src)
    sops, dops = ser_ops(src), de_ops(src)
    sec_ser, sec_de = section_maps(src)
    vnames = [v for v, _ in variants]
    for v in sops:
        if v not in vnames:
            raise ValueError("serialize arm for unknown CodecOp %s" % v)
    enc_types = sorted(set([a for a, _ in ty_ser] + [b for _, b in ty_de]))
    wire_types = sorted(set([b for _, b in ty_ser] + [a for a, _ in ty_de]))
    tags = sorted(set([t[0] for t in sops.values() if t] + list(dops.keys())))
    L = ["(* GENERATED by translators/segment_map.py from src/disk_store/partition_segment.rs and src/mem_store/codec.rs — do not edit *)",
         "From Coq Require Import ZArith NArith List String Bool.", "Import ListNotations.", "Open Scope string_scope.", ""]
    L += ["Inductive enc_type := " + " | ".join("ET_" + t for t in enc_types) + ".",
          "Inductive wire_type := " + " | ".join("WT_" + t for t in wire_types) + ".", ""]
    L += ["(* encoding_type_to_capnp; None = the `_ => panic!` arm *)", "Definition ser_ty (t : enc_type) : option wire_type :=", "  match t with"]
    d = dict(ty_ser)
    for t in enc_types:
        L.append("  | ET_%s => %s" % (t, "Some WT_" + d[t] if t in d else "None"))
    L += ["  end.", "", "(* deserialize_type *)", "Definition de_ty (w : wire_type) : option enc_type :=", "  match w with"]
    d = dict(ty_de)
    for w in wire_types:
        L.append("  | WT_%s => %s" % (w, "Some ET_" + d[w] if w in d else "None"))
    L += ["  end.", ""]
    L += ["Inductive codec_op :="]
    for v, tys in variants:
        L.append("| CO_%s%s" % (v, "".join(" (a%d : %s)" % (i, COQ_TY[t]) for i, t in enumerate(tys))))
    L[-1] += "."
    L += ["", "Inductive field := F_ty (w : wire_type) | F_int (z : Z) | F_nat (n : N) | F_bool (b : bool) | F_unit.",
          "Definition wire_op := (string * list (string * field))%type.", "",
          "Fixpoint lookup (k : string) (l : list (string * field)) : option field :=",
          "  match l with [] => None | (k', v) :: r => if String.eqb k k' then Some v else lookup k r end.", ""]
    # ser_op
    L += ["(* PartitionSegment::serialize, codec arm.  None = panic arm, or an encoding type the type map rejects *)",
          "Definition ser_op (o : codec_op) : option wire_op :=", "  match o with"]
    for v, tys in variants:
        pat = "CO_%s%s" % (v, "".join(" a%d" % i for i in range(len(tys))))
        s = sops.get(v)
        if s is None:
            L.append("  | %s => None" % pat)
            continue
        tag, fields = s
        binds, items = [], []
        for fname, (kind, idx) in fields:
            if kind == "unit":
                items.append('("%s", F_unit)' % fname)
            elif kind == "ty":
                if tys[idx] != "EncodingType":
                    raise ValueError("type conversion applied to non-type argument in %s" % v)
                binds.append(idx)
                items.append('("%s", F_ty w%d)' % (fname, idx))
            else:
                ctor = {"i64": "F_int", "usize": "F_nat", "bool": "F_bool"}.get(tys[idx])
                if ctor is None:
                    raise ValueError("encoding type written without conversion in %s" % v)
                items.append('("%s", %s a%d)' % (fname, ctor, idx))
        body = 'Some ("%s", [%s])' % (tag, "; ".join(items))
        for idx in reversed(binds):
            body = "match ser_ty a%d with Some w%d => %s | None => None end" % (idx, idx, body)
        L.append("  | %s => %s" % (pat, body))
    L += ["  end.", ""]
    # de_op
    L += ["(* PartitionSegment::deserialize, codec arm *)", "Definition de_op (w : wire_op) : option codec_op :=",
          "  let '(tag, fs) := w in"]
    first = True
    vt = dict(variants)
    for tag in tags:
        if tag not in dops:
            continue
        vname, args = dops[tag]
        if vname not in vt or len(vt[vname]) != len(args):
            raise ValueError("deserialize arm %s builds %s with the wrong number of arguments" % (tag, vname))
        expr = "Some (CO_%s%s)" % (vname, "".join(" x%d" % i for i in range(len(args))))
        for i in reversed(range(len(args))):
            fname, is_ty = args[i]
            want = vt[vname][i]
            if (want == "EncodingType") != is_ty:
                raise ValueError("argument %d of %s: type conversion mismatch" % (i, vname))
            if is_ty:
                expr = ('match lookup "%s" fs with Some (F_ty w%d) => match de_ty w%d with Some x%d => %s | None => None end | _ => None end'
                        % (fname, i, i, i, expr))
            else:
                ctor = {"i64": "F_int", "usize": "F_nat", "bool": "F_bool"}[want]
                expr = 'match lookup "%s" fs with Some (%s x%d) => %s | _ => None end' % (fname, ctor, i, expr)
        L.append('  %s String.eqb tag "%s" then %s' % ("if" if first else "else if", tag, expr))
        first = False
    L += ["  else None.", ""]
    # sections
    kinds = sorted(set(list(sec_ser.keys()) + list(sec_de.values())))
    wkinds = sorted(set(list(sec_ser.values()) + list(sec_de.keys())))
    L += ["Inductive sec_kind := " + " | ".join("SK_" + k for k in kinds) + ".",
          "Inductive wire_kind := " + " | ".join("WK_" + k for k in wkinds) + ".",
          "Definition ser_sec (k : sec_kind) : option wire_kind :=", "  match k with"]
    for k in kinds:
        L.append("  | SK_%s => %s" % (k, "Some WK_" + sec_ser[k] if k in sec_ser else "None"))
    L += ["  end.", "Definition de_sec (w : wire_kind) : option sec_kind :=", "  match w with"]
    for w in wkinds:
        L.append("  | WK_%s => %s" % (w, "Some SK_" + sec_de[w] if w in sec_de else "None"))
    L += ["  end.", ""]
    text = "\n".join(L)
    os.makedirs(os.path.dirname(dest), exist_ok=True)
    old = open(dest).read() if os.path.exists(dest) else None
    if old != text:
        open(dest, "w").write(text)
    return {"ops": len(variants), "types": len(enc_types), "sections": len(kinds)}


if __name__ == "__main__":
    import sys
    print(generate(sys.argv[1] if len(sys.argv) > 1 else "/repo", "/verif/coq/theories/Gen/SegmentMap.v"))
