"""T7: inventory of panic-capable constructs in the request-path ("front door") files of C12 / C11,
keyed by (file, enclosing fn, normalised snippet, ordinal) - never by line number - and classified by
the rules / table below. Emits coq/theories/Gen/PanicSites.v; the theorem C11_sites_classified
(Props/C11.v) states that no site is Unclassified, so a NEW unwrap / expect / panic! / assert! / range
slice on the request path breaks an obligation until it is looked at.

Constructs: .unwrap() .expect( panic!( unreachable!( todo!( unimplemented!( assert!( assert_eq!( assert_ne!(,
range-index expressions x[a..b], and the LIMIT/OFFSET arithmetic (lines adding limit and offset or
subtracting offset from a length). Skipped: comments, `#[cfg(test)]` modules, items and statements under
`#[cfg(feature = "verif")]`.

Fails closed: an unreadable file or a file without any `fn` raises."""
import os
import re

FILES = [
    "src/syntax/parser.rs",
    "src/locustdb.rs",
    "src/engine/planning/query.rs",
    "src/engine/execution/query_task.rs",
    "src/engine/execution/batch_merging.rs",
    "src/scheduler/inner_locustdb.rs",
    "src/scheduler/shared_sender.rs",
    "src/scheduler/task.rs",
    "src/ingest/input_column.rs",
    "src/ingest/buffer.rs",
]

CONSTRUCT = re.compile(
    r"\.unwrap\(\)|\.expect\(|\bpanic!\(|\bunreachable!\(|\btodo!\(|\bunimplemented!\(|\bassert!\(|\bassert_eq!\(|\bassert_ne!\("
    r"|\w\[(?:[^\]\[]+\.\.[^\]\[]*|[^\]\[]*\.\.[^\]\[]+)\]"
    r"|\blimit\b[^;]*\+[^;]*\boffset\b|len\(\)\s*-\s*offset")

# ---- classification --------------------------------------------------------------------------------
# rules: (class, argument, regex on the snippet, optional regex on the file, optional regex on the fn)
LOCK = ("LockPoison", "", r"\.(lock|read|write)\(\)\s*\.unwrap\(\)|\.lock\(\)\.unwrap\(\)|\.wait(_timeout_while)?\([^;]*\.unwrap\(\)")
RULES = [
    # std::sync locks: unwrap fails only on a poisoned lock, i.e. after an earlier panic held it
    # (C11_errors_preserve_state: value-returning requests never poison; C11_damage_is_permanent)
    LOCK,
    ("LockPoison", "", r"^\) \.unwrap\(\);?$", r"inner_locustdb\.rs", r"^(enforce_wal_limit)$"),
    # channels: send / recv fail only when the peer is gone
    ("ChannelPeer", "flush job / compaction job result: the receiver lives until the iterator ends", r"tx\.send\(", r"inner_locustdb\.rs"),
    ("ChannelPeer", "shutdown drain: receivers may be gone, harmless at exit", r"sender\.send\(\(\)\)\.unwrap\(\)", r"inner_locustdb\.rs"),
    ("Known", "C11_flush_handshake: RecvError when the flush thread died while this caller waited (F4 cascade)", r"receiver\.recv\(\)\.unwrap\(\)", r"inner_locustdb\.rs"),
    ("JoinPeer", "join().unwrap(): panics only if the joined thread panicked", r"\.join\(\)\s*\.unwrap\(\)|^\.join\(\)$|jh\.join\(\)\.unwrap\(\)"),
]

# explicit table: (file regex, fn regex, snippet regex) -> (class, argument)
TABLE = [
    # ---- parser.rs
    (r"parser\.rs", r"parse_query", r"ast\.pop\(\)\.unwrap\(\)", ("Known", "F6c empty statement list")),
    (r"parser\.rs", r"get_limit", r"parse::<u64>\(\)\.unwrap\(\)", ("Known", "F6a LIMIT literal")),
    (r"parser\.rs", r"get_offset", r"parse::<u64>\(\)\.unwrap\(\)", ("Known", "F6a OFFSET literal")),
    (r"parser\.rs", r"strip_quotes", r"ident\[1\.\.ident\.len\(\) - 1\]", ("Guarded", "both ends are one-byte quote characters and len >= 2 (fix 7f4db9b; Proofs/Frontend.quoted_boundaries)")),
    (r"parser\.rs", r"get_raw_val", r"parse::<i64>\(\)\.unwrap\(\)", ("Guarded", "guarded by is_ok() on the same parse")),
    (r"parser\.rs", r"get_raw_val", r"parse::<f64>\(\)\.unwrap\(\)", ("Guarded", "sqlparser number tokens always parse as f64 (model: PSFloatUnwrap, never produced by the tokenizer; tallied by c12_parse)")),
    # ---- locustdb.rs
    (r"locustdb\.rs", r"new", r"opts\.validate\(\)\.expect", ("NotRequestPath", "start-up: invalid options")),
    # ---- planning/query.rs
    (r"planning/query\.rs", r"run", r"limit\b.*\+.*offset", ("Known", "F5b limit + offset")),
    (r"planning/query\.rs", r"run", r"unreachable!\(\)", ("Guarded", "Filter::Indices is only produced after this match")),
    # ---- query_task.rs
    (r"query_task\.rs", r"new", r"column_names\s*\.unwrap\(\)|^\.unwrap\(\)$|\.unwrap\(\) \.into_iter\(\)", ("Guarded", "is_select_star implies `*` is referenced, so run_query fetched the column names")),
    (r"query_task\.rs", r"eligible_pair|combine_results", r"batch_results\.remove\(&key[12]\)\.unwrap\(\)", ("Guarded", "keys returned by eligible_pair are present")),
    (r"query_task\.rs", r"push_result", r"\.unwrap\(\) \.0|final_pass \.run\(|^\) \.unwrap\(\)$", ("Known", "F27 final-pass error unwrapped")),
    (r"query_task\.rs", r"push_result", r"owned_results\.into_iter\(\)\.next\(\)\.unwrap\(\)", ("Guarded", "len == 1 checked just above")),
    (r"query_task\.rs", r"convert_to_output_format", r"len\(\)\s*-\s*offset", ("Guarded", "offset is clamped to full_result.len() one line above (fix 0df51a0; C12_slice)")),
    (r"query_task\.rs", r"convert_to_output_format", r"validate\(\)\.unwrap\(\)", ("Known", "F32 constant select items: unequal column lengths")),
    (r"query_task\.rs", r"combined_limit", r"limit\b.*\+.*offset", ("Known", "F5b limit + offset")),
    (r"query_task\.rs", r"from_boxed_data", r"panic!\(\"Unsupported type", ("Guarded", "result columns are decoded vectors; scalar / merge-op types never reach the output (F32 reaches slice_box first)")),
    # ---- batch_merging.rs: typed-buffer downcasts on plans the function itself built
    (r"batch_merging\.rs", r".*", r"\.unwrap\(\)|panic!\(|assert", ("Guarded", "merge plans are built and consumed inside combine(); type errors are returned through `?`")),
    (r"batch_merging\.rs", r"combine", r"order_by\[0\.\.batch1\.order_by\.len\(\) - 1\]", ("Guarded", "this branch is taken only when order_by is not empty")),
    # ---- shared_sender.rs
    (r"shared_sender\.rs", r"send", r"inner\.lock\(\)\.unwrap\(\)", ("LockPoison", "")),
    # ---- ingest
    (r"input_column\.rs", r"from_column_data", r"assert!\(", ("Guarded", "a short string column is padded (fix 1c4a1c7); TableBuffer never holds a column longer than the batch")),
    (r"ingest/buffer\.rs", r"push_typed_cols", r"assert!\(buffered_col\.len\(\) > self\.length\)", ("Guarded", "zero-row buffers are skipped by ingest_efficient / WAL replay (fix 1eb96cd)")),
    (r"ingest/buffer\.rs", r"push_typed_cols", r"assert!\(new_length > self\.length\)", ("Guarded", "zero-row buffers are skipped by ingest_efficient / WAL replay (fix 1eb96cd)")),
    (r"ingest/buffer\.rs", r"push_typed_cols", r"assert!\(new_length == 0", ("Guarded", "TableBuffer keeps all columns at one length (new / insert assert it)")),
    (r"ingest/buffer\.rs", r".*", r"\.unwrap\(\)|assert|panic!", ("NotRequestPath", "not reached by ingest_efficient (heterogeneous / CSV ingestion helpers)")),
    # ---- inner_locustdb.rs
    (r"inner_locustdb\.rs", r"^new$", r".*", ("NotRequestPath", "start-up / WAL replay (C08, C09)")),
    (r"inner_locustdb\.rs", r"ingest_efficient|compact", r"query_column_names\(table\.name\(\)\) \.expect\(", ("Guarded", "the _meta_columns_ table exists for every table created by ingestion; fails only if the pool is dead (then it blocks, it does not panic)")),
    (r"inner_locustdb\.rs", r"ingest_single|ingest_homogeneous|ingest_heterogeneous", r"tables\.get\(table\)\.unwrap\(\)", ("Guarded", "create_if_empty just inserted the table")),
    (r"inner_locustdb\.rs", r"ingest_efficient", r"tables\.get\(&table\)\.unwrap\(\)", ("Guarded", "create_if_empty_no_ingest inserted every table of the batch above")),
    (r"inner_locustdb\.rs", r"ingest_efficient", r"jh\.join\(\)\.unwrap\(\)", ("JoinPeer", "persist_wal_segment thread")),
    (r"inner_locustdb\.rs", r"schedule_query_column_names", r"^\) \.unwrap\(\);?$|QueryTask::new\(", ("Guarded", "read_column queries are not select-star and contain no aggregates: QueryTask::new cannot fail")),
    (r"inner_locustdb\.rs", r"query_column_names", r"block_on\(receiver\)\.unwrap\(\)", ("Known", "Canceled when the pool thread running the column-name query panics (consequence of a lost worker)")),
    (r"inner_locustdb\.rs", r"query_column_names", r"assert!\(result\.columns\.len\(\) == 1|result\.columns\.pop\(\)\.unwrap\(\)", ("Known", "F31: a _meta_columns_ table without partitions answers with an empty columns vector")),
    (r"inner_locustdb\.rs", r"flush_table_buffer", r"clone_column_handles\(\) \.into_iter\(\) \.filter\(\|c\| !c\.is_emp", ("Guarded", "placeholder handles are filtered out (fix 7a0a728); the remaining handles of a freshly batched partition are resident")),
    (r"inner_locustdb\.rs", r"flush_table_buffer", r"clone_column_handles\(\) \.into_iter\(\) \.map\(\|c\| c\.try_get\(\)", ("Known", "F14 placeholder column handle (C10)")),
    (r"inner_locustdb\.rs", r"compact", r"assert_eq!\(|panic!\(|cols\.into_values\(\)\.next\(\)\.unwrap\(\)", ("Guarded", "compaction invariants (C07); a failure is the flush-job panic modelled by flush_iter _ true (F2)")),
    (r"inner_locustdb\.rs", r"create_if_empty|create_if_empty_no_ingest|log_metrics", r"duration_since\(UNIX_EPOCH\)\s*\.unwrap\(\)|^\.unwrap\(\)$|\.unwrap\(\) \.as_secs\(\)", ("Guarded", "system clock after 1970")),
    (r"inner_locustdb\.rs", r"enforce_wal_limit", r"longest_span\.as_ref\(\)\.unwrap\(\)", ("Guarded", "is_none() checked in the same condition")),
    (r"inner_locustdb\.rs", r"wal_flush", r"longest_span\.as_ref\(\)\.unwrap\(\)", ("Guarded", "is_none() checked in the same condition")),
    (r"inner_locustdb\.rs", r"subpartition|create_subpartition", r"column_names\.last\(\)\.unwrap\(\)", ("Guarded", "every sub-partition holds at least one column")),
]

ARG_CLASSES = ("Known", "Guarded", "NotRequestPath", "ChannelPeer", "JoinPeer")


def strip_verif_and_tests(src):
    """blank out `#[cfg(test)] mod ... { }` and items / statements under #[cfg(feature = "verif")]"""
    out = list(src)
    for m in re.finditer(r"#\[cfg\((test|feature\s*=\s*\"verif\")\)\]", src):
        i = m.end()
        # the guarded item ends at the matching brace of its first '{', or at the first ';' before any '{'
        j = i
        depth = 0
        seen_brace = False
        while j < len(src):
            c = src[j]
            if c == "{":
                depth += 1
                seen_brace = True
            elif c == "}":
                depth -= 1
                if seen_brace and depth == 0:
                    j += 1
                    break
            elif c == ";" and not seen_brace:
                j += 1
                break
            j += 1
        for k in range(m.start(), min(j, len(src))):
            if out[k] != "\n":
                out[k] = " "
    return "".join(out)


def norm(s):
    return re.sub(r"\s+", " ", s.strip())[:90]


def inventory(repo):
    sites = []
    for rel in FILES:
        path = os.path.join(repo, rel)
        src = open(path, encoding="utf8").read().replace("\r\n", "\n")
        src = strip_verif_and_tests(src)
        lines = src.split("\n")
        fn = None
        seen_fn = False
        counts = {}
        for idx, line in enumerate(lines):
            code = line.split("//")[0]
            m = re.match(r"\s*(?:pub(?:\([a-z]+\))?\s+)?(?:async\s+)?(?:unsafe\s+)?fn\s+(\w+)", code)
            if m:
                fn = m.group(1)
                seen_fn = True
            if not code.strip() or not CONSTRUCT.search(code):
                continue
            snippet = code.strip()
            # a continuation line of a method chain: prepend the lines it continues
            k = idx
            while snippet.startswith(".") and k > 0 and idx - k < 8:
                k -= 1
                prev = lines[k].split("//")[0].strip()
                if prev:
                    snippet = prev + " " + snippet
                    if not prev.startswith("."):
                        break
            snippet = norm(snippet)
            key = (rel, fn or "", snippet)
            counts[key] = counts.get(key, 0) + 1
            sites.append((rel, fn or "", snippet, counts[key] - 1))
        if not seen_fn:
            raise RuntimeError("no fn found in %s (file reshaped?)" % rel)
    return sites


def classify(site):
    rel, fn, snippet, _ = site
    for (frx, fnrx, srx, cls) in TABLE:
        if re.search(frx, rel) and re.fullmatch(fnrx, fn) is not None and re.search(srx, snippet):
            return cls
    for rule in RULES:
        cls, arg, srx = rule[0], rule[1], rule[2]
        frx = rule[3] if len(rule) > 3 else None
        fnrx = rule[4] if len(rule) > 4 else None
        if frx and not re.search(frx, rel):
            continue
        if fnrx and not re.search(fnrx, fn):
            continue
        if re.search(srx, snippet):
            return (cls, arg)
    return ("Unclassified", "")


def coq_string(s):
    return '"' + s.replace('"', '""') + '"'


def generate(repo, dest):
    sites = inventory(repo)
    rows = []
    unclassified = []
    for s in sites:
        cls, arg = classify(s)
        if cls == "Unclassified":
            unclassified.append(s)
        c = cls if cls not in ARG_CLASSES else "(%s %s)" % (cls, coq_string(arg))
        rows.append("  {| s_file := %s; s_fn := %s; s_snippet := %s; s_ord := %d; s_class := %s |}" % (
            coq_string(s[0]), coq_string(s[1]), coq_string(s[2]), s[3], c))
    body = """(* GENERATED by translators/panic_sites.py from the current /repo tree: do not edit.
   Inventory of panic-capable constructs in the request-path files of C12 / C11, with the class the
   translator's rules / table assign to each. *)
From Coq Require Import String List Bool.
Import ListNotations.
Open Scope string_scope.

Inductive site_class :=
| LockPoison                       (* lock().unwrap(): fails only after an earlier panic poisoned the lock *)
| ChannelPeer (why : string)       (* send / recv unwrap: fails only when the peer is gone *)
| JoinPeer (why : string)          (* join().unwrap(): fails only if the joined thread panicked *)
| Known (finding : string)         (* reachable: a recorded finding *)
| Guarded (why : string)           (* unreachable: guarded by a check / an invariant *)
| NotRequestPath (why : string)    (* start-up, recovery or helpers the request path does not reach *)
| Unclassified.

Record site := { s_file : string; s_fn : string; s_snippet : string; s_ord : nat; s_class : site_class }.

Definition classified (s : site) : bool :=
  match s_class s with Unclassified => false | _ => true end.

Definition is_known (s : site) : bool :=
  match s_class s with Known _ => true | _ => false end.

Definition sites : list site := [
%s
].
""" % ";\n".join(rows)
    os.makedirs(os.path.dirname(dest), exist_ok=True)
    old = open(dest).read() if os.path.exists(dest) else None
    if old != body:
        open(dest, "w").write(body)
    return {"sites": len(sites), "unclassified": unclassified}


if __name__ == "__main__":
    import sys
    r = generate(sys.argv[1] if len(sys.argv) > 1 else "/repo", "/verif/coq/theories/Gen/PanicSites.v")
    print(r["sites"], "sites;", len(r["unclassified"]), "unclassified")
    for u in r["unclassified"]:
        print("  UNCLASSIFIED", u)
