(* lvmodel (front cluster): query front end (C12) and scheduler bookkeeping (C11) *)
open Sx
open Conv
open Frontend

(* ---- reduced AST readers -------------------------------------------------------------------- *)

let bad what x = raise (Conv ("bad " ^ what ^ ": " ^ Sx.to_string x))

let to_binop x = match atom x with
  | "And" -> BAnd | "Plus" -> BPlus | "Minus" -> BMinus | "Multiply" -> BMultiply | "Divide" -> BDivide
  | "Modulo" -> BModulo | "Gt" -> BGt | "GtEq" -> BGtEq | "Lt" -> BLt | "LtEq" -> BLtEq | "Eq" -> BEq
  | "NotEq" -> BNotEq | "Or" -> BOr | "Other" -> BOther | _ -> bad "binop" x

let to_unop x = match atom x with
  | "Not" -> UNot | "Minus" -> UMinus | "Other" -> UOther | _ -> bad "unop" x

let rec to_expr (x : Sx.t) : expr =
  match x with
  | L [A "bin"; op; l; r] -> EBinary (to_binop op, to_expr l, to_expr r)
  | L [A "un"; op; e] -> EUnary (to_unop op, to_expr e)
  | L [A "num"; t; f] -> EValue (VNumber (to_bytes t, to_opt to_n f))
  | L [A "str"; s] -> EValue (VSQString (to_bytes s))
  | A "null" -> EValue VNull
  | A "vother" -> EValue VOther
  | L [A "id"; v] -> EIdent (to_bytes v)
  | L [A "nested"; e] -> ENested (to_expr e)
  | L [A "fn"; name; args] -> EFunction (to_bytes name, to_fargs args)
  | L [A "isnull"; e] -> EIsNull (to_expr e)
  | L [A "isnotnull"; e] -> EIsNotNull (to_expr e)
  | L [A "like"; neg; e; p; esc] -> ELike (to_bool neg, to_expr e, to_expr p, to_bool esc)
  | L [A "floor"; e] -> EFloor (to_expr e)
  | A "other" -> EOther
  | _ -> bad "expr" x
and to_farg x =
  match x with
  | L [A "e"; e] -> FAExpr (to_expr e)
  | A "named" -> FANamed
  | A "wild" -> FAWildcard
  | A "qwild" -> FAQualifiedWildcard
  | A "aother" -> FAOther
  | _ -> bad "farg" x
and to_fargs x =
  match x with
  | A "fnone" -> FNone
  | A "fsub" -> FSubquery
  | L [A "l1"; a] -> FList1 (to_farg a)
  | L [A "l2"; a; b] -> FList2 (to_farg a, to_farg b)
  | L [A "ln"; n] -> FListN (nat_of_int (to_int n))
  | _ -> bad "fargs" x

let to_item x =
  match x with
  | L [A "unnamed"; e; d] -> SIUnnamed (to_expr e, to_bytes d)
  | L [A "alias"; e; a] -> SIAlias (to_expr e, to_bytes a)
  | A "wildcard" -> SIWildcard
  | A "other" -> SIOther
  | _ -> bad "select item" x

let to_from x =
  match x with
  | L [A "from"; L [A "table"; d]; j] -> { fi_relation = TFTable (to_bytes d); fi_joins = nat_of_int (to_int j) }
  | L [A "from"; A "other"; j] -> { fi_relation = TFOther; fi_joins = nat_of_int (to_int j) }
  | _ -> bad "from" x

let to_body x =
  match x with
  | A "other" -> BdOther
  | L [A "select"; distinct; proj; from; sel; gb; having] ->
      let gb = match gb with
        | A "all" -> GBAll
        | L [A "exprs"; n; m] -> GBExprs (nat_of_int (to_int n), nat_of_int (to_int m))
        | _ -> bad "group by" gb in
      BdSelect { s_distinct = to_bool distinct; s_projection = to_list to_item proj; s_from = to_list to_from from;
                 s_selection = to_opt to_expr sel; s_group_by = gb; s_having = to_bool having }
  | _ -> bad "body" x

let to_statement x =
  match x with
  | A "other" -> StOther
  | L [A "query"; body; ob; lc] ->
      let ob = match ob with
        | A "none" -> OBNone
        | A "all" -> OBAll
        | L [A "exprs"; l] -> OBExprs (to_list (fun y -> match y with
            | L [e; asc] -> (to_expr e, to_opt to_bool asc)
            | _ -> bad "order item" y) l)
        | _ -> bad "order by" ob in
      let lc = match lc with
        | A "none" -> LCNone
        | A "other" -> LCOther
        | L [A "lo"; l; o] -> LCLimitOffset (to_opt to_expr l, to_opt to_expr o)
        | _ -> bad "limit clause" lc in
      StQuery (to_body body, ob, lc)
  | _ -> bad "statement" x

let to_parsed x =
  match x with
  | A "perr" -> PParserError
  | A "pfatal" -> POtherError
  | L (A "ok" :: stmts) -> POk (Stdlib.List.map to_statement stmts)
  | _ -> bad "parsed" x

(* ---- printers (mirror harness/src/bin/lv_front/canon.rs) --------------------------------------- *)

let f1_name = function
  | Negate -> "Negate" | ToYear -> "ToYear" | Not -> "Not" | IsNull -> "IsNull" | IsNotNull -> "IsNotNull"
  | Length -> "Length" | Floor -> "Floor"
let f2_name = function
  | Equals -> "Equals" | NotEquals -> "NotEquals" | LT -> "LT" | LTE -> "LTE" | GT -> "GT" | GTE -> "GTE"
  | And -> "And" | Or -> "Or" | Add -> "Add" | Subtract -> "Subtract" | Multiply -> "Multiply" | Divide -> "Divide"
  | Modulo -> "Modulo" | RegexMatch -> "RegexMatch" | Like -> "Like" | NotLike -> "NotLike"
let agg_name = function Count -> "Count" | SumI64 -> "SumI64" | MaxI64 -> "MaxI64" | MinI64 -> "MinI64"

let rec of_nexpr (e : nexpr) : Sx.t =
  match e with
  | ColName n -> L [A "col"; of_bytes n]
  | Const (RInt z) -> L [A "int"; of_z z]
  | Const (RFloat b) -> L [A "float"; of_n b]
  | Const (RStr s) -> L [A "str"; of_bytes s]
  | Const RNull -> A "null"
  | Func1 (f, x) -> L [A "f1"; A (f1_name f); of_nexpr x]
  | Func2 (f, x, y) -> L [A "f2"; A (f2_name f); of_nexpr x; of_nexpr y]
  | Aggregate (a, x) -> L [A "agg"; A (agg_name a); of_nexpr x]

let of_ci (c : column_info) = L [of_nexpr c.ci_expr; of_bytes c.ci_name]
let of_order l = of_list (fun (e, d) -> L [of_nexpr e; of_bool d]) l

let of_err = function
  | ParseError -> L [A "err"; A "ParseError"]
  | NotImplemented -> L [A "err"; A "NotImplemented"]
  | Fatal -> L [A "err"; A "Fatal"]
  | TypeError -> L [A "err"; A "TypeError"]

let of_panic = function
  | PSStripBoundary -> L [A "panic"; A "char_boundary"]
  | PSFloatUnwrap -> L [A "panic"; A "parse_float"]

let of_result f = function
  | Val v -> f v
  | Err k -> of_err k
  | Panic s -> of_panic s

let of_query (q : query) =
  L [A "val"; of_list of_ci q.q_select; of_bytes q.q_table; of_nexpr q.q_filter; of_order q.q_order_by;
     of_n q.q_limit; of_n q.q_offset]

let of_nf (n : normal_form) =
  L [of_list of_ci n.nf_projection;
     of_list (fun (a, c) -> L [A (agg_name a); of_ci c]) n.nf_aggregate;
     of_nexpr n.nf_filter; of_order n.nf_order_by; of_n n.nf_limit; of_n n.nf_offset]

let of_normalized ((main, final), sources) =
  L [A "val"; of_nf main; of_opt of_nf final;
     of_list (function Proj i -> L [A "proj"; of_int (int_of_nat i)] | Agg i -> L [A "agg"; of_int (int_of_nat i)]) sources]

(* ---- C11: the damage state machine ------------------------------------------------------------ *)

let to_held x = match atom x with
  | "none" -> PoolSM.HNone | "ingest" -> PoolSM.HIngest | "table" -> PoolSM.HTable
  | "ingesttable" -> PoolSM.HIngestTable | _ -> bad "held" x

let to_req x = match atom x with
  | "query" -> PoolSM.RQuery | "ingest" -> PoolSM.RIngest | "flush" -> PoolSM.RFlush | "stats" -> PoolSM.RStats
  | _ -> bad "req" x

let to_obs x = match x with
  | A "ok" -> PoolSM.OOk
  | A "err" -> PoolSM.OErr
  | L [A "panic"; h] -> PoolSM.OCallerPanic (to_held h)
  | L [A "canceled"; n] -> PoolSM.OCanceled (nat_of_int (to_int n))
  | L [A "hang"; n; h] -> PoolSM.OHang (nat_of_int (to_int n), to_held h)
  | A "flushlost" -> PoolSM.OFlushLost
  | _ -> bad "obs" x

let of_obs = function
  | PoolSM.OOk -> A "ok"
  | PoolSM.OErr -> A "err"
  | PoolSM.OCallerPanic _ -> A "panic"
  | PoolSM.OCanceled _ -> A "canceled"
  | PoolSM.OHang (_, _) -> A "hang"
  | PoolSM.OFlushLost -> A "flushlost"

let canary inp =
  match inp with
  | L (A "scenario" :: threads :: rounds) ->
      let d = { PoolSM.alive = nat_of_int (to_int threads); PoolSM.ingest_poisoned = false;
                PoolSM.table_poisoned = false; PoolSM.flush_dead = false } in
      let rs = Stdlib.List.map (fun rd -> Stdlib.List.map (fun ro -> match ro with
        | L [k; o] -> (to_req k, to_obs o)
        | _ -> bad "request" ro) (lst rd)) rounds in
      L (Stdlib.List.map (function
        | Some os -> L (Stdlib.List.map of_obs os)
        | None -> A "inconsistent") (PoolSM.run_checked d rs))
  | _ -> bad "scenario" inp

let run (entry : string) (inp : Sx.t) : Sx.t =
  match entry with
  | "canary" -> canary inp
  | "parse" -> of_result of_query (parse_query (to_parsed inp))
  | "normalize" -> of_result of_normalized (parse_and_normalize (to_parsed inp))
  | "names" ->
      of_result (fun q -> L (A "names" :: Stdlib.List.map of_bytes (output_names q))) (parse_query (to_parsed inp))
  | "slice" ->
      (match inp with
       | L [limit; offset; len] ->
           let (o, c) = output_slice (to_n limit) (to_n offset) (to_n len) in
           L [A "slice"; of_n o; of_n c]
       | _ -> bad "slice input" inp)
  | "wf" -> of_bool (FrontendSpec.parser_output (to_parsed inp))
  | _ -> raise (Conv ("unknown entry: " ^ entry))

let () = Loop.main run
