
type uint =
| Nil
| D0 of uint
| D1 of uint
| D2 of uint
| D3 of uint
| D4 of uint
| D5 of uint
| D6 of uint
| D7 of uint
| D8 of uint
| D9 of uint

val revapp : uint -> uint -> uint

val rev : uint -> uint

module Little :
 sig
  val succ : uint -> uint
 end
