open Datatypes
open Decimal

module Nat :
 sig
  val eqb : nat -> nat -> bool

  val leb : nat -> nat -> bool

  val ltb : nat -> nat -> bool

  val compare : nat -> nat -> comparison

  val to_little_uint : nat -> uint -> uint

  val to_uint : nat -> uint
 end
