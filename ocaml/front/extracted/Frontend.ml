open BinInt
open BinNat
open BinNums
open Datatypes
open Decimal
open List
open Nat

type bytes = coq_N list

type err_kind =
| ParseError
| NotImplemented
| Fatal
| TypeError

type panic_site =
| PSStripBoundary
| PSFloatUnwrap

type 'a result =
| Val of 'a
| Err of err_kind
| Panic of panic_site

(** val bind : 'a1 result -> ('a1 -> 'a2 result) -> 'a2 result **)

let bind r f =
  match r with
  | Val a -> f a
  | Err k -> Err k
  | Panic s -> Panic s

type binop =
| BAnd
| BPlus
| BMinus
| BMultiply
| BDivide
| BModulo
| BGt
| BGtEq
| BLt
| BLtEq
| BEq
| BNotEq
| BOr
| BOther

type unop =
| UNot
| UMinus
| UOther

type value =
| VNumber of bytes * coq_N option
| VSQString of bytes
| VNull
| VOther

type expr =
| EBinary of binop * expr * expr
| EUnary of unop * expr
| EValue of value
| EIdent of bytes
| ENested of expr
| EFunction of bytes * fargs
| EIsNull of expr
| EIsNotNull of expr
| ELike of bool * expr * expr * bool
| EFloor of expr
| EOther
and farg =
| FAExpr of expr
| FANamed
| FAWildcard
| FAQualifiedWildcard
| FAOther
and fargs =
| FNone
| FSubquery
| FList1 of farg
| FList2 of farg * farg
| FListN of nat

type select_item =
| SIUnnamed of expr * bytes
| SIAlias of expr * bytes
| SIWildcard
| SIOther

type table_factor =
| TFTable of bytes
| TFOther

type from_item = { fi_relation : table_factor; fi_joins : nat }

type group_by =
| GBExprs of nat * nat
| GBAll

type order_by =
| OBNone
| OBExprs of (expr * bool option) list
| OBAll

type limit_clause =
| LCNone
| LCLimitOffset of expr option * expr option
| LCOther

type select = { s_distinct : bool; s_projection : select_item list;
                s_from : from_item list; s_selection : expr option;
                s_group_by : group_by; s_having : bool }

type body =
| BdSelect of select
| BdOther

type statement =
| StQuery of body * order_by * limit_clause
| StOther

type parsed =
| PParserError
| POtherError
| POk of statement list

type func2 =
| Equals
| NotEquals
| LT
| LTE
| GT
| GTE
| And
| Or
| Add
| Subtract
| Multiply
| Divide
| Modulo
| RegexMatch
| Like
| NotLike

type func1 =
| Negate
| ToYear
| Not
| IsNull
| IsNotNull
| Length
| Floor

type aggregator =
| Count
| SumI64
| MaxI64
| MinI64

type rawval =
| RInt of coq_Z
| RFloat of coq_N
| RStr of bytes
| RNull

type nexpr =
| ColName of bytes
| Const of rawval
| Func1 of func1 * nexpr
| Func2 of func2 * nexpr * nexpr
| Aggregate of aggregator * nexpr

type column_info = { ci_expr : nexpr; ci_name : bytes }

type query = { q_select : column_info list; q_table : bytes;
               q_filter : nexpr; q_order_by : (nexpr * bool) list;
               q_limit : coq_N; q_offset : coq_N }

(** val u64_max : coq_N **)

let u64_max =
  Npos (Coq_xI (Coq_xI (Coq_xI (Coq_xI (Coq_xI (Coq_xI (Coq_xI (Coq_xI
    (Coq_xI (Coq_xI (Coq_xI (Coq_xI (Coq_xI (Coq_xI (Coq_xI (Coq_xI (Coq_xI
    (Coq_xI (Coq_xI (Coq_xI (Coq_xI (Coq_xI (Coq_xI (Coq_xI (Coq_xI (Coq_xI
    (Coq_xI (Coq_xI (Coq_xI (Coq_xI (Coq_xI (Coq_xI (Coq_xI (Coq_xI (Coq_xI
    (Coq_xI (Coq_xI (Coq_xI (Coq_xI (Coq_xI (Coq_xI (Coq_xI (Coq_xI (Coq_xI
    (Coq_xI (Coq_xI (Coq_xI (Coq_xI (Coq_xI (Coq_xI (Coq_xI (Coq_xI (Coq_xI
    (Coq_xI (Coq_xI (Coq_xI (Coq_xI (Coq_xI (Coq_xI (Coq_xI (Coq_xI (Coq_xI
    (Coq_xI
    Coq_xH)))))))))))))))))))))))))))))))))))))))))))))))))))))))))))))))

(** val i64_max : coq_N **)

let i64_max =
  Npos (Coq_xI (Coq_xI (Coq_xI (Coq_xI (Coq_xI (Coq_xI (Coq_xI (Coq_xI
    (Coq_xI (Coq_xI (Coq_xI (Coq_xI (Coq_xI (Coq_xI (Coq_xI (Coq_xI (Coq_xI
    (Coq_xI (Coq_xI (Coq_xI (Coq_xI (Coq_xI (Coq_xI (Coq_xI (Coq_xI (Coq_xI
    (Coq_xI (Coq_xI (Coq_xI (Coq_xI (Coq_xI (Coq_xI (Coq_xI (Coq_xI (Coq_xI
    (Coq_xI (Coq_xI (Coq_xI (Coq_xI (Coq_xI (Coq_xI (Coq_xI (Coq_xI (Coq_xI
    (Coq_xI (Coq_xI (Coq_xI (Coq_xI (Coq_xI (Coq_xI (Coq_xI (Coq_xI (Coq_xI
    (Coq_xI (Coq_xI (Coq_xI (Coq_xI (Coq_xI (Coq_xI (Coq_xI (Coq_xI (Coq_xI
    Coq_xH))))))))))))))))))))))))))))))))))))))))))))))))))))))))))))))

(** val i64_min_abs : coq_N **)

let i64_min_abs =
  Npos (Coq_xO (Coq_xO (Coq_xO (Coq_xO (Coq_xO (Coq_xO (Coq_xO (Coq_xO
    (Coq_xO (Coq_xO (Coq_xO (Coq_xO (Coq_xO (Coq_xO (Coq_xO (Coq_xO (Coq_xO
    (Coq_xO (Coq_xO (Coq_xO (Coq_xO (Coq_xO (Coq_xO (Coq_xO (Coq_xO (Coq_xO
    (Coq_xO (Coq_xO (Coq_xO (Coq_xO (Coq_xO (Coq_xO (Coq_xO (Coq_xO (Coq_xO
    (Coq_xO (Coq_xO (Coq_xO (Coq_xO (Coq_xO (Coq_xO (Coq_xO (Coq_xO (Coq_xO
    (Coq_xO (Coq_xO (Coq_xO (Coq_xO (Coq_xO (Coq_xO (Coq_xO (Coq_xO (Coq_xO
    (Coq_xO (Coq_xO (Coq_xO (Coq_xO (Coq_xO (Coq_xO (Coq_xO (Coq_xO (Coq_xO
    (Coq_xO
    Coq_xH)))))))))))))))))))))))))))))))))))))))))))))))))))))))))))))))

(** val is_digit : coq_N -> bool **)

let is_digit b =
  (&&) (N.leb (Npos (Coq_xO (Coq_xO (Coq_xO (Coq_xO (Coq_xI Coq_xH)))))) b)
    (N.leb b (Npos (Coq_xI (Coq_xO (Coq_xO (Coq_xI (Coq_xI Coq_xH)))))))

(** val digits_val : coq_N -> bytes -> coq_N option **)

let rec digits_val acc = function
| [] -> Some acc
| b :: r ->
  if is_digit b
  then digits_val
         (N.add (N.mul acc (Npos (Coq_xO (Coq_xI (Coq_xO Coq_xH)))))
           (N.sub b (Npos (Coq_xO (Coq_xO (Coq_xO (Coq_xO (Coq_xI
             Coq_xH)))))))) r
  else None

(** val digits : bytes -> coq_N option **)

let digits l = match l with
| [] -> None
| _ :: _ -> digits_val N0 l

(** val parse_u64 : bytes -> coq_N option **)

let parse_u64 s =
  let body0 =
    match s with
    | [] -> s
    | n :: r ->
      (match n with
       | N0 -> s
       | Npos p ->
         (match p with
          | Coq_xI p0 ->
            (match p0 with
             | Coq_xI p1 ->
               (match p1 with
                | Coq_xO p2 ->
                  (match p2 with
                   | Coq_xI p3 ->
                     (match p3 with
                      | Coq_xO p4 -> (match p4 with
                                      | Coq_xH -> r
                                      | _ -> s)
                      | _ -> s)
                   | _ -> s)
                | _ -> s)
             | _ -> s)
          | _ -> s))
  in
  (match digits body0 with
   | Some v -> if N.leb v u64_max then Some v else None
   | None -> None)

(** val parse_i64 : bytes -> coq_Z option **)

let parse_i64 s = match s with
| [] ->
  let body0 =
    match s with
    | [] -> s
    | n :: r ->
      (match n with
       | N0 -> s
       | Npos p ->
         (match p with
          | Coq_xI p0 ->
            (match p0 with
             | Coq_xI p1 ->
               (match p1 with
                | Coq_xO p2 ->
                  (match p2 with
                   | Coq_xI p3 ->
                     (match p3 with
                      | Coq_xO p4 -> (match p4 with
                                      | Coq_xH -> r
                                      | _ -> s)
                      | _ -> s)
                   | _ -> s)
                | _ -> s)
             | _ -> s)
          | _ -> s))
  in
  (match digits body0 with
   | Some v -> if N.leb v i64_max then Some (Z.of_N v) else None
   | None -> None)
| n :: r ->
  (match n with
   | N0 ->
     let body0 =
       match s with
       | [] -> s
       | n0 :: r0 ->
         (match n0 with
          | N0 -> s
          | Npos p ->
            (match p with
             | Coq_xI p0 ->
               (match p0 with
                | Coq_xI p1 ->
                  (match p1 with
                   | Coq_xO p2 ->
                     (match p2 with
                      | Coq_xI p3 ->
                        (match p3 with
                         | Coq_xO p4 -> (match p4 with
                                         | Coq_xH -> r0
                                         | _ -> s)
                         | _ -> s)
                      | _ -> s)
                   | _ -> s)
                | _ -> s)
             | _ -> s))
     in
     (match digits body0 with
      | Some v -> if N.leb v i64_max then Some (Z.of_N v) else None
      | None -> None)
   | Npos p ->
     (match p with
      | Coq_xI p0 ->
        (match p0 with
         | Coq_xO p1 ->
           (match p1 with
            | Coq_xI p2 ->
              (match p2 with
               | Coq_xI p3 ->
                 (match p3 with
                  | Coq_xO p4 ->
                    (match p4 with
                     | Coq_xH ->
                       (match digits r with
                        | Some v ->
                          if N.leb v i64_min_abs
                          then Some (Z.opp (Z.of_N v))
                          else None
                        | None -> None)
                     | _ ->
                       let body0 =
                         match s with
                         | [] -> s
                         | n0 :: r0 ->
                           (match n0 with
                            | N0 -> s
                            | Npos p5 ->
                              (match p5 with
                               | Coq_xI p6 ->
                                 (match p6 with
                                  | Coq_xI p7 ->
                                    (match p7 with
                                     | Coq_xO p8 ->
                                       (match p8 with
                                        | Coq_xI p9 ->
                                          (match p9 with
                                           | Coq_xO p10 ->
                                             (match p10 with
                                              | Coq_xH -> r0
                                              | _ -> s)
                                           | _ -> s)
                                        | _ -> s)
                                     | _ -> s)
                                  | _ -> s)
                               | _ -> s))
                       in
                       (match digits body0 with
                        | Some v ->
                          if N.leb v i64_max then Some (Z.of_N v) else None
                        | None -> None))
                  | _ ->
                    let body0 =
                      match s with
                      | [] -> s
                      | n0 :: r0 ->
                        (match n0 with
                         | N0 -> s
                         | Npos p4 ->
                           (match p4 with
                            | Coq_xI p5 ->
                              (match p5 with
                               | Coq_xI p6 ->
                                 (match p6 with
                                  | Coq_xO p7 ->
                                    (match p7 with
                                     | Coq_xI p8 ->
                                       (match p8 with
                                        | Coq_xO p9 ->
                                          (match p9 with
                                           | Coq_xH -> r0
                                           | _ -> s)
                                        | _ -> s)
                                     | _ -> s)
                                  | _ -> s)
                               | _ -> s)
                            | _ -> s))
                    in
                    (match digits body0 with
                     | Some v ->
                       if N.leb v i64_max then Some (Z.of_N v) else None
                     | None -> None))
               | _ ->
                 let body0 =
                   match s with
                   | [] -> s
                   | n0 :: r0 ->
                     (match n0 with
                      | N0 -> s
                      | Npos p3 ->
                        (match p3 with
                         | Coq_xI p4 ->
                           (match p4 with
                            | Coq_xI p5 ->
                              (match p5 with
                               | Coq_xO p6 ->
                                 (match p6 with
                                  | Coq_xI p7 ->
                                    (match p7 with
                                     | Coq_xO p8 ->
                                       (match p8 with
                                        | Coq_xH -> r0
                                        | _ -> s)
                                     | _ -> s)
                                  | _ -> s)
                               | _ -> s)
                            | _ -> s)
                         | _ -> s))
                 in
                 (match digits body0 with
                  | Some v ->
                    if N.leb v i64_max then Some (Z.of_N v) else None
                  | None -> None))
            | _ ->
              let body0 =
                match s with
                | [] -> s
                | n0 :: r0 ->
                  (match n0 with
                   | N0 -> s
                   | Npos p2 ->
                     (match p2 with
                      | Coq_xI p3 ->
                        (match p3 with
                         | Coq_xI p4 ->
                           (match p4 with
                            | Coq_xO p5 ->
                              (match p5 with
                               | Coq_xI p6 ->
                                 (match p6 with
                                  | Coq_xO p7 ->
                                    (match p7 with
                                     | Coq_xH -> r0
                                     | _ -> s)
                                  | _ -> s)
                               | _ -> s)
                            | _ -> s)
                         | _ -> s)
                      | _ -> s))
              in
              (match digits body0 with
               | Some v -> if N.leb v i64_max then Some (Z.of_N v) else None
               | None -> None))
         | _ ->
           let body0 =
             match s with
             | [] -> s
             | n0 :: r0 ->
               (match n0 with
                | N0 -> s
                | Npos p1 ->
                  (match p1 with
                   | Coq_xI p2 ->
                     (match p2 with
                      | Coq_xI p3 ->
                        (match p3 with
                         | Coq_xO p4 ->
                           (match p4 with
                            | Coq_xI p5 ->
                              (match p5 with
                               | Coq_xO p6 ->
                                 (match p6 with
                                  | Coq_xH -> r0
                                  | _ -> s)
                               | _ -> s)
                            | _ -> s)
                         | _ -> s)
                      | _ -> s)
                   | _ -> s))
           in
           (match digits body0 with
            | Some v -> if N.leb v i64_max then Some (Z.of_N v) else None
            | None -> None))
      | _ ->
        let body0 =
          match s with
          | [] -> s
          | n0 :: r0 ->
            (match n0 with
             | N0 -> s
             | Npos p0 ->
               (match p0 with
                | Coq_xI p1 ->
                  (match p1 with
                   | Coq_xI p2 ->
                     (match p2 with
                      | Coq_xO p3 ->
                        (match p3 with
                         | Coq_xI p4 ->
                           (match p4 with
                            | Coq_xO p5 ->
                              (match p5 with
                               | Coq_xH -> r0
                               | _ -> s)
                            | _ -> s)
                         | _ -> s)
                      | _ -> s)
                   | _ -> s)
                | _ -> s))
        in
        (match digits body0 with
         | Some v -> if N.leb v i64_max then Some (Z.of_N v) else None
         | None -> None)))

(** val is_char_boundary : bytes -> nat -> bool **)

let is_char_boundary s i = match i with
| O -> true
| S _ ->
  (match PeanoNat.Nat.compare i (length s) with
   | Eq -> true
   | Lt ->
     (match nth_error s i with
      | Some b ->
        (||)
          (N.ltb b (Npos (Coq_xO (Coq_xO (Coq_xO (Coq_xO (Coq_xO (Coq_xO
            (Coq_xO Coq_xH)))))))))
          (N.leb (Npos (Coq_xO (Coq_xO (Coq_xO (Coq_xO (Coq_xO (Coq_xO
            (Coq_xI Coq_xH)))))))) b)
      | None -> false)
   | Gt -> false)

(** val last_byte : bytes -> coq_N option **)

let rec last_byte = function
| [] -> None
| b :: r -> (match r with
             | [] -> Some b
             | _ :: _ -> last_byte r)

(** val quoted_by : coq_N -> bytes -> bool **)

let quoted_by q s =
  (&&)
    ((&&) (PeanoNat.Nat.leb (S (S O)) (length s))
      (match s with
       | [] -> false
       | b :: _ -> N.eqb b q))
    (match last_byte s with
     | Some b -> N.eqb b q
     | None -> false)

(** val strip_quotes : bytes -> bytes result **)

let strip_quotes s =
  if (||)
       (quoted_by (Npos (Coq_xO (Coq_xO (Coq_xO (Coq_xO (Coq_xO (Coq_xI
         Coq_xH))))))) s)
       (quoted_by (Npos (Coq_xO (Coq_xI (Coq_xO (Coq_xO (Coq_xO Coq_xH))))))
         s)
  then let n = length s in
       if (&&) (is_char_boundary s (S O)) (is_char_boundary s (sub n (S O)))
       then Val (firstn (sub n (S (S O))) (skipn (S O) s))
       else Panic PSStripBoundary
  else Val s

(** val map_binary_operator : binop -> func2 result **)

let map_binary_operator = function
| BAnd -> Val And
| BPlus -> Val Add
| BMinus -> Val Subtract
| BMultiply -> Val Multiply
| BDivide -> Val Divide
| BModulo -> Val Modulo
| BGt -> Val GT
| BGtEq -> Val GTE
| BLt -> Val LT
| BLtEq -> Val LTE
| BEq -> Val Equals
| BNotEq -> Val NotEquals
| BOr -> Val Or
| BOther -> Err NotImplemented

(** val map_unary_operator : unop -> func1 result **)

let map_unary_operator = function
| UNot -> Val Not
| UMinus -> Val Negate
| UOther -> Err Fatal

(** val get_raw_val : value -> rawval result **)

let get_raw_val = function
| VNumber (text, f64) ->
  (match parse_i64 text with
   | Some z -> Val (RInt z)
   | None ->
     (match f64 with
      | Some bits -> Val (RFloat bits)
      | None -> Panic PSFloatUnwrap))
| VSQString s -> Val (RStr s)
| VNull -> Val RNull
| VOther -> Err NotImplemented

(** val n_TO_YEAR : bytes **)

let n_TO_YEAR =
  (Npos (Coq_xO (Coq_xO (Coq_xI (Coq_xO (Coq_xI (Coq_xO
    Coq_xH))))))) :: ((Npos (Coq_xI (Coq_xI (Coq_xI (Coq_xI (Coq_xO (Coq_xO
    Coq_xH))))))) :: ((Npos (Coq_xI (Coq_xI (Coq_xI (Coq_xI (Coq_xI (Coq_xO
    Coq_xH))))))) :: ((Npos (Coq_xI (Coq_xO (Coq_xO (Coq_xI (Coq_xI (Coq_xO
    Coq_xH))))))) :: ((Npos (Coq_xI (Coq_xO (Coq_xI (Coq_xO (Coq_xO (Coq_xO
    Coq_xH))))))) :: ((Npos (Coq_xI (Coq_xO (Coq_xO (Coq_xO (Coq_xO (Coq_xO
    Coq_xH))))))) :: ((Npos (Coq_xO (Coq_xI (Coq_xO (Coq_xO (Coq_xI (Coq_xO
    Coq_xH))))))) :: []))))))

(** val n_REGEX : bytes **)

let n_REGEX =
  (Npos (Coq_xO (Coq_xI (Coq_xO (Coq_xO (Coq_xI (Coq_xO
    Coq_xH))))))) :: ((Npos (Coq_xI (Coq_xO (Coq_xI (Coq_xO (Coq_xO (Coq_xO
    Coq_xH))))))) :: ((Npos (Coq_xI (Coq_xI (Coq_xI (Coq_xO (Coq_xO (Coq_xO
    Coq_xH))))))) :: ((Npos (Coq_xI (Coq_xO (Coq_xI (Coq_xO (Coq_xO (Coq_xO
    Coq_xH))))))) :: ((Npos (Coq_xO (Coq_xO (Coq_xO (Coq_xI (Coq_xI (Coq_xO
    Coq_xH))))))) :: []))))

(** val n_LENGTH : bytes **)

let n_LENGTH =
  (Npos (Coq_xO (Coq_xO (Coq_xI (Coq_xI (Coq_xO (Coq_xO
    Coq_xH))))))) :: ((Npos (Coq_xI (Coq_xO (Coq_xI (Coq_xO (Coq_xO (Coq_xO
    Coq_xH))))))) :: ((Npos (Coq_xO (Coq_xI (Coq_xI (Coq_xI (Coq_xO (Coq_xO
    Coq_xH))))))) :: ((Npos (Coq_xI (Coq_xI (Coq_xI (Coq_xO (Coq_xO (Coq_xO
    Coq_xH))))))) :: ((Npos (Coq_xO (Coq_xO (Coq_xI (Coq_xO (Coq_xI (Coq_xO
    Coq_xH))))))) :: ((Npos (Coq_xO (Coq_xO (Coq_xO (Coq_xI (Coq_xO (Coq_xO
    Coq_xH))))))) :: [])))))

(** val n_COUNT : bytes **)

let n_COUNT =
  (Npos (Coq_xI (Coq_xI (Coq_xO (Coq_xO (Coq_xO (Coq_xO
    Coq_xH))))))) :: ((Npos (Coq_xI (Coq_xI (Coq_xI (Coq_xI (Coq_xO (Coq_xO
    Coq_xH))))))) :: ((Npos (Coq_xI (Coq_xO (Coq_xI (Coq_xO (Coq_xI (Coq_xO
    Coq_xH))))))) :: ((Npos (Coq_xO (Coq_xI (Coq_xI (Coq_xI (Coq_xO (Coq_xO
    Coq_xH))))))) :: ((Npos (Coq_xO (Coq_xO (Coq_xI (Coq_xO (Coq_xI (Coq_xO
    Coq_xH))))))) :: []))))

(** val n_SUM : bytes **)

let n_SUM =
  (Npos (Coq_xI (Coq_xI (Coq_xO (Coq_xO (Coq_xI (Coq_xO
    Coq_xH))))))) :: ((Npos (Coq_xI (Coq_xO (Coq_xI (Coq_xO (Coq_xI (Coq_xO
    Coq_xH))))))) :: ((Npos (Coq_xI (Coq_xO (Coq_xI (Coq_xI (Coq_xO (Coq_xO
    Coq_xH))))))) :: []))

(** val n_AVG : bytes **)

let n_AVG =
  (Npos (Coq_xI (Coq_xO (Coq_xO (Coq_xO (Coq_xO (Coq_xO
    Coq_xH))))))) :: ((Npos (Coq_xO (Coq_xI (Coq_xI (Coq_xO (Coq_xI (Coq_xO
    Coq_xH))))))) :: ((Npos (Coq_xI (Coq_xI (Coq_xI (Coq_xO (Coq_xO (Coq_xO
    Coq_xH))))))) :: []))

(** val n_MAX : bytes **)

let n_MAX =
  (Npos (Coq_xI (Coq_xO (Coq_xI (Coq_xI (Coq_xO (Coq_xO
    Coq_xH))))))) :: ((Npos (Coq_xI (Coq_xO (Coq_xO (Coq_xO (Coq_xO (Coq_xO
    Coq_xH))))))) :: ((Npos (Coq_xO (Coq_xO (Coq_xO (Coq_xI (Coq_xI (Coq_xO
    Coq_xH))))))) :: []))

(** val n_MIN : bytes **)

let n_MIN =
  (Npos (Coq_xI (Coq_xO (Coq_xI (Coq_xI (Coq_xO (Coq_xO
    Coq_xH))))))) :: ((Npos (Coq_xI (Coq_xO (Coq_xO (Coq_xI (Coq_xO (Coq_xO
    Coq_xH))))))) :: ((Npos (Coq_xO (Coq_xI (Coq_xI (Coq_xI (Coq_xO (Coq_xO
    Coq_xH))))))) :: []))

(** val bytes_eqb : bytes -> bytes -> bool **)

let rec bytes_eqb a b =
  match a with
  | [] -> (match b with
           | [] -> true
           | _ :: _ -> false)
  | x :: a' ->
    (match b with
     | [] -> false
     | y :: b' -> (&&) (N.eqb x y) (bytes_eqb a' b'))

type fkind =
| FToYear
| FRegex
| FLength
| FCount
| FSum
| FAvg
| FMax
| FMin
| FUnknown

(** val function_kind : bytes -> fkind **)

let function_kind name =
  if bytes_eqb name n_TO_YEAR
  then FToYear
  else if bytes_eqb name n_REGEX
       then FRegex
       else if bytes_eqb name n_LENGTH
            then FLength
            else if bytes_eqb name n_COUNT
                 then FCount
                 else if bytes_eqb name n_SUM
                      then FSum
                      else if bytes_eqb name n_AVG
                           then FAvg
                           else if bytes_eqb name n_MAX
                                then FMax
                                else if bytes_eqb name n_MIN
                                     then FMin
                                     else FUnknown

(** val convert_expr : expr -> nexpr result **)

let rec convert_expr = function
| EBinary (op, l, r) ->
  bind (map_binary_operator op) (fun f ->
    bind (convert_expr l) (fun a ->
      bind (convert_expr r) (fun b -> Val (Func2 (f, a, b)))))
| EUnary (op, x) ->
  bind (map_unary_operator op) (fun f ->
    bind (convert_expr x) (fun a -> Val (Func1 (f, a))))
| EValue v -> bind (get_raw_val v) (fun c -> Val (Const c))
| EIdent v -> Val (ColName v)
| ENested x -> convert_expr x
| EFunction (name, args) ->
  let one = fun mk ->
    match args with
    | FNone -> Err ParseError
    | FSubquery -> Err ParseError
    | FList1 a -> bind (convert_farg a) (fun x -> Val (mk x))
    | FList2 (_, _) -> Err ParseError
    | FListN _ -> Err ParseError
  in
  (match function_kind name with
   | FToYear -> one (fun x -> Func1 (ToYear, x))
   | FRegex ->
     (match args with
      | FList2 (a, b) ->
        bind (convert_farg a) (fun x ->
          bind (convert_farg b) (fun y -> Val (Func2 (RegexMatch, x, y))))
      | _ -> Err ParseError)
   | FLength -> one (fun x -> Func1 (Length, x))
   | FCount -> one (fun x -> Aggregate (Count, x))
   | FSum -> one (fun x -> Aggregate (SumI64, x))
   | FAvg ->
     one (fun x -> Func2 (Divide, (Aggregate (SumI64, x)), (Aggregate (Count,
       x))))
   | FMax -> one (fun x -> Aggregate (MaxI64, x))
   | FMin -> one (fun x -> Aggregate (MinI64, x))
   | FUnknown -> Err NotImplemented)
| EIsNull x -> bind (convert_expr x) (fun a -> Val (Func1 (IsNull, a)))
| EIsNotNull x -> bind (convert_expr x) (fun a -> Val (Func1 (IsNotNull, a)))
| ELike (negated, x, pat, escape) ->
  if escape
  then Err NotImplemented
  else bind (convert_expr x) (fun a ->
         bind (convert_expr pat) (fun b -> Val (Func2
           ((if negated then NotLike else Like), a, b))))
| EFloor x -> bind (convert_expr x) (fun a -> Val (Func1 (Floor, a)))
| EOther -> Err NotImplemented

(** val convert_farg : farg -> nexpr result **)

and convert_farg = function
| FAExpr e -> convert_expr e
| _ -> Err NotImplemented

type components = { c_projection : select_item list;
                    c_relation : table_factor option;
                    c_selection : expr option;
                    c_order_by : (expr * bool option) list option;
                    c_limit : expr option; c_offset : expr option }

(** val get_query_components :
    body -> order_by -> limit_clause -> components result **)

let get_query_components b ob lc =
  match b with
  | BdSelect s ->
    let grouped =
      match s.s_group_by with
      | GBExprs (ne, nm) ->
        (||) (negb (PeanoNat.Nat.eqb ne O)) (negb (PeanoNat.Nat.eqb nm O))
      | GBAll -> false
    in
    if grouped
    then Err NotImplemented
    else if s.s_having
         then Err NotImplemented
         else if s.s_distinct
              then Err NotImplemented
              else if PeanoNat.Nat.ltb (S O) (length s.s_from)
                   then Err NotImplemented
                   else if match s.s_from with
                           | [] -> false
                           | f :: _ -> negb (PeanoNat.Nat.eqb f.fi_joins O)
                        then Err NotImplemented
                        else (match lc with
                              | LCNone ->
                                let limit = None in
                                let offset = None in
                                Val { c_projection = s.s_projection;
                                c_relation =
                                (match s.s_from with
                                 | [] -> None
                                 | f :: _ -> Some f.fi_relation);
                                c_selection = s.s_selection; c_order_by =
                                (match ob with
                                 | OBExprs l -> Some l
                                 | _ -> None); c_limit = limit; c_offset =
                                offset }
                              | LCLimitOffset (l, o) ->
                                Val { c_projection = s.s_projection;
                                  c_relation =
                                  (match s.s_from with
                                   | [] -> None
                                   | f :: _ -> Some f.fi_relation);
                                  c_selection = s.s_selection; c_order_by =
                                  (match ob with
                                   | OBExprs l0 -> Some l0
                                   | _ -> None); c_limit = l; c_offset = o }
                              | LCOther ->
                                let limit = None in
                                let offset = None in
                                Val { c_projection = s.s_projection;
                                c_relation =
                                (match s.s_from with
                                 | [] -> None
                                 | f :: _ -> Some f.fi_relation);
                                c_selection = s.s_selection; c_order_by =
                                (match ob with
                                 | OBExprs l -> Some l
                                 | _ -> None); c_limit = limit; c_offset =
                                offset })
  | BdOther -> Err NotImplemented

(** val star : bytes **)

let star =
  (Npos (Coq_xO (Coq_xI (Coq_xO (Coq_xI (Coq_xO Coq_xH)))))) :: []

(** val convert_item : select_item -> column_info result **)

let convert_item = function
| SIUnnamed (e, display) ->
  bind (convert_expr e) (fun x ->
    bind (strip_quotes display) (fun n -> Val { ci_expr = x; ci_name = n }))
| SIAlias (e, alias) ->
  bind (convert_expr e) (fun x ->
    bind (strip_quotes alias) (fun n -> Val { ci_expr = x; ci_name = n }))
| SIWildcard -> Val { ci_expr = (ColName star); ci_name = star }
| SIOther -> Err NotImplemented

(** val get_projection : select_item list -> column_info list result **)

let rec get_projection = function
| [] -> Val []
| it :: r ->
  bind (convert_item it) (fun c ->
    bind (get_projection r) (fun cs -> Val (c :: cs)))

(** val get_table_name : table_factor option -> bytes result **)

let get_table_name = function
| Some t ->
  (match t with
   | TFTable display -> strip_quotes display
   | TFOther -> Err ParseError)
| None -> Err ParseError

(** val get_order_by_list :
    (expr * bool option) list -> (nexpr * bool) list result **)

let rec get_order_by_list = function
| [] -> Val []
| p :: r ->
  let (e, asc) = p in
  bind (convert_expr e) (fun x ->
    bind (get_order_by_list r) (fun xs -> Val ((x,
      (negb (match asc with
             | Some b -> b
             | None -> true))) :: xs)))

(** val get_order_by :
    (expr * bool option) list option -> (nexpr * bool) list result **)

let get_order_by = function
| Some l -> get_order_by_list l
| None -> Val []

(** val get_limit : expr option -> coq_N result **)

let get_limit = function
| Some e ->
  (match e with
   | EValue v ->
     (match v with
      | VNumber (text, _) ->
        (match parse_u64 text with
         | Some v0 -> Val v0
         | None -> Err ParseError)
      | _ -> Err NotImplemented)
   | _ -> Err NotImplemented)
| None -> Val u64_max

(** val get_offset : expr option -> coq_N result **)

let get_offset = function
| Some e ->
  (match e with
   | EValue v ->
     (match v with
      | VNumber (text, _) ->
        (match parse_u64 text with
         | Some v0 -> Val v0
         | None -> Err ParseError)
      | _ -> Err ParseError)
   | _ -> Err ParseError)
| None -> Val N0

(** val parse_query : parsed -> query result **)

let parse_query = function
| PParserError -> Err ParseError
| POtherError -> Err Fatal
| POk stmts ->
  if PeanoNat.Nat.ltb (S O) (length stmts)
  then Err ParseError
  else (match stmts with
        | [] -> Err ParseError
        | s :: _ ->
          (match s with
           | StQuery (b, ob, lc) ->
             bind (get_query_components b ob lc) (fun c ->
               bind (get_projection c.c_projection) (fun projection ->
                 bind (get_table_name c.c_relation) (fun table ->
                   bind
                     (match c.c_selection with
                      | Some s0 -> convert_expr s0
                      | None -> Val (Const (RInt (Zpos Coq_xH))))
                     (fun filter ->
                     bind (get_order_by c.c_order_by) (fun order ->
                       bind (get_limit c.c_limit) (fun limit ->
                         bind (get_offset c.c_offset) (fun offset -> Val
                           { q_select = projection; q_table = table;
                           q_filter = filter; q_order_by = order; q_limit =
                           limit; q_offset = offset })))))))
           | StOther -> Err ParseError))

(** val output_names : query -> bytes list **)

let output_names q =
  map (fun c -> c.ci_name) q.q_select

type normal_form = { nf_projection : column_info list;
                     nf_aggregate : (aggregator * column_info) list;
                     nf_filter : nexpr; nf_order_by : (nexpr * bool) list;
                     nf_limit : coq_N; nf_offset : coq_N }

type result_column =
| Proj of nat
| Agg of nat

(** val uint_bytes : uint -> bytes **)

let rec uint_bytes = function
| Nil -> []
| D0 r ->
  (Npos (Coq_xO (Coq_xO (Coq_xO (Coq_xO (Coq_xI Coq_xH)))))) :: (uint_bytes r)
| D1 r ->
  (Npos (Coq_xI (Coq_xO (Coq_xO (Coq_xO (Coq_xI Coq_xH)))))) :: (uint_bytes r)
| D2 r ->
  (Npos (Coq_xO (Coq_xI (Coq_xO (Coq_xO (Coq_xI Coq_xH)))))) :: (uint_bytes r)
| D3 r ->
  (Npos (Coq_xI (Coq_xI (Coq_xO (Coq_xO (Coq_xI Coq_xH)))))) :: (uint_bytes r)
| D4 r ->
  (Npos (Coq_xO (Coq_xO (Coq_xI (Coq_xO (Coq_xI Coq_xH)))))) :: (uint_bytes r)
| D5 r ->
  (Npos (Coq_xI (Coq_xO (Coq_xI (Coq_xO (Coq_xI Coq_xH)))))) :: (uint_bytes r)
| D6 r ->
  (Npos (Coq_xO (Coq_xI (Coq_xI (Coq_xO (Coq_xI Coq_xH)))))) :: (uint_bytes r)
| D7 r ->
  (Npos (Coq_xI (Coq_xI (Coq_xI (Coq_xO (Coq_xI Coq_xH)))))) :: (uint_bytes r)
| D8 r ->
  (Npos (Coq_xO (Coq_xO (Coq_xO (Coq_xI (Coq_xI Coq_xH)))))) :: (uint_bytes r)
| D9 r ->
  (Npos (Coq_xI (Coq_xO (Coq_xO (Coq_xI (Coq_xI Coq_xH)))))) :: (uint_bytes r)

(** val nat_dec : nat -> bytes **)

let nat_dec n =
  uint_bytes (PeanoNat.Nat.to_uint n)

(** val cs_name : nat -> bytes **)

let cs_name k =
  app ((Npos (Coq_xI (Coq_xI (Coq_xI (Coq_xI (Coq_xI (Coq_xO
    Coq_xH))))))) :: ((Npos (Coq_xI (Coq_xI (Coq_xO (Coq_xO (Coq_xO (Coq_xI
    Coq_xH))))))) :: ((Npos (Coq_xI (Coq_xI (Coq_xO (Coq_xO (Coq_xI (Coq_xI
    Coq_xH))))))) :: []))) (nat_dec k)

(** val ca_name : nat -> bytes **)

let ca_name k =
  app ((Npos (Coq_xI (Coq_xI (Coq_xI (Coq_xI (Coq_xI (Coq_xO
    Coq_xH))))))) :: ((Npos (Coq_xI (Coq_xI (Coq_xO (Coq_xO (Coq_xO (Coq_xI
    Coq_xH))))))) :: ((Npos (Coq_xI (Coq_xO (Coq_xO (Coq_xO (Coq_xO (Coq_xI
    Coq_xH))))))) :: []))) (nat_dec k)

(** val intermediary_col : bytes **)

let intermediary_col =
  (Npos (Coq_xI (Coq_xO (Coq_xO (Coq_xI (Coq_xO (Coq_xO
    Coq_xH))))))) :: ((Npos (Coq_xO (Coq_xI (Coq_xI (Coq_xI (Coq_xO (Coq_xO
    Coq_xH))))))) :: ((Npos (Coq_xO (Coq_xO (Coq_xI (Coq_xO (Coq_xI (Coq_xO
    Coq_xH))))))) :: ((Npos (Coq_xI (Coq_xO (Coq_xI (Coq_xO (Coq_xO (Coq_xO
    Coq_xH))))))) :: ((Npos (Coq_xO (Coq_xI (Coq_xO (Coq_xO (Coq_xI (Coq_xO
    Coq_xH))))))) :: ((Npos (Coq_xI (Coq_xO (Coq_xI (Coq_xI (Coq_xO (Coq_xO
    Coq_xH))))))) :: ((Npos (Coq_xI (Coq_xO (Coq_xI (Coq_xO (Coq_xO (Coq_xO
    Coq_xH))))))) :: ((Npos (Coq_xO (Coq_xO (Coq_xI (Coq_xO (Coq_xO (Coq_xO
    Coq_xH))))))) :: ((Npos (Coq_xI (Coq_xO (Coq_xO (Coq_xI (Coq_xO (Coq_xO
    Coq_xH))))))) :: ((Npos (Coq_xI (Coq_xO (Coq_xO (Coq_xO (Coq_xO (Coq_xO
    Coq_xH))))))) :: ((Npos (Coq_xO (Coq_xI (Coq_xO (Coq_xO (Coq_xI (Coq_xO
    Coq_xH))))))) :: ((Npos (Coq_xI (Coq_xO (Coq_xO (Coq_xI (Coq_xI (Coq_xO
    Coq_xH))))))) :: ((Npos (Coq_xI (Coq_xI (Coq_xI (Coq_xI (Coq_xI (Coq_xO
    Coq_xH))))))) :: ((Npos (Coq_xI (Coq_xI (Coq_xO (Coq_xO (Coq_xO (Coq_xO
    Coq_xH))))))) :: ((Npos (Coq_xI (Coq_xI (Coq_xI (Coq_xI (Coq_xO (Coq_xO
    Coq_xH))))))) :: ((Npos (Coq_xO (Coq_xO (Coq_xI (Coq_xI (Coq_xO (Coq_xO
    Coq_xH))))))) :: [])))))))))))))))

(** val has_aggregate : nexpr -> bool **)

let rec has_aggregate = function
| Func1 (_, x) -> has_aggregate x
| Func2 (_, x, y) -> (||) (has_aggregate x) (has_aggregate y)
| Aggregate (_, _) -> true
| _ -> false

(** val extract_aggregators :
    nexpr -> nat -> bytes -> ((nexpr * (aggregator * column_info)
    list) * nat) result **)

let rec extract_aggregators e k alias =
  match e with
  | Func1 (f, x) ->
    bind (extract_aggregators x k alias) (fun r ->
      let (p, k') = r in let (x', ags) = p in Val (((Func1 (f, x')), ags), k'))
  | Func2 (f, x, y) ->
    bind (extract_aggregators x k alias) (fun r1 ->
      let (p, k1) = r1 in
      let (x', a1) = p in
      bind (extract_aggregators y k1 alias) (fun r2 ->
        let (p0, k2) = r2 in
        let (y', a2) = p0 in Val (((Func2 (f, x', y')), (app a1 a2)), k2)))
  | Aggregate (a, x) ->
    if has_aggregate x
    then Err TypeError
    else Val (((ColName (ca_name k)), ((a, { ci_expr = x; ci_name =
           alias }) :: [])), (S k))
  | _ -> Val ((e, []), k)

type nstate = { ns_final_projection : column_info list;
                ns_select : column_info list;
                ns_aggregate : (aggregator * column_info) list;
                ns_kagg : nat; ns_ksel : nat; ns_ordering : result_column list }

(** val nstate0 : nstate **)

let nstate0 =
  { ns_final_projection = []; ns_select = []; ns_aggregate = []; ns_kagg = O;
    ns_ksel = O; ns_ordering = [] }

(** val normalize_item : nstate -> column_info -> nstate result **)

let normalize_item st c =
  bind (extract_aggregators c.ci_expr st.ns_kagg c.ci_name) (fun r ->
    let (p, k') = r in
    let (full, ags) = p in
    (match ags with
     | [] ->
       Val { ns_final_projection =
         (app st.ns_final_projection ({ ci_expr = (ColName
           (cs_name st.ns_ksel)); ci_name = c.ci_name } :: [])); ns_select =
         (app st.ns_select ({ ci_expr = full; ci_name = c.ci_name } :: []));
         ns_aggregate = st.ns_aggregate; ns_kagg = k'; ns_ksel = (S
         st.ns_ksel); ns_ordering =
         (app st.ns_ordering ((Proj (length st.ns_select)) :: [])) }
     | _ :: _ ->
       Val { ns_final_projection =
         (app st.ns_final_projection ({ ci_expr = full; ci_name =
           c.ci_name } :: [])); ns_select = st.ns_select; ns_aggregate =
         (app st.ns_aggregate ags); ns_kagg = k'; ns_ksel = st.ns_ksel;
         ns_ordering =
         (app st.ns_ordering ((Agg (length st.ns_aggregate)) :: [])) }))

(** val normalize_items : nstate -> column_info list -> nstate result **)

let rec normalize_items st = function
| [] -> Val st
| c :: r -> bind (normalize_item st c) (fun st' -> normalize_items st' r)

(** val normalize_order_item :
    (nstate * (nexpr * bool) list) -> (nexpr * bool) ->
    (nstate * (nexpr * bool) list) result **)

let normalize_order_item acc o =
  let (st, fob) = acc in
  let (e, desc) = o in
  bind (extract_aggregators e st.ns_kagg intermediary_col) (fun r ->
    let (p, k') = r in
    let (full, ags) = p in
    (match ags with
     | [] ->
       let name = cs_name st.ns_ksel in
       Val ({ ns_final_projection = st.ns_final_projection; ns_select =
       (app st.ns_select ({ ci_expr = full; ci_name = name } :: []));
       ns_aggregate = st.ns_aggregate; ns_kagg = k'; ns_ksel = (S
       st.ns_ksel); ns_ordering = st.ns_ordering },
       (app fob (((ColName name), desc) :: [])))
     | _ :: _ ->
       Val ({ ns_final_projection = st.ns_final_projection; ns_select =
         st.ns_select; ns_aggregate = (app st.ns_aggregate ags); ns_kagg =
         k'; ns_ksel = st.ns_ksel; ns_ordering = st.ns_ordering },
         (app fob ((full, desc) :: [])))))

(** val normalize_order :
    (nstate * (nexpr * bool) list) -> (nexpr * bool) list ->
    (nstate * (nexpr * bool) list) result **)

let rec normalize_order acc = function
| [] -> Val acc
| o :: r ->
  bind (normalize_order_item acc o) (fun acc' -> normalize_order acc' r)

(** val is_colname : nexpr -> bool **)

let is_colname = function
| ColName _ -> true
| _ -> false

(** val is_nil : 'a1 list -> bool **)

let is_nil = function
| [] -> true
| _ :: _ -> false

(** val normalize :
    query -> ((normal_form * normal_form option) * result_column list) result **)

let normalize q =
  bind (normalize_items nstate0 q.q_select) (fun st ->
    let nontrivial =
      existsb (fun c -> negb (is_colname c.ci_expr)) st.ns_final_projection
    in
    let sort_after =
      (&&) (negb (is_nil st.ns_aggregate)) (negb (is_nil q.q_order_by))
    in
    if (||) sort_after nontrivial
    then bind (normalize_order (st, []) q.q_order_by) (fun acc ->
           let (st', fob) = acc in
           Val (({ nf_projection = st'.ns_select; nf_aggregate =
           st'.ns_aggregate; nf_filter = q.q_filter; nf_order_by = [];
           nf_limit = u64_max; nf_offset = N0 }, (Some { nf_projection =
           st'.ns_final_projection; nf_aggregate = []; nf_filter = (Const
           (RInt (Zpos Coq_xH))); nf_order_by = fob; nf_limit = q.q_limit;
           nf_offset = q.q_offset })),
           (map (fun x -> Proj x) (seq O (length st'.ns_final_projection)))))
    else Val (({ nf_projection = st.ns_select; nf_aggregate =
           st.ns_aggregate; nf_filter = q.q_filter; nf_order_by =
           q.q_order_by; nf_limit = q.q_limit; nf_offset = q.q_offset },
           None), st.ns_ordering))

(** val parse_and_normalize :
    parsed -> ((normal_form * normal_form option) * result_column list) result **)

let parse_and_normalize p =
  bind (parse_query p) normalize

(** val output_slice : coq_N -> coq_N -> coq_N -> coq_N * coq_N **)

let output_slice limit offset len =
  let o = N.min offset len in (o, (N.min limit (N.sub len o)))

(** val combined_limit : coq_N -> coq_N -> coq_N **)

let combined_limit limit offset =
  N.min (N.add limit offset) u64_max
