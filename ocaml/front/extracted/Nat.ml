open Datatypes

(** val sub : nat -> nat -> nat **)

let rec sub n m =
  match n with
  | O -> n
  | S k -> (match m with
            | O -> n
            | S l -> sub k l)
