open BinNat
open BinNums
open Datatypes
open Frontend
open List

(** val is_none : 'a1 option -> bool **)

let is_none = function
| Some _ -> false
| None -> true

(** val is_cont : coq_N -> bool **)

let is_cont b =
  (&&)
    (N.leb (Npos (Coq_xO (Coq_xO (Coq_xO (Coq_xO (Coq_xO (Coq_xO (Coq_xO
      Coq_xH)))))))) b)
    (N.ltb b (Npos (Coq_xO (Coq_xO (Coq_xO (Coq_xO (Coq_xO (Coq_xO (Coq_xI
      Coq_xH)))))))))

(** val valid_utf8 : bytes -> bool **)

let rec valid_utf8 = function
| [] -> true
| b :: r ->
  if N.ltb b (Npos (Coq_xO (Coq_xO (Coq_xO (Coq_xO (Coq_xO (Coq_xO (Coq_xO
       Coq_xH))))))))
  then valid_utf8 r
  else if (&&)
            (N.leb (Npos (Coq_xO (Coq_xI (Coq_xO (Coq_xO (Coq_xO (Coq_xO
              (Coq_xI Coq_xH)))))))) b)
            (N.ltb b (Npos (Coq_xO (Coq_xO (Coq_xO (Coq_xO (Coq_xO (Coq_xI
              (Coq_xI Coq_xH)))))))))
       then (match r with
             | [] -> false
             | c1 :: r1 -> (&&) (is_cont c1) (valid_utf8 r1))
       else if (&&)
                 (N.leb (Npos (Coq_xO (Coq_xO (Coq_xO (Coq_xO (Coq_xO (Coq_xI
                   (Coq_xI Coq_xH)))))))) b)
                 (N.ltb b (Npos (Coq_xO (Coq_xO (Coq_xO (Coq_xO (Coq_xI
                   (Coq_xI (Coq_xI Coq_xH)))))))))
            then (match r with
                  | [] -> false
                  | c1 :: l ->
                    (match l with
                     | [] -> false
                     | c2 :: r2 ->
                       (&&) ((&&) (is_cont c1) (is_cont c2)) (valid_utf8 r2)))
            else if (&&)
                      (N.leb (Npos (Coq_xO (Coq_xO (Coq_xO (Coq_xO (Coq_xI
                        (Coq_xI (Coq_xI Coq_xH)))))))) b)
                      (N.ltb b (Npos (Coq_xI (Coq_xO (Coq_xI (Coq_xO (Coq_xI
                        (Coq_xI (Coq_xI Coq_xH)))))))))
                 then (match r with
                       | [] -> false
                       | c1 :: l ->
                         (match l with
                          | [] -> false
                          | c2 :: l0 ->
                            (match l0 with
                             | [] -> false
                             | c3 :: r3 ->
                               (&&)
                                 ((&&) ((&&) (is_cont c1) (is_cont c2))
                                   (is_cont c3)) (valid_utf8 r3))))
                 else false

(** val number_ok : value -> bool **)

let number_ok = function
| VNumber (text, f64) -> negb ((&&) (is_none (parse_i64 text)) (is_none f64))
| _ -> true

(** val expr_wf : expr -> bool **)

let rec expr_wf = function
| EBinary (_, l, r) -> (&&) (expr_wf l) (expr_wf r)
| EUnary (_, x) -> expr_wf x
| EValue v -> number_ok v
| ENested x -> expr_wf x
| EFunction (_, args) -> fargs_wf args
| EIsNull x -> expr_wf x
| EIsNotNull x -> expr_wf x
| ELike (_, x, p, _) -> (&&) (expr_wf x) (expr_wf p)
| EFloor x -> expr_wf x
| _ -> true

(** val farg_wf : farg -> bool **)

and farg_wf = function
| FAExpr e -> expr_wf e
| _ -> true

(** val fargs_wf : fargs -> bool **)

and fargs_wf = function
| FList1 x -> farg_wf x
| FList2 (x, y) -> (&&) (farg_wf x) (farg_wf y)
| _ -> true

(** val item_wf : select_item -> bool **)

let item_wf = function
| SIUnnamed (e, display) -> (&&) (expr_wf e) (valid_utf8 display)
| SIAlias (e, alias) -> (&&) (expr_wf e) (valid_utf8 alias)
| _ -> true

(** val relation_wf : from_item -> bool **)

let relation_wf f =
  match f.fi_relation with
  | TFTable display -> valid_utf8 display
  | TFOther -> true

(** val opt_expr_wf : expr option -> bool **)

let opt_expr_wf = function
| Some e -> expr_wf e
| None -> true

(** val order_wf : order_by -> bool **)

let order_wf = function
| OBExprs l -> forallb (fun p -> expr_wf (fst p)) l
| _ -> true

(** val statement_wf : statement -> bool **)

let statement_wf = function
| StQuery (b, ob, _) ->
  (match b with
   | BdSelect s ->
     (&&)
       ((&&)
         ((&&) (forallb item_wf s.s_projection)
           (forallb relation_wf s.s_from)) (opt_expr_wf s.s_selection))
       (order_wf ob)
   | BdOther -> true)
| StOther -> true

(** val parser_output : parsed -> bool **)

let parser_output = function
| POk stmts -> forallb statement_wf stmts
| _ -> true
