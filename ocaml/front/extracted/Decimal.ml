
type uint =
| Nil
| D0 of uint
| D1 of uint
| D2 of uint
| D3 of uint
| D4 of uint
| D5 of uint
| D6 of uint
| D7 of uint
| D8 of uint
| D9 of uint

(** val revapp : uint -> uint -> uint **)

let rec revapp d d' =
  match d with
  | Nil -> d'
  | D0 d0 -> revapp d0 (D0 d')
  | D1 d0 -> revapp d0 (D1 d')
  | D2 d0 -> revapp d0 (D2 d')
  | D3 d0 -> revapp d0 (D3 d')
  | D4 d0 -> revapp d0 (D4 d')
  | D5 d0 -> revapp d0 (D5 d')
  | D6 d0 -> revapp d0 (D6 d')
  | D7 d0 -> revapp d0 (D7 d')
  | D8 d0 -> revapp d0 (D8 d')
  | D9 d0 -> revapp d0 (D9 d')

(** val rev : uint -> uint **)

let rev d =
  revapp d Nil

module Little =
 struct
  (** val succ : uint -> uint **)

  let rec succ = function
  | Nil -> D1 Nil
  | D0 d0 -> D1 d0
  | D1 d0 -> D2 d0
  | D2 d0 -> D3 d0
  | D3 d0 -> D4 d0
  | D4 d0 -> D5 d0
  | D5 d0 -> D6 d0
  | D6 d0 -> D7 d0
  | D7 d0 -> D8 d0
  | D8 d0 -> D9 d0
  | D9 d0 -> D0 (succ d0)
 end
