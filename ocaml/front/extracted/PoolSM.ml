open Datatypes
open List
open Nat

type req =
| RQuery
| RIngest
| RFlush
| RStats

type held =
| HNone
| HIngest
| HTable
| HIngestTable

type obs =
| OOk
| OErr
| OCallerPanic of held
| OCanceled of nat
| OHang of nat * held
| OFlushLost

type db = { alive : nat; ingest_poisoned : bool; table_poisoned : bool;
            flush_dead : bool }

(** val poison : db -> held -> db **)

let poison d = function
| HNone -> d
| HIngest ->
  { alive = d.alive; ingest_poisoned = true; table_poisoned =
    d.table_poisoned; flush_dead = d.flush_dead }
| HTable ->
  { alive = d.alive; ingest_poisoned = d.ingest_poisoned; table_poisoned =
    true; flush_dead = d.flush_dead }
| HIngestTable ->
  { alive = d.alive; ingest_poisoned = true; table_poisoned = true;
    flush_dead = d.flush_dead }

(** val lose : db -> nat -> db **)

let lose d n =
  { alive = (sub d.alive n); ingest_poisoned = d.ingest_poisoned;
    table_poisoned = d.table_poisoned; flush_dead = d.flush_dead }

(** val kill_flush : db -> db **)

let kill_flush d =
  { alive = d.alive; ingest_poisoned = d.ingest_poisoned; table_poisoned =
    d.table_poisoned; flush_dead = true }

(** val apply_obs : db -> req -> obs -> db **)

let apply_obs d r = function
| OCallerPanic h -> poison d h
| OCanceled n -> lose d n
| OHang (n, h) ->
  let d' = poison (lose d n) h in
  (match r with
   | RFlush -> kill_flush d'
   | _ -> d')
| OFlushLost -> kill_flush (poison d HIngest)
| _ -> d

(** val predict : db -> req -> obs **)

let predict d = function
| RQuery -> if PeanoNat.Nat.eqb d.alive O then OHang (O, HNone) else OOk
| RIngest -> if d.ingest_poisoned then OCallerPanic HNone else OOk
| RFlush ->
  if (||) d.flush_dead d.ingest_poisoned
  then OHang (O, HNone)
  else if d.table_poisoned then OFlushLost else OOk
| RStats ->
  if PeanoNat.Nat.eqb d.alive O
  then OHang (O, HNone)
  else if d.table_poisoned then OCanceled (S O) else OOk

(** val is_hang : obs -> bool **)

let is_hang = function
| OHang (_, _) -> true
| _ -> false

(** val canaries : req list **)

let canaries =
  RIngest :: (RFlush :: (RQuery :: (RStats :: [])))

(** val run_canaries : db -> req list -> db * obs list **)

let rec run_canaries d = function
| [] -> (d, [])
| r :: t ->
  let o = predict d r in
  let d' = apply_obs d r o in
  if (&&) (is_hang o) (match r with
                       | RQuery -> true
                       | _ -> false)
  then (d', (o :: []))
  else let (d2, os) = run_canaries d' t in (d2, (o :: os))

(** val apply_round : db -> (req * obs) list -> db **)

let apply_round d round =
  fold_left (fun d0 ro -> apply_obs d0 (fst ro) (snd ro)) round d

(** val run : db -> (req * obs) list list -> db * obs list list **)

let rec run d = function
| [] -> (d, [])
| rd :: rest ->
  let d1 = apply_round d rd in
  let (d2, os) = run_canaries d1 canaries in
  if existsb is_hang os
  then (d2, (os :: []))
  else let (d3, oss) = run d2 rest in (d3, (os :: oss))

(** val consistent : db -> req -> obs -> bool **)

let consistent d r o =
  match r with
  | RQuery ->
    (match o with
     | OOk -> negb (PeanoNat.Nat.eqb d.alive O)
     | OCanceled _ -> negb (PeanoNat.Nat.eqb d.alive O)
     | _ -> true)
  | RIngest ->
    (match o with
     | OOk -> negb d.ingest_poisoned
     | OErr -> negb d.ingest_poisoned
     | _ -> true)
  | RFlush ->
    (match o with
     | OOk ->
       negb ((||) ((||) d.flush_dead d.ingest_poisoned) d.table_poisoned)
     | OErr ->
       negb ((||) ((||) d.flush_dead d.ingest_poisoned) d.table_poisoned)
     | _ -> true)
  | RStats ->
    (match o with
     | OOk -> (&&) (negb (PeanoNat.Nat.eqb d.alive O)) (negb d.table_poisoned)
     | OCanceled _ -> negb (PeanoNat.Nat.eqb d.alive O)
     | _ -> true)

(** val run_checked : db -> (req * obs) list list -> obs list option list **)

let rec run_checked d = function
| [] -> []
| rd :: rest ->
  if forallb (fun ro -> consistent d (fst ro) (snd ro)) rd
  then let d1 = apply_round d rd in
       let (d2, os) = run_canaries d1 canaries in
       (Some os) :: (if existsb is_hang os then [] else run_checked d2 rest)
  else None :: []
