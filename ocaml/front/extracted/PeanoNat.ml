open Datatypes
open Decimal

module Nat =
 struct
  (** val eqb : nat -> nat -> bool **)

  let rec eqb n m =
    match n with
    | O -> (match m with
            | O -> true
            | S _ -> false)
    | S n' -> (match m with
               | O -> false
               | S m' -> eqb n' m')

  (** val leb : nat -> nat -> bool **)

  let rec leb n m =
    match n with
    | O -> true
    | S n' -> (match m with
               | O -> false
               | S m' -> leb n' m')

  (** val ltb : nat -> nat -> bool **)

  let ltb n m =
    leb (S n) m

  (** val compare : nat -> nat -> comparison **)

  let rec compare n m =
    match n with
    | O -> (match m with
            | O -> Eq
            | S _ -> Lt)
    | S n' -> (match m with
               | O -> Gt
               | S m' -> compare n' m')

  (** val to_little_uint : nat -> uint -> uint **)

  let rec to_little_uint n acc =
    match n with
    | O -> acc
    | S n0 -> to_little_uint n0 (Little.succ acc)

  (** val to_uint : nat -> uint **)

  let to_uint n =
    rev (to_little_uint n (D0 Nil))
 end
