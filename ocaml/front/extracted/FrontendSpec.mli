open BinNat
open BinNums
open Datatypes
open Frontend
open List

val is_none : 'a1 option -> bool

val is_cont : coq_N -> bool

val valid_utf8 : bytes -> bool

val number_ok : value -> bool

val expr_wf : expr -> bool

val farg_wf : farg -> bool

val fargs_wf : fargs -> bool

val item_wf : select_item -> bool

val relation_wf : from_item -> bool

val opt_expr_wf : expr option -> bool

val order_wf : order_by -> bool

val statement_wf : statement -> bool

val parser_output : parsed -> bool
