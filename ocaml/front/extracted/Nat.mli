open Datatypes

val sub : nat -> nat -> nat
