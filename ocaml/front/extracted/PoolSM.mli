open Datatypes
open List
open Nat

type req =
| RQuery
| RIngest
| RFlush
| RStats

type held =
| HNone
| HIngest
| HTable
| HIngestTable

type obs =
| OOk
| OErr
| OCallerPanic of held
| OCanceled of nat
| OHang of nat * held
| OFlushLost

type db = { alive : nat; ingest_poisoned : bool; table_poisoned : bool;
            flush_dead : bool }

val poison : db -> held -> db

val lose : db -> nat -> db

val kill_flush : db -> db

val apply_obs : db -> req -> obs -> db

val predict : db -> req -> obs

val is_hang : obs -> bool

val canaries : req list

val run_canaries : db -> req list -> db * obs list

val apply_round : db -> (req * obs) list -> db

val run : db -> (req * obs) list list -> db * obs list list

val consistent : db -> req -> obs -> bool

val run_checked : db -> (req * obs) list list -> obs list option list
