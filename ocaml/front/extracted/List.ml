open Datatypes

(** val nth_error : 'a1 list -> nat -> 'a1 option **)

let rec nth_error l = function
| O -> (match l with
        | [] -> None
        | x :: _ -> Some x)
| S n0 -> (match l with
           | [] -> None
           | _ :: l0 -> nth_error l0 n0)

(** val map : ('a1 -> 'a2) -> 'a1 list -> 'a2 list **)

let rec map f = function
| [] -> []
| a :: t -> (f a) :: (map f t)

(** val fold_left : ('a1 -> 'a2 -> 'a1) -> 'a2 list -> 'a1 -> 'a1 **)

let rec fold_left f l a0 =
  match l with
  | [] -> a0
  | b :: t -> fold_left f t (f a0 b)

(** val existsb : ('a1 -> bool) -> 'a1 list -> bool **)

let rec existsb f = function
| [] -> false
| a :: l0 -> (||) (f a) (existsb f l0)

(** val forallb : ('a1 -> bool) -> 'a1 list -> bool **)

let rec forallb f = function
| [] -> true
| a :: l0 -> (&&) (f a) (forallb f l0)

(** val firstn : nat -> 'a1 list -> 'a1 list **)

let rec firstn n l =
  match n with
  | O -> []
  | S n0 -> (match l with
             | [] -> []
             | a :: l0 -> a :: (firstn n0 l0))

(** val skipn : nat -> 'a1 list -> 'a1 list **)

let rec skipn n l =
  match n with
  | O -> l
  | S n0 -> (match l with
             | [] -> []
             | _ :: l0 -> skipn n0 l0)

(** val seq : nat -> nat -> nat list **)

let rec seq start = function
| O -> []
| S len0 -> start :: (seq (S start) len0)
