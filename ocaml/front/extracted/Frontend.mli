open BinInt
open BinNat
open BinNums
open Datatypes
open Decimal
open List
open Nat

type bytes = coq_N list

type err_kind =
| ParseError
| NotImplemented
| Fatal
| TypeError

type panic_site =
| PSStripBoundary
| PSFloatUnwrap

type 'a result =
| Val of 'a
| Err of err_kind
| Panic of panic_site

val bind : 'a1 result -> ('a1 -> 'a2 result) -> 'a2 result

type binop =
| BAnd
| BPlus
| BMinus
| BMultiply
| BDivide
| BModulo
| BGt
| BGtEq
| BLt
| BLtEq
| BEq
| BNotEq
| BOr
| BOther

type unop =
| UNot
| UMinus
| UOther

type value =
| VNumber of bytes * coq_N option
| VSQString of bytes
| VNull
| VOther

type expr =
| EBinary of binop * expr * expr
| EUnary of unop * expr
| EValue of value
| EIdent of bytes
| ENested of expr
| EFunction of bytes * fargs
| EIsNull of expr
| EIsNotNull of expr
| ELike of bool * expr * expr * bool
| EFloor of expr
| EOther
and farg =
| FAExpr of expr
| FANamed
| FAWildcard
| FAQualifiedWildcard
| FAOther
and fargs =
| FNone
| FSubquery
| FList1 of farg
| FList2 of farg * farg
| FListN of nat

type select_item =
| SIUnnamed of expr * bytes
| SIAlias of expr * bytes
| SIWildcard
| SIOther

type table_factor =
| TFTable of bytes
| TFOther

type from_item = { fi_relation : table_factor; fi_joins : nat }

type group_by =
| GBExprs of nat * nat
| GBAll

type order_by =
| OBNone
| OBExprs of (expr * bool option) list
| OBAll

type limit_clause =
| LCNone
| LCLimitOffset of expr option * expr option
| LCOther

type select = { s_distinct : bool; s_projection : select_item list;
                s_from : from_item list; s_selection : expr option;
                s_group_by : group_by; s_having : bool }

type body =
| BdSelect of select
| BdOther

type statement =
| StQuery of body * order_by * limit_clause
| StOther

type parsed =
| PParserError
| POtherError
| POk of statement list

type func2 =
| Equals
| NotEquals
| LT
| LTE
| GT
| GTE
| And
| Or
| Add
| Subtract
| Multiply
| Divide
| Modulo
| RegexMatch
| Like
| NotLike

type func1 =
| Negate
| ToYear
| Not
| IsNull
| IsNotNull
| Length
| Floor

type aggregator =
| Count
| SumI64
| MaxI64
| MinI64

type rawval =
| RInt of coq_Z
| RFloat of coq_N
| RStr of bytes
| RNull

type nexpr =
| ColName of bytes
| Const of rawval
| Func1 of func1 * nexpr
| Func2 of func2 * nexpr * nexpr
| Aggregate of aggregator * nexpr

type column_info = { ci_expr : nexpr; ci_name : bytes }

type query = { q_select : column_info list; q_table : bytes;
               q_filter : nexpr; q_order_by : (nexpr * bool) list;
               q_limit : coq_N; q_offset : coq_N }

val u64_max : coq_N

val i64_max : coq_N

val i64_min_abs : coq_N

val is_digit : coq_N -> bool

val digits_val : coq_N -> bytes -> coq_N option

val digits : bytes -> coq_N option

val parse_u64 : bytes -> coq_N option

val parse_i64 : bytes -> coq_Z option

val is_char_boundary : bytes -> nat -> bool

val last_byte : bytes -> coq_N option

val quoted_by : coq_N -> bytes -> bool

val strip_quotes : bytes -> bytes result

val map_binary_operator : binop -> func2 result

val map_unary_operator : unop -> func1 result

val get_raw_val : value -> rawval result

val n_TO_YEAR : bytes

val n_REGEX : bytes

val n_LENGTH : bytes

val n_COUNT : bytes

val n_SUM : bytes

val n_AVG : bytes

val n_MAX : bytes

val n_MIN : bytes

val bytes_eqb : bytes -> bytes -> bool

type fkind =
| FToYear
| FRegex
| FLength
| FCount
| FSum
| FAvg
| FMax
| FMin
| FUnknown

val function_kind : bytes -> fkind

val convert_expr : expr -> nexpr result

val convert_farg : farg -> nexpr result

type components = { c_projection : select_item list;
                    c_relation : table_factor option;
                    c_selection : expr option;
                    c_order_by : (expr * bool option) list option;
                    c_limit : expr option; c_offset : expr option }

val get_query_components :
  body -> order_by -> limit_clause -> components result

val star : bytes

val convert_item : select_item -> column_info result

val get_projection : select_item list -> column_info list result

val get_table_name : table_factor option -> bytes result

val get_order_by_list :
  (expr * bool option) list -> (nexpr * bool) list result

val get_order_by :
  (expr * bool option) list option -> (nexpr * bool) list result

val get_limit : expr option -> coq_N result

val get_offset : expr option -> coq_N result

val parse_query : parsed -> query result

val output_names : query -> bytes list

type normal_form = { nf_projection : column_info list;
                     nf_aggregate : (aggregator * column_info) list;
                     nf_filter : nexpr; nf_order_by : (nexpr * bool) list;
                     nf_limit : coq_N; nf_offset : coq_N }

type result_column =
| Proj of nat
| Agg of nat

val uint_bytes : uint -> bytes

val nat_dec : nat -> bytes

val cs_name : nat -> bytes

val ca_name : nat -> bytes

val intermediary_col : bytes

val has_aggregate : nexpr -> bool

val extract_aggregators :
  nexpr -> nat -> bytes -> ((nexpr * (aggregator * column_info) list) * nat)
  result

type nstate = { ns_final_projection : column_info list;
                ns_select : column_info list;
                ns_aggregate : (aggregator * column_info) list;
                ns_kagg : nat; ns_ksel : nat; ns_ordering : result_column list }

val nstate0 : nstate

val normalize_item : nstate -> column_info -> nstate result

val normalize_items : nstate -> column_info list -> nstate result

val normalize_order_item :
  (nstate * (nexpr * bool) list) -> (nexpr * bool) ->
  (nstate * (nexpr * bool) list) result

val normalize_order :
  (nstate * (nexpr * bool) list) -> (nexpr * bool) list ->
  (nstate * (nexpr * bool) list) result

val is_colname : nexpr -> bool

val is_nil : 'a1 list -> bool

val normalize :
  query -> ((normal_form * normal_form option) * result_column list) result

val parse_and_normalize :
  parsed -> ((normal_form * normal_form option) * result_column list) result

val output_slice : coq_N -> coq_N -> coq_N -> coq_N * coq_N

val combined_limit : coq_N -> coq_N -> coq_N
