(* stdin : one case per line   <entry> TAB <input sexp>
   stdout: one line per case   <output sexp>        (or "!ERR <msg>") *)
let main (run : string -> Sx.t -> Sx.t) : unit =
  try
    while true do
      let line = input_line stdin in
      match String.index_opt line '\t' with
      | None -> print_endline "!ERR no tab"
      | Some i ->
          let entry = String.sub line 0 i in
          let rest = String.sub line (i + 1) (String.length line - i - 1) in
          (try print_endline (Sx.to_string (run entry (Sx.parse rest)))
           with
           | Conv.Conv m -> print_endline ("!ERR conv " ^ m)
           | Sx.Parse m -> print_endline ("!ERR parse " ^ m)
           | Stack_overflow -> print_endline "!ERR stack overflow"
           | e -> print_endline ("!ERR exn " ^ Printexc.to_string e))
    done
  with End_of_file -> ()
