(* Minimal s-expression syntax shared with the Rust harness:
   atom  = [^ ()\t\n]+      list = "(" item* ")"      items separated by single spaces.
   Integers are decimal atoms; byte strings are atoms "x" followed by hex digits. *)
type t = A of string | L of t list

exception Parse of string

let parse (s : string) : t =
  let n = String.length s in
  let pos = ref 0 in
  let rec skip () = if !pos < n && s.[!pos] = ' ' then (incr pos; skip ()) in
  let rec item () =
    skip ();
    if !pos >= n then raise (Parse "eof")
    else if s.[!pos] = '(' then begin
      incr pos;
      let acc = ref [] in
      let rec loop () =
        skip ();
        if !pos >= n then raise (Parse "unclosed")
        else if s.[!pos] = ')' then incr pos
        else (acc := item () :: !acc; loop ())
      in
      loop ();
      L (Stdlib.List.rev !acc)
    end else begin
      let st = !pos in
      while !pos < n && s.[!pos] <> ' ' && s.[!pos] <> '(' && s.[!pos] <> ')' do incr pos done;
      if !pos = st then raise (Parse "empty atom");
      A (String.sub s st (!pos - st))
    end
  in
  let r = item () in
  skip ();
  if !pos <> n then raise (Parse "trailing");
  r

let rec print (b : Buffer.t) (x : t) : unit =
  match x with
  | A a -> Buffer.add_string b a
  | L l ->
      Buffer.add_char b '(';
      Stdlib.List.iteri (fun i y -> if i > 0 then Buffer.add_char b ' '; print b y) l;
      Buffer.add_char b ')'

let to_string x = let b = Buffer.create 256 in print b x; Buffer.contents b
