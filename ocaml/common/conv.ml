(* Conversions between the harness syntax and the extracted Coq number types (trusted glue). *)
open BinNums
open Sx

exception Conv of string

let rec pos_of_z (z : Z.t) : positive =
  if Z.equal z Z.one then Coq_xH
  else if Z.is_even z then Coq_xO (pos_of_z (Z.shift_right z 1))
  else Coq_xI (pos_of_z (Z.shift_right z 1))

let rec z_of_pos (p : positive) : Z.t =
  match p with
  | Coq_xH -> Z.one
  | Coq_xO q -> Z.shift_left (z_of_pos q) 1
  | Coq_xI q -> Z.succ (Z.shift_left (z_of_pos q) 1)

let n_of_z (z : Z.t) : coq_N =
  if Z.sign z < 0 then raise (Conv "negative N") else
  if Z.sign z = 0 then N0 else Npos (pos_of_z z)
let z_of_n (n : coq_N) : Z.t = match n with N0 -> Z.zero | Npos p -> z_of_pos p

let cz_of_z (z : Z.t) : coq_Z =
  if Z.sign z = 0 then Z0 else if Z.sign z > 0 then Zpos (pos_of_z z) else Zneg (pos_of_z (Z.neg z))
let z_of_cz (z : coq_Z) : Z.t =
  match z with Z0 -> Z.zero | Zpos p -> z_of_pos p | Zneg p -> Z.neg (z_of_pos p)

let rec nat_of_int (i : int) : Datatypes.nat = if i <= 0 then Datatypes.O else Datatypes.S (nat_of_int (i - 1))
let rec int_of_nat (n : Datatypes.nat) : int = match n with Datatypes.O -> 0 | Datatypes.S m -> 1 + int_of_nat m

let atom = function A a -> a | L _ -> raise (Conv "expected atom")
let lst = function L l -> l | A a -> raise (Conv ("expected list, got " ^ a))

let to_n (x : Sx.t) : coq_N = n_of_z (Z.of_string (atom x))
let to_z (x : Sx.t) : coq_Z = cz_of_z (Z.of_string (atom x))
let to_int (x : Sx.t) : int = int_of_string (atom x)
let to_bool (x : Sx.t) : bool = match atom x with "true" -> true | "false" -> false | _ -> raise (Conv "bool")
let of_n (n : coq_N) : Sx.t = A (Z.to_string (z_of_n n))
let of_z (z : coq_Z) : Sx.t = A (Z.to_string (z_of_cz z))
let of_bool (b : bool) : Sx.t = A (if b then "true" else "false")
let of_int (i : int) : Sx.t = A (string_of_int i)
let to_list f x = Stdlib.List.map f (lst x)
let of_list f l = L (Stdlib.List.map f l)
let to_opt f x = match x with A "none" -> None | L [A "some"; y] -> Some (f y) | _ -> raise (Conv "option")
let of_opt f o = match o with None -> A "none" | Some y -> L [A "some"; f y]

(* byte strings: atom "x<hex>" <-> list of N (each < 256) *)
let to_bytes (x : Sx.t) : coq_N list =
  let a = atom x in
  if String.length a < 1 || a.[0] <> 'x' || (String.length a - 1) mod 2 <> 0 then raise (Conv "bytes");
  let n = (String.length a - 1) / 2 in
  Stdlib.List.init n (fun i -> n_of_z (Z.of_int (int_of_string ("0x" ^ String.sub a (1 + 2 * i) 2))))
let of_bytes (l : coq_N list) : Sx.t =
  let b = Buffer.create 64 in
  Buffer.add_char b 'x';
  Stdlib.List.iter (fun n -> Buffer.add_string b (Printf.sprintf "%02x" (Z.to_int (z_of_n n)))) l;
  A (Buffer.contents b)
