(* lvmodel (col cluster): evaluates the extracted Coq models of the column write path / decoders.
   stdin : one case per line   <entry> TAB <input sexp>
   stdout: one line per case   <output sexp>        (or "!ERR <msg>") *)
open Sx
open Conv
open CodecBase

(* bytes <-> list of Coq Z *)
let to_zbytes (x : Sx.t) : BinNums.coq_Z list =
  let a = atom x in
  if String.length a < 1 || a.[0] <> 'x' || (String.length a - 1) mod 2 <> 0 then raise (Conv "bytes");
  let n = (String.length a - 1) / 2 in
  List.init n (fun i -> cz_of_z (Z.of_int (int_of_string ("0x" ^ String.sub a (1 + 2 * i) 2))))
let of_zbytes (l : BinNums.coq_Z list) : Sx.t =
  let b = Buffer.create 64 in
  Buffer.add_char b 'x';
  List.iter (fun n -> Buffer.add_string b (Printf.sprintf "%02x" ((Z.to_int (z_of_cz n)) land 255))) l;
  A (Buffer.contents b)

let of_site (s : site) : Sx.t =
  A (match s with
     | SubOverflow -> "sub-overflow"
     | AddOverflow -> "add-overflow"
     | EncodeUnreachable -> "encode-unreachable"
     | OutOfBounds -> "out-of-bounds"
     | BadStack -> "bad-stack"
     | Unsupported -> "unsupported"
     | HexDecode -> "hex-decode"
     | OutOfFuel -> "out-of-fuel")

let of_result f (r : 'a result) : Sx.t =
  match r with Val a -> f a | Panic s -> L [A "panic"; of_site s]

let of_etype (t : etype) : Sx.t =
  A (match t with EU8 -> "u8" | EU16 -> "u16" | EU32 -> "u32" | EU64 -> "u64" | EI64 -> "i64")

let of_op (o : codec_op) : Sx.t =
  match o with
  | OpNullable -> A "nullable"
  | OpAdd (t, x) -> L [A "add"; of_etype t; of_z x]
  | OpDelta t -> L [A "delta"; of_etype t]
  | OpToI64 t -> L [A "toi64"; of_etype t]
  | OpPush i -> L [A "push"; of_int (int_of_nat i)]
  | OpDict t -> L [A "dict"; of_etype t]
  | OpUnpack -> A "unpack"
  | OpUnhex (u, n) -> L [A "unhex"; of_bool u; of_z n]

let of_section (s : section) : Sx.t =
  match s with
  | SInts (EU8, l) -> L [A "u8"; of_zbytes l]
  | SInts (t, l) -> L [of_etype t; of_list of_z l]
  | SF64 l -> L [A "f64"; of_list of_z l]
  | SNull n -> L [A "null"; of_z n]
  | SBitvec l -> L [A "bitvec"; of_zbytes l]

let of_column (c : column) : Sx.t =
  L [A "col"; of_z c.c_len;
     of_opt (fun (a, b) -> L [of_z a; of_z b]) c.c_range;
     of_list of_op c.c_ops; of_list of_section c.c_data]

let of_cell (c : cell) : Sx.t =
  match c with
  | CInt z -> L [A "i"; of_z z]
  | CFloat b -> L [A "f"; of_z b]
  | CStr s -> L [A "s"; of_zbytes s]
  | CNull -> A "null"

(* the f64 Display table supplied by the harness: ((bits x<string>) ...) *)
let f2s_of (x : Sx.t) : BinNums.coq_Z -> BinNums.coq_Z list =
  let h = Hashtbl.create 16 in
  List.iter (function
      | L [b; s] -> Hashtbl.replace h (atom b) (to_zbytes s)
      | _ -> raise (Conv "f2s table")) (lst x);
  fun bits ->
    let k = Z.to_string (z_of_cz bits) in
    match Hashtbl.find_opt h k with
    | Some s -> s
    | None -> raise (Conv ("no Display string supplied for float pattern " ^ k))

let to_present (x : Sx.t) = to_opt to_zbytes x

let to_push_op (x : Sx.t) : ColumnBuffer.push_op =
  match x with
  | L [A "ints"; xs; p] -> ColumnBuffer.PInts (to_list to_z xs, to_present p)
  | L [A "floats"; xs; p] -> ColumnBuffer.PFloats (to_list to_z xs, to_present p)
  | L [A "strs"; xs; p] -> ColumnBuffer.PStrs (to_list to_zbytes xs, to_present p)
  | L [A "nulls"; n] -> ColumnBuffer.PNulls (to_z n)
  | _ -> raise (Conv "push op")

let to_rawval (x : Sx.t) : ColumnBuffer.rawval =
  match x with
  | L [A "i"; z] -> ColumnBuffer.RInt (to_z z)
  | L [A "f"; b] -> ColumnBuffer.RFloat (to_z b)
  | L [A "s"; s] -> ColumnBuffer.RStr (to_zbytes s)
  | A "null" -> ColumnBuffer.RNull
  | _ -> raise (Conv "rawval")

let to_pair (x : Sx.t) = match x with L [a; b] -> (to_z a, to_z b) | _ -> raise (Conv "pair")

let to_coldata (x : Sx.t) : Ingest.coldata =
  match x with
  | A "empty" -> Ingest.CDEmpty
  | L [A "dense"; l] -> Ingest.CDDense (to_list to_z l)
  | L [A "sparse"; l] -> Ingest.CDSparse (to_list to_pair l)
  | L [A "i64"; l] -> Ingest.CDI64 (to_list to_z l)
  | L [A "sparse-i64"; l] -> Ingest.CDSparseI64 (to_list to_pair l)
  | L [A "string"; l] -> Ingest.CDString (to_list to_zbytes l)
  | L [A "mixed"; l] -> Ingest.CDMixed (to_list to_rawval l)
  | _ -> raise (Conv "coldata")

let to_item (x : Sx.t) : Ingest.coldata option * BinNums.coq_Z =
  match x with
  | L [cd; rows] -> (to_opt to_coldata cd, to_z rows)
  | _ -> raise (Conv "batch item")

let run (entry : string) (inp : Sx.t) : Sx.t =
  match entry, inp with
  (* (f2s ops) -> the finished column *)
  | "col_build", L [tbl; ops] ->
      let f2s = f2s_of tbl in
      let cb = ColumnBuffer.run_pushes f2s (ColumnBuffer.colbuf_null BinNums.Z0) (to_list to_push_op ops) in
      of_result of_column (ColumnBuffer.finalize f2s cb)
  (* (f2s ops) -> cells through the query-path decoder *)
  | "col_cells", L [tbl; ops] ->
      of_result (of_list of_cell) (Ingest.stored (f2s_of tbl) (to_list to_push_op ops))
  (* (f2s ops) -> specification *)
  | "col_expected", L [tbl; ops] ->
      of_list of_cell (Ingest.expected (f2s_of tbl) (to_list to_push_op ops))
  (* (f2s items) -> cells of one column of one table buffer through from_column_data / push_typed_cols *)
  | "api_cells", L [tbl; items] ->
      (match Ingest.col_ops false BinNums.Z0 (to_list to_item items) with
       | None -> A "rejected"
       | Some ops -> of_result (of_list of_cell) (Ingest.stored (f2s_of tbl) ops))
  | "api_expected", L [tbl; items] ->
      (match Ingest.col_ops false BinNums.Z0 (to_list to_item items) with
       | None -> A "rejected"
       | Some ops -> of_list of_cell (Ingest.expected (f2s_of tbl) ops))
  (* (f2s (segment ...)) with segment = (item ...): one column of a table over several table buffers.
     A buffer in which no batch mentions the column has no such column: SELECT yields NULL for its rows. *)
  | "api_table_col", L [tbl; segs] ->
      let f2s = f2s_of tbl in
      let exception Stop of Sx.t in
      (try
         let cells = List.concat_map (fun seg ->
           let items = to_list to_item seg in
           (* a table buffer with zero rows is skipped by ingest_efficient: it mentions nothing *)
           if List.for_all (fun (cd, rows) -> cd = None || Z.sign (z_of_cz rows) = 0) items then
             let n = List.fold_left (fun acc (_, rows) -> acc + Z.to_int (z_of_cz rows)) 0 items in
             List.init n (fun _ -> A "null")
           else
             match Ingest.col_ops false BinNums.Z0 items with
             | None -> raise (Stop (A "rejected"))
             | Some ops ->
               (match Ingest.stored f2s ops with
                | Val cs -> List.map of_cell cs
                | Panic s -> raise (Stop (L [A "panic"; of_site s])))) (lst segs) in
         L cells
       with Stop x -> x)
  (* C07 column level: (f2s (part-ops ...)): every part is built by the column writer, then the parts
     are decoded by the free decoder and re-pushed into one buffer as compaction does *)
  | ("c07_compact" | "c07_cells"), L [tbl; parts] ->
      let f2s = f2s_of tbl in
      let exception Stop of Sx.t in
      (try
         let cols = List.map (fun ops ->
           let cb = ColumnBuffer.run_pushes f2s (ColumnBuffer.colbuf_null BinNums.Z0) (to_list to_push_op ops) in
           match ColumnBuffer.finalize f2s cb with
           | Val c -> c
           | Panic s -> raise (Stop (L [A "part-panic"; of_site s]))) (lst parts) in
         match CompactionDecode.compact_column f2s cols with
         | Panic s -> L [A "panic"; of_site s]
         | Val c ->
           if entry = "c07_compact" then of_column c
           else of_result (of_list of_cell) (Codec.column_cells c)
       with Stop x -> x)
  | "i64_to_f64", z -> of_z (FloatEnc.i64_to_f64 (to_z z))
  | "i64_to_string", z -> of_zbytes (ColumnBuffer.i64_to_string (to_z z))
  | _ -> raise (Conv ("unknown entry or bad input shape: " ^ entry))

let () = Loop.main run
