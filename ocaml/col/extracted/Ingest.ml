open BinInt
open BinNums
open Codec
open CodecBase
open ColumnBuffer
open Datatypes
open FloatEnc
open List0
open StrEnc

type coldata =
| CDEmpty
| CDDense of coq_Z list
| CDSparse of (coq_Z * coq_Z) list
| CDI64 of coq_Z list
| CDSparseI64 of (coq_Z * coq_Z) list
| CDString of str list
| CDMixed of rawval list

type input_col =
| ICInt of coq_Z list
| ICFloat of coq_Z list
| ICNullableFloat of coq_Z * (coq_Z * coq_Z) list
| ICNullableInt of coq_Z * (coq_Z * coq_Z) list
| ICStr of str list
| ICNull of coq_Z
| ICMixed of rawval list

(** val enumerate : coq_Z -> 'a1 list -> (coq_Z * 'a1) list **)

let rec enumerate i = function
| [] -> []
| a :: r -> (i, a) :: (enumerate (Z.add i (Zpos Coq_xH)) r)

(** val from_column_data : coldata -> coq_Z -> input_col option **)

let from_column_data cd rows =
  match cd with
  | CDEmpty -> Some (ICNull rows)
  | CDDense fs ->
    Some
      (if Z.ltb (zlen fs) rows
       then ICNullableFloat (rows, (enumerate Z0 fs))
       else ICFloat fs)
  | CDSparse l -> Some (ICNullableFloat (rows, l))
  | CDI64 xs ->
    Some
      (if Z.ltb (zlen xs) rows
       then ICNullableInt (rows, (enumerate Z0 xs))
       else ICInt xs)
  | CDSparseI64 l -> Some (ICNullableInt (rows, l))
  | CDString ss ->
    if Z.ltb (zlen ss) rows
    then Some (ICMixed
           (app (map (fun x -> RStr x) ss)
             (repeat RNull (Z.to_nat (Z.sub rows (zlen ss))))))
    else if Z.eqb (zlen ss) rows then Some (ICStr ss) else None
  | CDMixed vs -> Some (ICMixed vs)

(** val sparse_ops :
    (coq_Z -> push_op) -> coq_Z -> coq_Z -> (coq_Z * coq_Z) list -> push_op
    list option **)

let rec sparse_ops mk c next_i = function
| [] ->
  if Z.ltb c next_i then None else Some ((PNulls (Z.sub c next_i)) :: [])
| p :: r ->
  let (i, v) = p in
  if Z.ltb i next_i
  then None
  else (match sparse_ops mk c (Z.add i (Zpos Coq_xH)) r with
        | Some ops -> Some ((PNulls (Z.sub i next_i)) :: ((mk v) :: ops))
        | None -> None)

(** val ops_of_input : input_col -> push_op list option **)

let ops_of_input = function
| ICInt xs -> Some ((PInts (xs, None)) :: [])
| ICFloat fs -> Some ((PFloats (fs, None)) :: [])
| ICNullableFloat (c, l) ->
  sparse_ops (fun f -> PFloats ((f :: []), None)) c Z0 l
| ICNullableInt (c, l) -> sparse_ops (fun i -> PInts ((i :: []), None)) c Z0 l
| ICStr ss -> Some ((PStrs (ss, None)) :: [])
| ICNull n -> Some ((PNulls n) :: [])
| ICMixed vs -> Some (map op_of_val vs)

type batch_item = coldata option * coq_Z

(** val col_ops : bool -> coq_Z -> batch_item list -> push_op list option **)

let rec col_ops created before = function
| [] -> Some []
| b :: r ->
  let (cd, rows) = b in
  if Z.eqb rows Z0
  then col_ops created before r
  else (match cd with
        | Some cd0 ->
          (match from_column_data cd0 rows with
           | Some ic ->
             (match ops_of_input ic with
              | Some o1 ->
                (match col_ops true (Z.add before rows) r with
                 | Some o2 ->
                   Some
                     (app (if created then [] else (PNulls before) :: [])
                       (app o1 o2))
                 | None -> None)
              | None -> None)
           | None -> None)
        | None ->
          (match col_ops created (Z.add before rows) r with
           | Some ops -> Some (if created then (PNulls rows) :: ops else ops)
           | None -> None))

type kind =
| KEmpty
| KInt
| KFloat
| KStr
| KMixed

(** val mask_new : coq_Z list option -> cell list -> cell list **)

let mask_new np cs =
  match np with
  | Some p -> mask_cells p Z0 cs
  | None -> cs

(** val int_to_float_cell : cell -> cell **)

let int_to_float_cell c = match c with
| CInt i -> CFloat (i64_to_f64 i)
| _ -> c

(** val to_string_cell : (coq_Z -> str) -> cell -> cell **)

let to_string_cell f2s c = match c with
| CInt i -> CStr (i64_to_string i)
| CFloat f -> CStr (f2s f)
| _ -> c

(** val spec_push :
    (coq_Z -> str) -> (kind * cell list) -> push_op -> kind * cell list **)

let spec_push f2s st op =
  let (k, cs) = st in
  (match op with
   | PInts (xs, np) ->
     (match k with
      | KEmpty -> (KInt, (app cs (mask_new np (map (fun x -> CInt x) xs))))
      | KInt -> (KInt, (app cs (mask_new np (map (fun x -> CInt x) xs))))
      | KFloat ->
        (KFloat,
          (app cs (mask_new np (map (fun i -> CFloat (i64_to_f64 i)) xs))))
      | _ ->
        (KMixed,
          (app cs (mask_new np (map (fun i -> CStr (i64_to_string i)) xs)))))
   | PFloats (fs, np) ->
     (match k with
      | KEmpty ->
        (KFloat, (app cs (mask_new np (map (fun x -> CFloat x) fs))))
      | KInt ->
        (KFloat,
          (app (map int_to_float_cell cs)
            (mask_new np (map (fun x -> CFloat x) fs))))
      | KFloat ->
        (KFloat, (app cs (mask_new np (map (fun x -> CFloat x) fs))))
      | _ -> (KMixed, (app cs (mask_new np (map (fun f -> CStr (f2s f)) fs)))))
   | PStrs (ss, np) ->
     (match k with
      | KEmpty -> (KStr, (app cs (mask_new np (map (fun x -> CStr x) ss))))
      | KStr -> (KStr, (app cs (mask_new np (map (fun x -> CStr x) ss))))
      | _ ->
        (KMixed,
          (app (map (to_string_cell f2s) cs)
            (mask_new np (map (fun x -> CStr x) ss)))))
   | PNulls n -> (k, (app cs (repeat CNull (Z.to_nat n)))))

(** val expected : (coq_Z -> str) -> push_op list -> cell list **)

let expected f2s ops =
  snd (fold_left (spec_push f2s) ops (KEmpty, []))

(** val stored : (coq_Z -> str) -> push_op list -> cell list result **)

let stored f2s ops =
  bind (finalize f2s (run_pushes f2s (colbuf_null Z0) ops)) column_cells
