open BinInt
open BinNums
open CodecBase
open Datatypes
open List0

type dvec =
| DInts of etype * coq_Z list
| DF64 of coq_Z list
| DStr of coq_Z list list
| DNullV of coq_Z
| DBits of coq_Z list

type sval =
| Plain of dvec
| WithNulls of dvec * coq_Z list

val of_section : section -> sval

val delta_decode : coq_Z -> coq_Z list -> coq_Z list result

val add_all : coq_Z -> coq_Z list -> coq_Z list result

val slice : 'a1 list -> coq_Z -> coq_Z -> 'a1 list result

val dict_entry : coq_Z list -> coq_Z list -> coq_Z -> coq_Z list result

val dict_lookup :
  coq_Z list -> coq_Z list -> coq_Z list -> coq_Z list list result

val read_len : coq_Z -> coq_Z list -> (coq_Z * coq_Z list) result

val unpack : nat -> coq_Z list -> coq_Z list list result

val unpack_strings : coq_Z list -> coq_Z list list result

val hex_digit : bool -> coq_Z -> coq_Z

val hex_encode : bool -> coq_Z list -> coq_Z list

val unhexpack_strings : bool -> coq_Z list -> coq_Z list list result

val ints_of : dvec -> coq_Z list result

val bytes_of : dvec -> coq_Z list result

val lift_ints : (coq_Z list -> coq_Z list result) -> sval -> sval result

val step : section list -> codec_op -> sval list -> sval list result

val run_ops : section list -> codec_op list -> sval list -> sval list result

val decode_column : column -> sval result

val cells_plain : dvec -> cell list

val mask_cells : coq_Z list -> coq_Z -> cell list -> cell list

val cells_of : sval -> cell list

val column_cells : column -> cell list result
