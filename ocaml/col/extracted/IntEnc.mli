open BinInt
open BinNums
open CodecBase
open Datatypes
open List0

type istats = { st_min : coq_Z; st_max : coq_Z; st_incr : coq_Z;
                st_allow : bool; st_last : coq_Z; st_seen : bool }

val istats_init : istats

val istats_push : istats -> coq_Z -> istats

val istats_push_all : istats -> coq_Z list -> istats

val delta_decision : istats -> coq_Z -> bool

val delta_loop :
  coq_Z -> coq_Z -> coq_Z -> coq_Z list -> (coq_Z list * (coq_Z * coq_Z))
  result

val delta_transform :
  coq_Z list -> coq_Z -> coq_Z -> (coq_Z list * (coq_Z * coq_Z)) result

val interval : coq_Z -> coq_Z -> coq_Z result

val wmax : etype -> coq_Z

val choose : coq_Z -> coq_Z -> coq_Z -> (etype * coq_Z) option

val encode_vals : etype -> coq_Z -> coq_Z list -> coq_Z list result

val int_codec : etype -> coq_Z -> bool -> bool -> codec_op list

val with_null : section -> coq_Z list option -> section list

val create_col :
  etype -> coq_Z list -> coq_Z -> coq_Z -> coq_Z -> bool -> coq_Z list option
  -> column result

val i64_codec : bool -> bool -> codec_op list

val new_boxed :
  coq_Z list -> coq_Z -> coq_Z -> bool -> coq_Z list option -> column result

val int_finalize : coq_Z list -> istats -> coq_Z list option -> column result
