open BinInt
open BinNums
open Datatypes
open List0

type site =
| SubOverflow
| AddOverflow
| EncodeUnreachable
| OutOfBounds
| BadStack
| Unsupported
| HexDecode
| OutOfFuel

type 'a result =
| Val of 'a
| Panic of site

val bind : 'a1 result -> ('a1 -> 'a2 result) -> 'a2 result

val mapM : ('a1 -> 'a2 result) -> 'a1 list -> 'a2 list result

val i64_min : coq_Z

val i64_max : coq_Z

val in_i64 : coq_Z -> bool

val sub64 : coq_Z -> coq_Z -> coq_Z result

val add64 : coq_Z -> coq_Z -> coq_Z result

val zlen : 'a1 list -> coq_Z

val bv_get : coq_Z list -> coq_Z -> bool

val bv_set_slot : coq_Z list -> nat -> coq_Z -> coq_Z list

val bv_set : coq_Z list -> coq_Z -> coq_Z list

val bv_set_run : coq_Z list -> coq_Z -> nat -> coq_Z list

val bv_set_masked :
  coq_Z list -> coq_Z list -> coq_Z -> coq_Z -> nat -> coq_Z list

type etype =
| EU8
| EU16
| EU32
| EU64
| EI64

val etype_eqb : etype -> etype -> bool

type section =
| SInts of etype * coq_Z list
| SF64 of coq_Z list
| SNull of coq_Z
| SBitvec of coq_Z list

type codec_op =
| OpNullable
| OpAdd of etype * coq_Z
| OpDelta of etype
| OpToI64 of etype
| OpPush of nat
| OpDict of etype
| OpUnpack
| OpUnhex of bool * coq_Z

type column = { c_len : coq_Z; c_range : (coq_Z * coq_Z) option;
                c_ops : codec_op list; c_data : section list }

val column_null : coq_Z -> column

type cell =
| CInt of coq_Z
| CFloat of coq_Z
| CStr of coq_Z list
| CNull
