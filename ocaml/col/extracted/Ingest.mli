open BinInt
open BinNums
open Codec
open CodecBase
open ColumnBuffer
open Datatypes
open FloatEnc
open List0
open StrEnc

type coldata =
| CDEmpty
| CDDense of coq_Z list
| CDSparse of (coq_Z * coq_Z) list
| CDI64 of coq_Z list
| CDSparseI64 of (coq_Z * coq_Z) list
| CDString of str list
| CDMixed of rawval list

type input_col =
| ICInt of coq_Z list
| ICFloat of coq_Z list
| ICNullableFloat of coq_Z * (coq_Z * coq_Z) list
| ICNullableInt of coq_Z * (coq_Z * coq_Z) list
| ICStr of str list
| ICNull of coq_Z
| ICMixed of rawval list

val enumerate : coq_Z -> 'a1 list -> (coq_Z * 'a1) list

val from_column_data : coldata -> coq_Z -> input_col option

val sparse_ops :
  (coq_Z -> push_op) -> coq_Z -> coq_Z -> (coq_Z * coq_Z) list -> push_op
  list option

val ops_of_input : input_col -> push_op list option

type batch_item = coldata option * coq_Z

val col_ops : bool -> coq_Z -> batch_item list -> push_op list option

type kind =
| KEmpty
| KInt
| KFloat
| KStr
| KMixed

val mask_new : coq_Z list option -> cell list -> cell list

val int_to_float_cell : cell -> cell

val to_string_cell : (coq_Z -> str) -> cell -> cell

val spec_push :
  (coq_Z -> str) -> (kind * cell list) -> push_op -> kind * cell list

val expected : (coq_Z -> str) -> push_op list -> cell list

val stored : (coq_Z -> str) -> push_op list -> cell list result
