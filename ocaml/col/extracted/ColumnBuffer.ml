open BinInt
open BinNums
open CodecBase
open Datatypes
open FloatEnc
open IntEnc
open List0
open StrEnc

type rawval =
| RInt of coq_Z
| RFloat of coq_Z
| RStr of str
| RNull

(** val dec_digits : nat -> coq_Z -> coq_Z list -> coq_Z list **)

let rec dec_digits fuel n acc =
  match fuel with
  | O -> acc
  | S f ->
    let acc' =
      (Z.add (Zpos (Coq_xO (Coq_xO (Coq_xO (Coq_xO (Coq_xI Coq_xH))))))
        (Z.modulo n (Zpos (Coq_xO (Coq_xI (Coq_xO Coq_xH)))))) :: acc
    in
    if Z.ltb n (Zpos (Coq_xO (Coq_xI (Coq_xO Coq_xH))))
    then acc'
    else dec_digits f (Z.div n (Zpos (Coq_xO (Coq_xI (Coq_xO Coq_xH))))) acc'

(** val i64_to_string : coq_Z -> str **)

let i64_to_string i =
  if Z.ltb i Z0
  then (Zpos (Coq_xI (Coq_xO (Coq_xI (Coq_xI (Coq_xO
         Coq_xH)))))) :: (dec_digits (S (S (S (S (S (S (S (S (S (S (S (S (S
                           (S (S (S (S (S (S (S O))))))))))))))))))))
                           (Z.opp i) [])
  else dec_digits (S (S (S (S (S (S (S (S (S (S (S (S (S (S (S (S (S (S (S (S
         O)))))))))))))))))))) i []

type tbuf =
| TEmpty
| TStr of str list
| TInt of coq_Z list * istats
| TFloat of coq_Z list
| TMixed of rawval list

type colbuf = { cb_buf : tbuf; cb_len : coq_Z; cb_present : coq_Z list option }

(** val colbuf_null : coq_Z -> colbuf **)

let colbuf_null len =
  { cb_buf = TEmpty; cb_len = len; cb_present = None }

type push_op =
| PInts of coq_Z list * coq_Z list option
| PFloats of coq_Z list * coq_Z list option
| PStrs of str list * coq_Z list option
| PNulls of coq_Z

(** val raw_to_string : (coq_Z -> str) -> rawval -> str option **)

let raw_to_string f2s = function
| RInt i -> Some (i64_to_string i)
| RFloat f -> Some (f2s f)
| RStr s -> Some s
| RNull -> None

(** val push_present :
    colbuf -> coq_Z list option -> nat -> coq_Z list option **)

let push_present cb new_present count =
  match cb.cb_present with
  | Some all ->
    (match new_present with
     | Some np -> Some (bv_set_masked all np cb.cb_len Z0 count)
     | None -> Some (bv_set_run all cb.cb_len count))
  | None -> None

(** val init_present_empty : colbuf -> coq_Z list option **)

let init_present_empty cb =
  if Z.ltb Z0 cb.cb_len
  then Some
         (repeat Z0
           (Z.to_nat
             (Z.div cb.cb_len (Zpos (Coq_xO (Coq_xO (Coq_xO Coq_xH)))))))
  else cb.cb_present

(** val zeros : coq_Z -> coq_Z list **)

let zeros n =
  repeat Z0 (Z.to_nat n)

(** val finish_push :
    colbuf -> tbuf -> coq_Z list option -> coq_Z list option -> nat -> colbuf **)

let finish_push cb buf pres0 new_present count =
  let cb' = { cb_buf = buf; cb_len = cb.cb_len; cb_present = pres0 } in
  { cb_buf = buf; cb_len = (Z.add cb.cb_len (Z.of_nat count)); cb_present =
  (push_present cb' new_present count) }

(** val push_ints : colbuf -> coq_Z list -> coq_Z list option -> colbuf **)

let push_ints cb xs np =
  match cb.cb_buf with
  | TEmpty ->
    let data = app (zeros cb.cb_len) xs in
    finish_push cb (TInt (data, (istats_push_all istats_init data)))
      (init_present_empty cb) np (length xs)
  | TStr values ->
    finish_push cb (TMixed
      (app (map (fun x -> RStr x) values) (map (fun x -> RInt x) xs)))
      cb.cb_present np (length xs)
  | TInt (data, st) ->
    finish_push cb (TInt ((app data xs), (istats_push_all st xs)))
      cb.cb_present np (length xs)
  | TFloat data ->
    finish_push cb (TFloat (app data (map i64_to_f64 xs))) cb.cb_present np
      (length xs)
  | TMixed data ->
    finish_push cb (TMixed (app data (map (fun x -> RInt x) xs)))
      cb.cb_present np (length xs)

(** val push_floats : colbuf -> coq_Z list -> coq_Z list option -> colbuf **)

let push_floats cb fs np =
  match cb.cb_buf with
  | TEmpty ->
    finish_push cb (TFloat (app (zeros cb.cb_len) fs))
      (init_present_empty cb) np (length fs)
  | TStr values ->
    finish_push cb (TMixed
      (app (map (fun x -> RStr x) values) (map (fun x -> RFloat x) fs)))
      cb.cb_present np (length fs)
  | TInt (data, _) ->
    finish_push cb (TFloat (app (map i64_to_f64 data) fs)) cb.cb_present np
      (length fs)
  | TFloat data ->
    finish_push cb (TFloat (app data fs)) cb.cb_present np (length fs)
  | TMixed data ->
    finish_push cb (TMixed (app data (map (fun x -> RFloat x) fs)))
      cb.cb_present np (length fs)

(** val push_strings :
    (coq_Z -> str) -> colbuf -> str list -> coq_Z list option -> colbuf **)

let push_strings f2s cb ss np =
  match cb.cb_buf with
  | TEmpty ->
    finish_push cb (TStr (app (repeat [] (Z.to_nat cb.cb_len)) ss))
      (init_present_empty cb) np (length ss)
  | TStr values ->
    finish_push cb (TStr (app values ss)) cb.cb_present np (length ss)
  | TInt (data, _) ->
    finish_push cb (TMixed
      (app (map (fun i -> RStr (i64_to_string i)) data)
        (map (fun x -> RStr x) ss))) cb.cb_present np (length ss)
  | TFloat data ->
    finish_push cb (TMixed
      (app (map (fun f -> RStr (f2s f)) data) (map (fun x -> RStr x) ss)))
      cb.cb_present np (length ss)
  | TMixed data ->
    finish_push cb (TMixed (app data (map (fun x -> RStr x) ss)))
      cb.cb_present np (length ss)

(** val all_present : coq_Z -> coq_Z list **)

let all_present len =
  bv_set_run
    (repeat (Zpos (Coq_xI (Coq_xI (Coq_xI (Coq_xI (Coq_xI (Coq_xI (Coq_xI
      Coq_xH))))))))
      (Z.to_nat (Z.div len (Zpos (Coq_xO (Coq_xO (Coq_xO Coq_xH)))))))
    (Z.mul (Z.div len (Zpos (Coq_xO (Coq_xO (Coq_xO Coq_xH))))) (Zpos (Coq_xO
      (Coq_xO (Coq_xO Coq_xH)))))
    (Z.to_nat
      (Z.sub len
        (Z.mul (Z.div len (Zpos (Coq_xO (Coq_xO (Coq_xO Coq_xH))))) (Zpos
          (Coq_xO (Coq_xO (Coq_xO Coq_xH)))))))

(** val push_nulls : colbuf -> coq_Z -> colbuf **)

let push_nulls cb count =
  match cb.cb_buf with
  | TEmpty ->
    { cb_buf = TEmpty; cb_len = (Z.add cb.cb_len count); cb_present =
      cb.cb_present }
  | TStr values ->
    let present =
      match cb.cb_present with
      | Some p -> Some p
      | None -> Some (all_present cb.cb_len)
    in
    let n = Z.to_nat count in
    let buf' = TStr (app values (repeat [] n)) in
    { cb_buf = buf'; cb_len = (Z.add cb.cb_len count); cb_present = present }
  | TInt (data, st) ->
    let present =
      match cb.cb_present with
      | Some p -> Some p
      | None -> Some (all_present cb.cb_len)
    in
    let n = Z.to_nat count in
    let buf' = TInt ((app data (repeat Z0 n)),
      (istats_push_all st (repeat Z0 n)))
    in
    { cb_buf = buf'; cb_len = (Z.add cb.cb_len count); cb_present = present }
  | TFloat data ->
    let present =
      match cb.cb_present with
      | Some p -> Some p
      | None -> Some (all_present cb.cb_len)
    in
    let n = Z.to_nat count in
    let buf' = TFloat (app data (repeat Z0 n)) in
    { cb_buf = buf'; cb_len = (Z.add cb.cb_len count); cb_present = present }
  | TMixed data ->
    let present =
      match cb.cb_present with
      | Some p -> Some p
      | None -> Some (all_present cb.cb_len)
    in
    let n = Z.to_nat count in
    let buf' = TMixed (app data (repeat RNull n)) in
    { cb_buf = buf'; cb_len = (Z.add cb.cb_len count); cb_present = present }

(** val push : (coq_Z -> str) -> colbuf -> push_op -> colbuf **)

let push f2s cb = function
| PInts (xs, p) -> push_ints cb xs p
| PFloats (fs, p) -> push_floats cb fs p
| PStrs (ss, p) -> push_strings f2s cb ss p
| PNulls n -> push_nulls cb n

(** val op_of_val : rawval -> push_op **)

let op_of_val = function
| RInt i -> PInts ((i :: []), None)
| RFloat f -> PFloats ((f :: []), None)
| RStr s -> PStrs ((s :: []), None)
| RNull -> PNulls (Zpos Coq_xH)

(** val mixed_strings : (coq_Z -> str) -> rawval list -> str list **)

let rec mixed_strings f2s = function
| [] -> []
| v :: r ->
  (match raw_to_string f2s v with
   | Some s -> s :: (mixed_strings f2s r)
   | None -> [] :: (mixed_strings f2s r))

(** val finalize : (coq_Z -> str) -> colbuf -> column result **)

let finalize f2s cb =
  match cb.cb_buf with
  | TEmpty -> Val (column_null cb.cb_len)
  | TStr values -> str_finalize values cb.cb_present
  | TInt (data, st) -> int_finalize data st cb.cb_present
  | TFloat data -> Val (float_new_boxed data cb.cb_present)
  | TMixed data -> str_finalize (mixed_strings f2s data) cb.cb_present

(** val run_pushes : (coq_Z -> str) -> colbuf -> push_op list -> colbuf **)

let run_pushes f2s cb ops =
  fold_left (push f2s) ops cb
