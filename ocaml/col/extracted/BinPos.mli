open BinNums
open Datatypes
open Nat

module Pos :
 sig
  val succ : positive -> positive

  val add : positive -> positive -> positive

  val add_carry : positive -> positive -> positive

  val pred_double : positive -> positive

  val pred_N : positive -> coq_N

  val mul : positive -> positive -> positive

  val iter : ('a1 -> 'a1) -> 'a1 -> positive -> 'a1

  val div2 : positive -> positive

  val div2_up : positive -> positive

  val size : positive -> positive

  val compare_cont : comparison -> positive -> positive -> comparison

  val compare : positive -> positive -> comparison

  val eqb : positive -> positive -> bool

  val coq_Nsucc_double : coq_N -> coq_N

  val coq_Ndouble : coq_N -> coq_N

  val coq_lor : positive -> positive -> positive

  val coq_land : positive -> positive -> coq_N

  val ldiff : positive -> positive -> coq_N

  val iter_op : ('a1 -> 'a1 -> 'a1) -> positive -> 'a1 -> 'a1

  val to_nat : positive -> nat

  val of_succ_nat : nat -> positive
 end
