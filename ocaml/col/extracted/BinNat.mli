open BinNums
open BinPos

module N :
 sig
  val succ_pos : coq_N -> positive

  val add : coq_N -> coq_N -> coq_N

  val coq_lor : coq_N -> coq_N -> coq_N

  val coq_land : coq_N -> coq_N -> coq_N

  val ldiff : coq_N -> coq_N -> coq_N
 end
