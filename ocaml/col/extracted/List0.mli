open Datatypes

val nth_error : 'a1 list -> nat -> 'a1 option

val rev : 'a1 list -> 'a1 list

val concat : 'a1 list list -> 'a1 list

val map : ('a1 -> 'a2) -> 'a1 list -> 'a2 list

val flat_map : ('a1 -> 'a2 list) -> 'a1 list -> 'a2 list

val fold_left : ('a1 -> 'a2 -> 'a1) -> 'a2 list -> 'a1 -> 'a1

val fold_right : ('a2 -> 'a1 -> 'a1) -> 'a1 -> 'a2 list -> 'a1

val forallb : ('a1 -> bool) -> 'a1 list -> bool

val firstn : nat -> 'a1 list -> 'a1 list

val skipn : nat -> 'a1 list -> 'a1 list

val repeat : 'a1 -> nat -> 'a1 list
