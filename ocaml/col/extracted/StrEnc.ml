open BinInt
open BinNums
open CodecBase
open Datatypes
open List0

type str = coq_Z list

(** val str_eqb : str -> str -> bool **)

let rec str_eqb a b =
  match a with
  | [] -> (match b with
           | [] -> true
           | _ :: _ -> false)
  | x :: a' ->
    (match b with
     | [] -> false
     | y :: b' -> (&&) (Z.eqb x y) (str_eqb a' b'))

(** val str_leb : str -> str -> bool **)

let rec str_leb a b =
  match a with
  | [] -> true
  | x :: a' ->
    (match b with
     | [] -> false
     | y :: b' ->
       if Z.ltb x y then true else if Z.ltb y x then false else str_leb a' b')

(** val mem : str -> str list -> bool **)

let rec mem s = function
| [] -> false
| x :: r -> (||) (str_eqb s x) (mem s r)

(** val is_digit : coq_Z -> bool **)

let is_digit c =
  (&&) (Z.leb (Zpos (Coq_xO (Coq_xO (Coq_xO (Coq_xO (Coq_xI Coq_xH)))))) c)
    (Z.leb c (Zpos (Coq_xI (Coq_xO (Coq_xO (Coq_xI (Coq_xI Coq_xH)))))))

(** val is_lhex_char : coq_Z -> bool **)

let is_lhex_char c =
  (||) (is_digit c)
    ((&&)
      (Z.leb (Zpos (Coq_xI (Coq_xO (Coq_xO (Coq_xO (Coq_xO (Coq_xI
        Coq_xH))))))) c)
      (Z.leb c (Zpos (Coq_xO (Coq_xI (Coq_xI (Coq_xO (Coq_xO (Coq_xI
        Coq_xH)))))))))

(** val is_uhex_char : coq_Z -> bool **)

let is_uhex_char c =
  (||) (is_digit c)
    ((&&)
      (Z.leb (Zpos (Coq_xI (Coq_xO (Coq_xO (Coq_xO (Coq_xO (Coq_xO
        Coq_xH))))))) c)
      (Z.leb c (Zpos (Coq_xO (Coq_xI (Coq_xI (Coq_xO (Coq_xO (Coq_xO
        Coq_xH)))))))))

(** val is_lowercase_hex : str -> bool **)

let is_lowercase_hex s =
  (&&) (Z.even (zlen s)) (forallb is_lhex_char s)

(** val is_uppercase_hex : str -> bool **)

let is_uppercase_hex s =
  (&&) (Z.even (zlen s)) (forallb is_uhex_char s)

(** val total_bytes : str list -> coq_Z **)

let total_bytes ss =
  fold_left (fun acc s -> Z.add acc (zlen s)) ss Z0

(** val hex_val : coq_Z -> coq_Z result **)

let hex_val c =
  if is_digit c
  then Val
         (Z.sub c (Zpos (Coq_xO (Coq_xO (Coq_xO (Coq_xO (Coq_xI Coq_xH)))))))
  else if (&&)
            (Z.leb (Zpos (Coq_xI (Coq_xO (Coq_xO (Coq_xO (Coq_xO (Coq_xI
              Coq_xH))))))) c)
            (Z.leb c (Zpos (Coq_xO (Coq_xI (Coq_xI (Coq_xO (Coq_xO (Coq_xI
              Coq_xH))))))))
       then Val
              (Z.sub c (Zpos (Coq_xI (Coq_xI (Coq_xI (Coq_xO (Coq_xI (Coq_xO
                Coq_xH))))))))
       else if (&&)
                 (Z.leb (Zpos (Coq_xI (Coq_xO (Coq_xO (Coq_xO (Coq_xO (Coq_xO
                   Coq_xH))))))) c)
                 (Z.leb c (Zpos (Coq_xO (Coq_xI (Coq_xI (Coq_xO (Coq_xO
                   (Coq_xO Coq_xH))))))))
            then Val
                   (Z.sub c (Zpos (Coq_xI (Coq_xI (Coq_xI (Coq_xO (Coq_xI
                     Coq_xH)))))))
            else Panic HexDecode

(** val hex_decode : str -> coq_Z list result **)

let rec hex_decode = function
| [] -> Val []
| a :: l ->
  (match l with
   | [] -> Panic HexDecode
   | b :: r ->
     bind (hex_val a) (fun h ->
       bind (hex_val b) (fun l0 ->
         bind (hex_decode r) (fun bs -> Val
           ((Z.add
              (Z.mul (Zpos (Coq_xO (Coq_xO (Coq_xO (Coq_xO Coq_xH))))) h) l0) :: bs)))))

(** val len_prefix : nat -> coq_Z -> coq_Z list **)

let rec len_prefix fuel len =
  match fuel with
  | O -> len :: []
  | S f ->
    if Z.ltb (Zpos (Coq_xO (Coq_xI (Coq_xI (Coq_xI (Coq_xI (Coq_xI (Coq_xI
         Coq_xH)))))))) len
    then (Zpos (Coq_xI (Coq_xI (Coq_xI (Coq_xI (Coq_xI (Coq_xI (Coq_xI
           Coq_xH)))))))) :: (len_prefix f
                               (Z.sub len (Zpos (Coq_xI (Coq_xI (Coq_xI
                                 (Coq_xI (Coq_xI (Coq_xI (Coq_xI
                                 Coq_xH))))))))))
    else len :: []

(** val pack_one : coq_Z list -> coq_Z list **)

let pack_one s =
  app
    (len_prefix (S
      (Z.to_nat
        (Z.div (zlen s) (Zpos (Coq_xI (Coq_xI (Coq_xI (Coq_xI (Coq_xI (Coq_xI
          (Coq_xI Coq_xH))))))))))) (zlen s)) s

(** val pack_all : coq_Z list list -> coq_Z list **)

let pack_all ss =
  flat_map pack_one ss

(** val ips_entries : coq_Z -> str list -> coq_Z list **)

let rec ips_entries off = function
| [] -> []
| s :: r ->
  (Z.add (Z.shiftl off (Zpos (Coq_xO (Coq_xO (Coq_xO (Coq_xI Coq_xH))))))
    (zlen s)) :: (ips_entries (Z.add off (zlen s)) r)

(** val ips_store : str list -> coq_Z list **)

let ips_store =
  concat

(** val scan_unique :
    str list -> coq_Z -> coq_Z -> str list -> bool * str list **)

let rec scan_unique seen nseen half = function
| [] -> (false, seen)
| s :: r ->
  if mem s seen
  then if Z.eqb nseen half
       then (true, seen)
       else scan_unique seen nseen half r
  else let seen' = s :: seen in
       let n' = Z.add nseen (Zpos Coq_xH) in
       if Z.eqb n' half then (true, seen') else scan_unique seen' n' half r

(** val insert_sorted : str -> str list -> str list **)

let rec insert_sorted s l = match l with
| [] -> s :: []
| x :: r -> if str_leb s x then s :: l else x :: (insert_sorted s r)

(** val sort_strs : str list -> str list **)

let sort_strs l =
  fold_right insert_sorted [] l

(** val index_of : str -> str list -> coq_Z -> coq_Z result **)

let rec index_of s l i =
  match l with
  | [] -> Panic OutOfBounds
  | x :: r ->
    if str_eqb s x then Val i else index_of s r (Z.add i (Zpos Coq_xH))

(** val dict_index_type : coq_Z -> etype **)

let dict_index_type dict_size =
  if Z.leb dict_size (Zpos (Coq_xI (Coq_xI (Coq_xI (Coq_xI (Coq_xI (Coq_xI
       (Coq_xI Coq_xH))))))))
  then EU8
  else if Z.leb dict_size (Zpos (Coq_xI (Coq_xI (Coq_xI (Coq_xI (Coq_xI
            (Coq_xI (Coq_xI (Coq_xI (Coq_xI (Coq_xI (Coq_xI (Coq_xI (Coq_xI
            (Coq_xI (Coq_xI Coq_xH))))))))))))))))
       then EU16
       else EU32

(** val fast_build_string_column :
    str list -> bool -> bool -> coq_Z -> coq_Z list option -> column result **)

let fast_build_string_column ss lhex uhex tbytes present =
  let len = zlen ss in
  let (early, seen) = scan_unique [] Z0 (Z.div len (Zpos (Coq_xO Coq_xH))) ss
  in
  if early
  then bind
         (if (&&) ((||) lhex uhex)
               (Z.ltb (Zpos (Coq_xI (Coq_xO Coq_xH))) (Z.div tbytes len))
          then bind (mapM hex_decode ss) (fun bs -> Val (((OpUnhex (uhex,
                 tbytes)) :: []), (SInts (EU8, (pack_all bs)))))
          else Val ((OpUnpack :: []), (SInts (EU8, (pack_all ss)))))
         (fun pat ->
         let (codec, data) = pat in
         (match present with
          | Some p ->
            Val { c_len = len; c_range = None; c_ops =
              (app codec ((OpPush (S O)) :: (OpNullable :: []))); c_data =
              (data :: ((SBitvec p) :: [])) }
          | None ->
            Val { c_len = len; c_range = None; c_ops = codec; c_data =
              (data :: []) }))
  else let dict = sort_strs seen in
       let dsize = zlen dict in
       let t = dict_index_type dsize in
       bind (mapM (fun s -> index_of s dict Z0) ss) (fun idx ->
         let sections = (SInts (t, idx)) :: ((SInts (EU64,
           (ips_entries Z0 dict))) :: ((SInts (EU8, (ips_store dict))) :: []))
         in
         (match present with
          | Some p ->
            Val { c_len = len; c_range = (Some (Z0, dsize)); c_ops = ((OpPush
              (S (S (S O)))) :: (OpNullable :: ((OpPush (S O)) :: ((OpPush (S
              (S O))) :: ((OpDict t) :: []))))); c_data =
              (app sections ((SBitvec p) :: [])) }
          | None ->
            Val { c_len = len; c_range = (Some (Z0, dsize)); c_ops = ((OpPush
              (S O)) :: ((OpPush (S (S O))) :: ((OpDict t) :: []))); c_data =
              sections }))

(** val str_finalize : str list -> coq_Z list option -> column result **)

let str_finalize ss present =
  fast_build_string_column ss (forallb is_lowercase_hex ss)
    (forallb is_uppercase_hex ss) (total_bytes ss) present
