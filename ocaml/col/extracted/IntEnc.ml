open BinInt
open BinNums
open CodecBase
open Datatypes
open List0

type istats = { st_min : coq_Z; st_max : coq_Z; st_incr : coq_Z;
                st_allow : bool; st_last : coq_Z; st_seen : bool }

(** val istats_init : istats **)

let istats_init =
  { st_min = i64_max; st_max = i64_min; st_incr = Z0; st_allow = true;
    st_last = i64_min; st_seen = false }

(** val istats_push : istats -> coq_Z -> istats **)

let istats_push st e =
  { st_min = (Z.min e st.st_min); st_max = (Z.max e st.st_max); st_incr =
    (if Z.ltb st.st_last e then Z.add st.st_incr (Zpos Coq_xH) else st.st_incr);
    st_allow =
    (if (&&) st.st_seen (negb (in_i64 (Z.sub e st.st_last)))
     then false
     else st.st_allow); st_last = e; st_seen = true }

(** val istats_push_all : istats -> coq_Z list -> istats **)

let istats_push_all st es =
  fold_left istats_push es st

(** val delta_decision : istats -> coq_Z -> bool **)

let delta_decision st len =
  (&&) st.st_allow
    (Z.ltb (Z.mul len (Zpos (Coq_xI (Coq_xO (Coq_xO Coq_xH)))))
      (Z.mul st.st_incr (Zpos (Coq_xO (Coq_xI (Coq_xO Coq_xH))))))

(** val delta_loop :
    coq_Z -> coq_Z -> coq_Z -> coq_Z list -> (coq_Z list * (coq_Z * coq_Z))
    result **)

let rec delta_loop prev mn mx = function
| [] -> Val ([], (mn, mx))
| c :: r ->
  bind (sub64 c prev) (fun d ->
    let mx' = if Z.ltb mx d then d else mx in
    let mn' = if Z.ltb d mn then d else mn in
    bind (delta_loop c mn' mx' r) (fun pat ->
      let (ds, mm) = pat in Val ((d :: ds), mm)))

(** val delta_transform :
    coq_Z list -> coq_Z -> coq_Z -> (coq_Z list * (coq_Z * coq_Z)) result **)

let delta_transform values mn mx =
  match values with
  | [] -> Val ([], (mn, mx))
  | v0 :: r ->
    bind (delta_loop v0 v0 v0 r) (fun pat ->
      let (ds, mm) = pat in Val ((v0 :: ds), mm))

(** val interval : coq_Z -> coq_Z -> coq_Z result **)

let interval mn mx =
  if (&&) (Z.ltb mn Z0) (Z.ltb Z0 mx)
  then Val (Z.add mx (Z.opp mn))
  else let d = Z.sub mx mn in
       Val
       (if Z.ltb d Z0
        then Z.add d (Zpos (Coq_xO (Coq_xO (Coq_xO (Coq_xO (Coq_xO (Coq_xO
               (Coq_xO (Coq_xO (Coq_xO (Coq_xO (Coq_xO (Coq_xO (Coq_xO
               (Coq_xO (Coq_xO (Coq_xO (Coq_xO (Coq_xO (Coq_xO (Coq_xO
               (Coq_xO (Coq_xO (Coq_xO (Coq_xO (Coq_xO (Coq_xO (Coq_xO
               (Coq_xO (Coq_xO (Coq_xO (Coq_xO (Coq_xO (Coq_xO (Coq_xO
               (Coq_xO (Coq_xO (Coq_xO (Coq_xO (Coq_xO (Coq_xO (Coq_xO
               (Coq_xO (Coq_xO (Coq_xO (Coq_xO (Coq_xO (Coq_xO (Coq_xO
               (Coq_xO (Coq_xO (Coq_xO (Coq_xO (Coq_xO (Coq_xO (Coq_xO
               (Coq_xO (Coq_xO (Coq_xO (Coq_xO (Coq_xO (Coq_xO (Coq_xO
               (Coq_xO (Coq_xO
               Coq_xH)))))))))))))))))))))))))))))))))))))))))))))))))))))))))))))))))
        else d)

(** val wmax : etype -> coq_Z **)

let wmax = function
| EU8 ->
  Zpos (Coq_xI (Coq_xI (Coq_xI (Coq_xI (Coq_xI (Coq_xI (Coq_xI Coq_xH)))))))
| EU16 ->
  Zpos (Coq_xI (Coq_xI (Coq_xI (Coq_xI (Coq_xI (Coq_xI (Coq_xI (Coq_xI
    (Coq_xI (Coq_xI (Coq_xI (Coq_xI (Coq_xI (Coq_xI (Coq_xI
    Coq_xH)))))))))))))))
| EU32 ->
  Zpos (Coq_xI (Coq_xI (Coq_xI (Coq_xI (Coq_xI (Coq_xI (Coq_xI (Coq_xI
    (Coq_xI (Coq_xI (Coq_xI (Coq_xI (Coq_xI (Coq_xI (Coq_xI (Coq_xI (Coq_xI
    (Coq_xI (Coq_xI (Coq_xI (Coq_xI (Coq_xI (Coq_xI (Coq_xI (Coq_xI (Coq_xI
    (Coq_xI (Coq_xI (Coq_xI (Coq_xI (Coq_xI
    Coq_xH)))))))))))))))))))))))))))))))
| EU64 ->
  Zpos (Coq_xI (Coq_xI (Coq_xI (Coq_xI (Coq_xI (Coq_xI (Coq_xI (Coq_xI
    (Coq_xI (Coq_xI (Coq_xI (Coq_xI (Coq_xI (Coq_xI (Coq_xI (Coq_xI (Coq_xI
    (Coq_xI (Coq_xI (Coq_xI (Coq_xI (Coq_xI (Coq_xI (Coq_xI (Coq_xI (Coq_xI
    (Coq_xI (Coq_xI (Coq_xI (Coq_xI (Coq_xI (Coq_xI (Coq_xI (Coq_xI (Coq_xI
    (Coq_xI (Coq_xI (Coq_xI (Coq_xI (Coq_xI (Coq_xI (Coq_xI (Coq_xI (Coq_xI
    (Coq_xI (Coq_xI (Coq_xI (Coq_xI (Coq_xI (Coq_xI (Coq_xI (Coq_xI (Coq_xI
    (Coq_xI (Coq_xI (Coq_xI (Coq_xI (Coq_xI (Coq_xI (Coq_xI (Coq_xI (Coq_xI
    (Coq_xI
    Coq_xH)))))))))))))))))))))))))))))))))))))))))))))))))))))))))))))))
| EI64 -> i64_max

(** val choose : coq_Z -> coq_Z -> coq_Z -> (etype * coq_Z) option **)

let choose mn mx iv =
  if (&&) (Z.leb Z0 mn)
       (Z.leb mx (Zpos (Coq_xI (Coq_xI (Coq_xI (Coq_xI (Coq_xI (Coq_xI
         (Coq_xI Coq_xH)))))))))
  then Some (EU8, Z0)
  else if Z.leb iv (Zpos (Coq_xI (Coq_xI (Coq_xI (Coq_xI (Coq_xI (Coq_xI
            (Coq_xI Coq_xH))))))))
       then Some (EU8, mn)
       else if (&&) (Z.leb Z0 mn)
                 (Z.leb mx (Zpos (Coq_xI (Coq_xI (Coq_xI (Coq_xI (Coq_xI
                   (Coq_xI (Coq_xI (Coq_xI (Coq_xI (Coq_xI (Coq_xI (Coq_xI
                   (Coq_xI (Coq_xI (Coq_xI Coq_xH)))))))))))))))))
            then Some (EU16, Z0)
            else if Z.leb iv (Zpos (Coq_xI (Coq_xI (Coq_xI (Coq_xI (Coq_xI
                      (Coq_xI (Coq_xI (Coq_xI (Coq_xI (Coq_xI (Coq_xI (Coq_xI
                      (Coq_xI (Coq_xI (Coq_xI Coq_xH))))))))))))))))
                 then Some (EU16, mn)
                 else if (&&) (Z.leb Z0 mn)
                           (Z.leb mx (Zpos (Coq_xI (Coq_xI (Coq_xI (Coq_xI
                             (Coq_xI (Coq_xI (Coq_xI (Coq_xI (Coq_xI (Coq_xI
                             (Coq_xI (Coq_xI (Coq_xI (Coq_xI (Coq_xI (Coq_xI
                             (Coq_xI (Coq_xI (Coq_xI (Coq_xI (Coq_xI (Coq_xI
                             (Coq_xI (Coq_xI (Coq_xI (Coq_xI (Coq_xI (Coq_xI
                             (Coq_xI (Coq_xI (Coq_xI
                             Coq_xH)))))))))))))))))))))))))))))))))
                      then Some (EU32, Z0)
                      else if Z.leb iv (Zpos (Coq_xI (Coq_xI (Coq_xI (Coq_xI
                                (Coq_xI (Coq_xI (Coq_xI (Coq_xI (Coq_xI
                                (Coq_xI (Coq_xI (Coq_xI (Coq_xI (Coq_xI
                                (Coq_xI (Coq_xI (Coq_xI (Coq_xI (Coq_xI
                                (Coq_xI (Coq_xI (Coq_xI (Coq_xI (Coq_xI
                                (Coq_xI (Coq_xI (Coq_xI (Coq_xI (Coq_xI
                                (Coq_xI (Coq_xI
                                Coq_xH))))))))))))))))))))))))))))))))
                           then Some (EU32, mn)
                           else None

(** val encode_vals : etype -> coq_Z -> coq_Z list -> coq_Z list result **)

let rec encode_vals t off = function
| [] -> Val []
| v :: r ->
  bind (sub64 v off) (fun e ->
    if (&&) (Z.leb Z0 e) (Z.leb e (wmax t))
    then bind (encode_vals t off r) (fun es -> Val (e :: es))
    else Panic EncodeUnreachable)

(** val int_codec : etype -> coq_Z -> bool -> bool -> codec_op list **)

let int_codec t off delta = function
| true ->
  if Z.eqb off Z0
  then if delta
       then (OpDelta t) :: ((OpPush (S O)) :: (OpNullable :: []))
       else (OpPush (S O)) :: (OpNullable :: ((OpToI64 t) :: []))
  else if delta
       then (OpAdd (t, off)) :: ((OpDelta EI64) :: ((OpPush (S
              O)) :: (OpNullable :: [])))
       else (OpPush (S O)) :: (OpNullable :: ((OpAdd (t, off)) :: []))
| false ->
  if Z.eqb off Z0
  then if delta then (OpDelta t) :: [] else (OpToI64 t) :: []
  else if delta
       then (OpAdd (t, off)) :: ((OpDelta EI64) :: [])
       else (OpAdd (t, off)) :: []

(** val with_null : section -> coq_Z list option -> section list **)

let with_null data = function
| Some p -> data :: ((SBitvec p) :: [])
| None -> data :: []

(** val create_col :
    etype -> coq_Z list -> coq_Z -> coq_Z -> coq_Z -> bool -> coq_Z list
    option -> column result **)

let create_col t values off mn0 mx0 delta null =
  bind (encode_vals t off values) (fun es ->
    bind (sub64 mn0 off) (fun lo ->
      bind (sub64 mx0 off) (fun hi -> Val { c_len = (zlen es); c_range =
        (Some (lo, hi)); c_ops =
        (int_codec t off delta
          (match null with
           | Some _ -> true
           | None -> false)); c_data = (with_null (SInts (t, es)) null) })))

(** val i64_codec : bool -> bool -> codec_op list **)

let i64_codec delta = function
| true ->
  if delta
  then (OpDelta EI64) :: ((OpPush (S O)) :: (OpNullable :: []))
  else (OpPush (S O)) :: (OpNullable :: [])
| false -> if delta then (OpDelta EI64) :: [] else []

(** val new_boxed :
    coq_Z list -> coq_Z -> coq_Z -> bool -> coq_Z list option -> column result **)

let new_boxed values mn0 mx0 delta null =
  bind
    (if delta
     then delta_transform values mn0 mx0
     else Val (values, (mn0, mx0))) (fun pat ->
    let (vs, mm) = pat in
    let (mn, mx) = mm in
    bind (interval mn mx) (fun iv ->
      match choose mn mx iv with
      | Some p -> let (t, off) = p in create_col t vs off mn0 mx0 delta null
      | None ->
        Val { c_len = (zlen vs); c_range = (Some (mn0, mx0)); c_ops =
          (i64_codec delta (match null with
                            | Some _ -> true
                            | None -> false)); c_data =
          (with_null (SInts (EI64, vs)) null) }))

(** val int_finalize :
    coq_Z list -> istats -> coq_Z list option -> column result **)

let int_finalize data st present =
  new_boxed data st.st_min st.st_max (delta_decision st (zlen data)) present
