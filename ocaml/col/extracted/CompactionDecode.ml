open BinNums
open Codec
open CodecBase
open ColumnBuffer
open List0
open StrEnc

(** val bottom : sval list -> sval result **)

let bottom st =
  match rev st with
  | [] -> Panic OutOfBounds
  | v :: _ -> Val v

(** val data_of : sval -> dvec **)

let data_of = function
| Plain d -> d
| WithNulls (d, _) -> d

(** val cast_ints : etype -> sval -> coq_Z list result **)

let cast_ints t v =
  match data_of v with
  | DInts (t', l) -> if etype_eqb t t' then Val l else Panic BadStack
  | DBits l -> (match t with
                | EU8 -> Val l
                | _ -> Panic BadStack)
  | _ -> Panic BadStack

(** val pop_top : sval list -> sval list **)

let pop_top = function
| [] -> []
| _ :: r -> r

(** val prefix_sums : coq_Z -> coq_Z list -> coq_Z list result **)

let rec prefix_sums cur = function
| [] -> Val []
| d :: r ->
  bind (add64 cur d) (fun c ->
    bind (prefix_sums c r) (fun cs -> Val (c :: cs)))

(** val free_step :
    section list -> codec_op -> sval list -> sval list result **)

let free_step sections op st =
  match op with
  | OpNullable ->
    (match st with
     | [] -> Panic OutOfBounds
     | p :: l ->
       (match l with
        | [] -> Panic OutOfBounds
        | d :: rest ->
          bind (cast_ints EU8 p) (fun pb ->
            match d with
            | Plain dd -> Val ((WithNulls (dd, pb)) :: (pop_top rest))
            | WithNulls (_, _) -> Panic BadStack)))
  | OpAdd (t, x) ->
    bind (bottom st) (fun a ->
      bind (cast_ints t a) (fun l ->
        match t with
        | EU64 -> Panic Unsupported
        | EI64 -> Panic Unsupported
        | _ ->
          bind (add_all x l) (fun l' -> Val ((Plain (DInts (EI64,
            l'))) :: (pop_top st)))))
  | OpDelta t ->
    bind (bottom st) (fun a ->
      bind (cast_ints t a) (fun l ->
        match t with
        | EU64 -> Panic Unsupported
        | _ ->
          bind (prefix_sums Z0 l) (fun l' -> Val ((Plain (DInts (EI64,
            l'))) :: (pop_top st)))))
  | OpToI64 t ->
    bind (bottom st) (fun a ->
      bind (cast_ints t a) (fun l ->
        match t with
        | EU64 -> Panic Unsupported
        | EI64 -> Panic Unsupported
        | _ -> Val ((Plain (DInts (EI64, l))) :: (pop_top st))))
  | OpPush i ->
    (match nth_error sections i with
     | Some s -> Val ((of_section s) :: st)
     | None -> Panic OutOfBounds)
  | OpDict t ->
    (match st with
     | [] -> Panic OutOfBounds
     | dd :: l ->
       (match l with
        | [] -> Panic OutOfBounds
        | dr :: l0 ->
          (match l0 with
           | [] -> Panic OutOfBounds
           | di :: rest ->
             bind (cast_ints EU8 dd) (fun store ->
               bind (cast_ints EU64 dr) (fun ranges ->
                 match t with
                 | EU64 -> Panic Unsupported
                 | _ ->
                   bind (cast_ints t di) (fun idx ->
                     bind (dict_lookup idx ranges store) (fun ss -> Val
                       ((Plain (DStr ss)) :: (pop_top rest)))))))))
  | OpUnpack ->
    (match sections with
     | [] -> Panic OutOfBounds
     | s0 :: _ ->
       bind (cast_ints EU8 (of_section s0)) (fun b ->
         bind (unpack_strings b) (fun ss -> Val ((Plain (DStr
           ss)) :: (pop_top st)))))
  | OpUnhex (_, _) -> Panic Unsupported

(** val free_run :
    section list -> codec_op list -> sval list -> sval list result **)

let rec free_run sections ops st =
  match ops with
  | [] -> Val st
  | op :: r ->
    bind (free_step sections op st) (fun st' -> free_run sections r st')

(** val decode_free : column -> sval result **)

let decode_free c =
  match c.c_data with
  | [] -> Panic OutOfBounds
  | s0 :: _ ->
    bind (free_run c.c_data c.c_ops ((of_section s0) :: [])) (fun st ->
      match st with
      | [] -> Panic OutOfBounds
      | v :: _ -> Val v)

(** val repush_op : sval -> push_op result **)

let repush_op = function
| Plain d ->
  (match d with
   | DInts (t, l) ->
     (match t with
      | EI64 -> Val (PInts (l, None))
      | _ -> Panic Unsupported)
   | DF64 l -> Val (PFloats (l, None))
   | DStr l -> Val (PStrs (l, None))
   | DNullV n -> Val (PNulls n)
   | DBits _ -> Panic Unsupported)
| WithNulls (d, p) ->
  (match d with
   | DInts (t, l) ->
     (match t with
      | EI64 -> Val (PInts (l, (Some p)))
      | _ -> Panic Unsupported)
   | DF64 l -> Val (PFloats (l, (Some p)))
   | DStr l -> Val (PStrs (l, (Some p)))
   | _ -> Panic Unsupported)

(** val compact_ops : column list -> push_op list result **)

let compact_ops parts =
  mapM (fun c -> bind (decode_free c) repush_op) parts

(** val compact_column : (coq_Z -> str) -> column list -> column result **)

let compact_column f2s parts =
  bind (compact_ops parts) (fun ops ->
    finalize f2s (run_pushes f2s (colbuf_null Z0) ops))
