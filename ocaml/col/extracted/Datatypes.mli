
val negb : bool -> bool

type nat =
| O
| S of nat

val snd : ('a1 * 'a2) -> 'a2

val length : 'a1 list -> nat

val app : 'a1 list -> 'a1 list -> 'a1 list

type comparison =
| Eq
| Lt
| Gt

val coq_CompOpp : comparison -> comparison
