open BinInt
open BinNums
open CodecBase
open Datatypes

val fill_nulls : coq_Z list -> coq_Z -> coq_Z -> coq_Z list -> coq_Z list

val float_new_boxed : coq_Z list -> coq_Z list option -> column

val f64_of_nat_part : coq_Z -> coq_Z

val i64_to_f64 : coq_Z -> coq_Z
