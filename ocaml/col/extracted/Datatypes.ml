
(** val negb : bool -> bool **)

let negb = function
| true -> false
| false -> true

type nat =
| O
| S of nat

(** val snd : ('a1 * 'a2) -> 'a2 **)

let snd = function
| (_, y) -> y

(** val length : 'a1 list -> nat **)

let rec length = function
| [] -> O
| _ :: l' -> S (length l')

(** val app : 'a1 list -> 'a1 list -> 'a1 list **)

let rec app l m =
  match l with
  | [] -> m
  | a :: l1 -> a :: (app l1 m)

type comparison =
| Eq
| Lt
| Gt

(** val coq_CompOpp : comparison -> comparison **)

let coq_CompOpp = function
| Eq -> Eq
| Lt -> Gt
| Gt -> Lt
