open BinInt
open BinNums
open Datatypes
open List0

type site =
| SubOverflow
| AddOverflow
| EncodeUnreachable
| OutOfBounds
| BadStack
| Unsupported
| HexDecode
| OutOfFuel

type 'a result =
| Val of 'a
| Panic of site

(** val bind : 'a1 result -> ('a1 -> 'a2 result) -> 'a2 result **)

let bind r f =
  match r with
  | Val a -> f a
  | Panic s -> Panic s

(** val mapM : ('a1 -> 'a2 result) -> 'a1 list -> 'a2 list result **)

let rec mapM f = function
| [] -> Val []
| a :: r -> bind (f a) (fun b -> bind (mapM f r) (fun bs -> Val (b :: bs)))

(** val i64_min : coq_Z **)

let i64_min =
  Zneg (Coq_xO (Coq_xO (Coq_xO (Coq_xO (Coq_xO (Coq_xO (Coq_xO (Coq_xO
    (Coq_xO (Coq_xO (Coq_xO (Coq_xO (Coq_xO (Coq_xO (Coq_xO (Coq_xO (Coq_xO
    (Coq_xO (Coq_xO (Coq_xO (Coq_xO (Coq_xO (Coq_xO (Coq_xO (Coq_xO (Coq_xO
    (Coq_xO (Coq_xO (Coq_xO (Coq_xO (Coq_xO (Coq_xO (Coq_xO (Coq_xO (Coq_xO
    (Coq_xO (Coq_xO (Coq_xO (Coq_xO (Coq_xO (Coq_xO (Coq_xO (Coq_xO (Coq_xO
    (Coq_xO (Coq_xO (Coq_xO (Coq_xO (Coq_xO (Coq_xO (Coq_xO (Coq_xO (Coq_xO
    (Coq_xO (Coq_xO (Coq_xO (Coq_xO (Coq_xO (Coq_xO (Coq_xO (Coq_xO (Coq_xO
    (Coq_xO
    Coq_xH)))))))))))))))))))))))))))))))))))))))))))))))))))))))))))))))

(** val i64_max : coq_Z **)

let i64_max =
  Zpos (Coq_xI (Coq_xI (Coq_xI (Coq_xI (Coq_xI (Coq_xI (Coq_xI (Coq_xI
    (Coq_xI (Coq_xI (Coq_xI (Coq_xI (Coq_xI (Coq_xI (Coq_xI (Coq_xI (Coq_xI
    (Coq_xI (Coq_xI (Coq_xI (Coq_xI (Coq_xI (Coq_xI (Coq_xI (Coq_xI (Coq_xI
    (Coq_xI (Coq_xI (Coq_xI (Coq_xI (Coq_xI (Coq_xI (Coq_xI (Coq_xI (Coq_xI
    (Coq_xI (Coq_xI (Coq_xI (Coq_xI (Coq_xI (Coq_xI (Coq_xI (Coq_xI (Coq_xI
    (Coq_xI (Coq_xI (Coq_xI (Coq_xI (Coq_xI (Coq_xI (Coq_xI (Coq_xI (Coq_xI
    (Coq_xI (Coq_xI (Coq_xI (Coq_xI (Coq_xI (Coq_xI (Coq_xI (Coq_xI (Coq_xI
    Coq_xH))))))))))))))))))))))))))))))))))))))))))))))))))))))))))))))

(** val in_i64 : coq_Z -> bool **)

let in_i64 z =
  (&&) (Z.leb i64_min z) (Z.leb z i64_max)

(** val sub64 : coq_Z -> coq_Z -> coq_Z result **)

let sub64 a b =
  if in_i64 (Z.sub a b) then Val (Z.sub a b) else Panic SubOverflow

(** val add64 : coq_Z -> coq_Z -> coq_Z result **)

let add64 a b =
  if in_i64 (Z.add a b) then Val (Z.add a b) else Panic AddOverflow

(** val zlen : 'a1 list -> coq_Z **)

let zlen l =
  Z.of_nat (length l)

(** val bv_get : coq_Z list -> coq_Z -> bool **)

let bv_get bm i =
  match nth_error bm
          (Z.to_nat (Z.div i (Zpos (Coq_xO (Coq_xO (Coq_xO Coq_xH)))))) with
  | Some b ->
    Z.ltb Z0
      (Z.coq_land b
        (Z.shiftl (Zpos Coq_xH)
          (Z.modulo i (Zpos (Coq_xO (Coq_xO (Coq_xO Coq_xH)))))))
  | None -> false

(** val bv_set_slot : coq_Z list -> nat -> coq_Z -> coq_Z list **)

let rec bv_set_slot bm slot bit =
  match slot with
  | O ->
    (match bm with
     | [] -> (Z.coq_lor Z0 (Z.shiftl (Zpos Coq_xH) bit)) :: []
     | b :: r -> (Z.coq_lor b (Z.shiftl (Zpos Coq_xH) bit)) :: r)
  | S k ->
    (match bm with
     | [] -> Z0 :: (bv_set_slot [] k bit)
     | b :: r -> b :: (bv_set_slot r k bit))

(** val bv_set : coq_Z list -> coq_Z -> coq_Z list **)

let bv_set bm i =
  bv_set_slot bm
    (Z.to_nat (Z.div i (Zpos (Coq_xO (Coq_xO (Coq_xO Coq_xH))))))
    (Z.modulo i (Zpos (Coq_xO (Coq_xO (Coq_xO Coq_xH)))))

(** val bv_set_run : coq_Z list -> coq_Z -> nat -> coq_Z list **)

let rec bv_set_run bm start = function
| O -> bm
| S k -> bv_set_run (bv_set bm start) (Z.add start (Zpos Coq_xH)) k

(** val bv_set_masked :
    coq_Z list -> coq_Z list -> coq_Z -> coq_Z -> nat -> coq_Z list **)

let rec bv_set_masked bm mask base i = function
| O -> bm
| S k ->
  bv_set_masked (if bv_get mask i then bv_set bm (Z.add base i) else bm) mask
    base (Z.add i (Zpos Coq_xH)) k

type etype =
| EU8
| EU16
| EU32
| EU64
| EI64

(** val etype_eqb : etype -> etype -> bool **)

let etype_eqb a b =
  match a with
  | EU8 -> (match b with
            | EU8 -> true
            | _ -> false)
  | EU16 -> (match b with
             | EU16 -> true
             | _ -> false)
  | EU32 -> (match b with
             | EU32 -> true
             | _ -> false)
  | EU64 -> (match b with
             | EU64 -> true
             | _ -> false)
  | EI64 -> (match b with
             | EI64 -> true
             | _ -> false)

type section =
| SInts of etype * coq_Z list
| SF64 of coq_Z list
| SNull of coq_Z
| SBitvec of coq_Z list

type codec_op =
| OpNullable
| OpAdd of etype * coq_Z
| OpDelta of etype
| OpToI64 of etype
| OpPush of nat
| OpDict of etype
| OpUnpack
| OpUnhex of bool * coq_Z

type column = { c_len : coq_Z; c_range : (coq_Z * coq_Z) option;
                c_ops : codec_op list; c_data : section list }

(** val column_null : coq_Z -> column **)

let column_null len =
  { c_len = len; c_range = None; c_ops = []; c_data = ((SNull len) :: []) }

type cell =
| CInt of coq_Z
| CFloat of coq_Z
| CStr of coq_Z list
| CNull
