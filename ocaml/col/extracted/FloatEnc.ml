open BinInt
open BinNums
open CodecBase
open Datatypes

(** val fill_nulls :
    coq_Z list -> coq_Z -> coq_Z -> coq_Z list -> coq_Z list **)

let rec fill_nulls p i last = function
| [] -> []
| v :: r ->
  if bv_get p i
  then v :: (fill_nulls p (Z.add i (Zpos Coq_xH)) v r)
  else last :: (fill_nulls p (Z.add i (Zpos Coq_xH)) last r)

(** val float_new_boxed : coq_Z list -> coq_Z list option -> column **)

let float_new_boxed values = function
| Some p ->
  { c_len = (zlen values); c_range = None; c_ops = ((OpPush (S
    O)) :: (OpNullable :: [])); c_data = ((SF64
    (fill_nulls p Z0 Z0 values)) :: ((SBitvec p) :: [])) }
| None ->
  { c_len = (zlen values); c_range = None; c_ops = []; c_data = ((SF64
    values) :: []) }

(** val f64_of_nat_part : coq_Z -> coq_Z **)

let f64_of_nat_part m =
  let e = Z.log2 m in
  if Z.leb e (Zpos (Coq_xO (Coq_xO (Coq_xI (Coq_xO (Coq_xI Coq_xH))))))
  then Z.add
         (Z.mul
           (Z.add e (Zpos (Coq_xI (Coq_xI (Coq_xI (Coq_xI (Coq_xI (Coq_xI
             (Coq_xI (Coq_xI (Coq_xI Coq_xH))))))))))) (Zpos (Coq_xO (Coq_xO
           (Coq_xO (Coq_xO (Coq_xO (Coq_xO (Coq_xO (Coq_xO (Coq_xO (Coq_xO
           (Coq_xO (Coq_xO (Coq_xO (Coq_xO (Coq_xO (Coq_xO (Coq_xO (Coq_xO
           (Coq_xO (Coq_xO (Coq_xO (Coq_xO (Coq_xO (Coq_xO (Coq_xO (Coq_xO
           (Coq_xO (Coq_xO (Coq_xO (Coq_xO (Coq_xO (Coq_xO (Coq_xO (Coq_xO
           (Coq_xO (Coq_xO (Coq_xO (Coq_xO (Coq_xO (Coq_xO (Coq_xO (Coq_xO
           (Coq_xO (Coq_xO (Coq_xO (Coq_xO (Coq_xO (Coq_xO (Coq_xO (Coq_xO
           (Coq_xO (Coq_xO
           Coq_xH))))))))))))))))))))))))))))))))))))))))))))))))))))))
         (Z.sub
           (Z.mul m
             (Z.pow (Zpos (Coq_xO Coq_xH))
               (Z.sub (Zpos (Coq_xO (Coq_xO (Coq_xI (Coq_xO (Coq_xI
                 Coq_xH)))))) e))) (Zpos (Coq_xO (Coq_xO (Coq_xO (Coq_xO
           (Coq_xO (Coq_xO (Coq_xO (Coq_xO (Coq_xO (Coq_xO (Coq_xO (Coq_xO
           (Coq_xO (Coq_xO (Coq_xO (Coq_xO (Coq_xO (Coq_xO (Coq_xO (Coq_xO
           (Coq_xO (Coq_xO (Coq_xO (Coq_xO (Coq_xO (Coq_xO (Coq_xO (Coq_xO
           (Coq_xO (Coq_xO (Coq_xO (Coq_xO (Coq_xO (Coq_xO (Coq_xO (Coq_xO
           (Coq_xO (Coq_xO (Coq_xO (Coq_xO (Coq_xO (Coq_xO (Coq_xO (Coq_xO
           (Coq_xO (Coq_xO (Coq_xO (Coq_xO (Coq_xO (Coq_xO (Coq_xO (Coq_xO
           Coq_xH))))))))))))))))))))))))))))))))))))))))))))))))))))))
  else let sh =
         Z.sub e (Zpos (Coq_xO (Coq_xO (Coq_xI (Coq_xO (Coq_xI Coq_xH))))))
       in
       let q = Z.shiftr m sh in
       let rem = Z.sub m (Z.shiftl q sh) in
       let half = Z.pow (Zpos (Coq_xO Coq_xH)) (Z.sub sh (Zpos Coq_xH)) in
       let q' =
         if (||) (Z.ltb half rem) ((&&) (Z.eqb rem half) (Z.odd q))
         then Z.add q (Zpos Coq_xH)
         else q
       in
       Z.add
         (Z.mul
           (Z.add e (Zpos (Coq_xI (Coq_xI (Coq_xI (Coq_xI (Coq_xI (Coq_xI
             (Coq_xI (Coq_xI (Coq_xI Coq_xH))))))))))) (Zpos (Coq_xO (Coq_xO
           (Coq_xO (Coq_xO (Coq_xO (Coq_xO (Coq_xO (Coq_xO (Coq_xO (Coq_xO
           (Coq_xO (Coq_xO (Coq_xO (Coq_xO (Coq_xO (Coq_xO (Coq_xO (Coq_xO
           (Coq_xO (Coq_xO (Coq_xO (Coq_xO (Coq_xO (Coq_xO (Coq_xO (Coq_xO
           (Coq_xO (Coq_xO (Coq_xO (Coq_xO (Coq_xO (Coq_xO (Coq_xO (Coq_xO
           (Coq_xO (Coq_xO (Coq_xO (Coq_xO (Coq_xO (Coq_xO (Coq_xO (Coq_xO
           (Coq_xO (Coq_xO (Coq_xO (Coq_xO (Coq_xO (Coq_xO (Coq_xO (Coq_xO
           (Coq_xO (Coq_xO
           Coq_xH))))))))))))))))))))))))))))))))))))))))))))))))))))))
         (Z.sub q' (Zpos (Coq_xO (Coq_xO (Coq_xO (Coq_xO (Coq_xO (Coq_xO
           (Coq_xO (Coq_xO (Coq_xO (Coq_xO (Coq_xO (Coq_xO (Coq_xO (Coq_xO
           (Coq_xO (Coq_xO (Coq_xO (Coq_xO (Coq_xO (Coq_xO (Coq_xO (Coq_xO
           (Coq_xO (Coq_xO (Coq_xO (Coq_xO (Coq_xO (Coq_xO (Coq_xO (Coq_xO
           (Coq_xO (Coq_xO (Coq_xO (Coq_xO (Coq_xO (Coq_xO (Coq_xO (Coq_xO
           (Coq_xO (Coq_xO (Coq_xO (Coq_xO (Coq_xO (Coq_xO (Coq_xO (Coq_xO
           (Coq_xO (Coq_xO (Coq_xO (Coq_xO (Coq_xO (Coq_xO
           Coq_xH))))))))))))))))))))))))))))))))))))))))))))))))))))))

(** val i64_to_f64 : coq_Z -> coq_Z **)

let i64_to_f64 i =
  if Z.eqb i Z0
  then Z0
  else if Z.ltb Z0 i
       then f64_of_nat_part i
       else Z.add (Zpos (Coq_xO (Coq_xO (Coq_xO (Coq_xO (Coq_xO (Coq_xO
              (Coq_xO (Coq_xO (Coq_xO (Coq_xO (Coq_xO (Coq_xO (Coq_xO (Coq_xO
              (Coq_xO (Coq_xO (Coq_xO (Coq_xO (Coq_xO (Coq_xO (Coq_xO (Coq_xO
              (Coq_xO (Coq_xO (Coq_xO (Coq_xO (Coq_xO (Coq_xO (Coq_xO (Coq_xO
              (Coq_xO (Coq_xO (Coq_xO (Coq_xO (Coq_xO (Coq_xO (Coq_xO (Coq_xO
              (Coq_xO (Coq_xO (Coq_xO (Coq_xO (Coq_xO (Coq_xO (Coq_xO (Coq_xO
              (Coq_xO (Coq_xO (Coq_xO (Coq_xO (Coq_xO (Coq_xO (Coq_xO (Coq_xO
              (Coq_xO (Coq_xO (Coq_xO (Coq_xO (Coq_xO (Coq_xO (Coq_xO (Coq_xO
              (Coq_xO
              Coq_xH))))))))))))))))))))))))))))))))))))))))))))))))))))))))))))))))
              (f64_of_nat_part (Z.opp i))
