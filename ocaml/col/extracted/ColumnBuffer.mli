open BinInt
open BinNums
open CodecBase
open Datatypes
open FloatEnc
open IntEnc
open List0
open StrEnc

type rawval =
| RInt of coq_Z
| RFloat of coq_Z
| RStr of str
| RNull

val dec_digits : nat -> coq_Z -> coq_Z list -> coq_Z list

val i64_to_string : coq_Z -> str

type tbuf =
| TEmpty
| TStr of str list
| TInt of coq_Z list * istats
| TFloat of coq_Z list
| TMixed of rawval list

type colbuf = { cb_buf : tbuf; cb_len : coq_Z; cb_present : coq_Z list option }

val colbuf_null : coq_Z -> colbuf

type push_op =
| PInts of coq_Z list * coq_Z list option
| PFloats of coq_Z list * coq_Z list option
| PStrs of str list * coq_Z list option
| PNulls of coq_Z

val raw_to_string : (coq_Z -> str) -> rawval -> str option

val push_present : colbuf -> coq_Z list option -> nat -> coq_Z list option

val init_present_empty : colbuf -> coq_Z list option

val zeros : coq_Z -> coq_Z list

val finish_push :
  colbuf -> tbuf -> coq_Z list option -> coq_Z list option -> nat -> colbuf

val push_ints : colbuf -> coq_Z list -> coq_Z list option -> colbuf

val push_floats : colbuf -> coq_Z list -> coq_Z list option -> colbuf

val push_strings :
  (coq_Z -> str) -> colbuf -> str list -> coq_Z list option -> colbuf

val all_present : coq_Z -> coq_Z list

val push_nulls : colbuf -> coq_Z -> colbuf

val push : (coq_Z -> str) -> colbuf -> push_op -> colbuf

val op_of_val : rawval -> push_op

val mixed_strings : (coq_Z -> str) -> rawval list -> str list

val finalize : (coq_Z -> str) -> colbuf -> column result

val run_pushes : (coq_Z -> str) -> colbuf -> push_op list -> colbuf
