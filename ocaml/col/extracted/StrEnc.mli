open BinInt
open BinNums
open CodecBase
open Datatypes
open List0

type str = coq_Z list

val str_eqb : str -> str -> bool

val str_leb : str -> str -> bool

val mem : str -> str list -> bool

val is_digit : coq_Z -> bool

val is_lhex_char : coq_Z -> bool

val is_uhex_char : coq_Z -> bool

val is_lowercase_hex : str -> bool

val is_uppercase_hex : str -> bool

val total_bytes : str list -> coq_Z

val hex_val : coq_Z -> coq_Z result

val hex_decode : str -> coq_Z list result

val len_prefix : nat -> coq_Z -> coq_Z list

val pack_one : coq_Z list -> coq_Z list

val pack_all : coq_Z list list -> coq_Z list

val ips_entries : coq_Z -> str list -> coq_Z list

val ips_store : str list -> coq_Z list

val scan_unique : str list -> coq_Z -> coq_Z -> str list -> bool * str list

val insert_sorted : str -> str list -> str list

val sort_strs : str list -> str list

val index_of : str -> str list -> coq_Z -> coq_Z result

val dict_index_type : coq_Z -> etype

val fast_build_string_column :
  str list -> bool -> bool -> coq_Z -> coq_Z list option -> column result

val str_finalize : str list -> coq_Z list option -> column result
