open BinInt
open BinNums
open CodecBase
open Datatypes
open List0

type dvec =
| DInts of etype * coq_Z list
| DF64 of coq_Z list
| DStr of coq_Z list list
| DNullV of coq_Z
| DBits of coq_Z list

type sval =
| Plain of dvec
| WithNulls of dvec * coq_Z list

(** val of_section : section -> sval **)

let of_section = function
| SInts (t, l) -> Plain (DInts (t, l))
| SF64 l -> Plain (DF64 l)
| SNull n -> Plain (DNullV n)
| SBitvec l -> Plain (DBits l)

(** val delta_decode : coq_Z -> coq_Z list -> coq_Z list result **)

let rec delta_decode prev = function
| [] -> Val []
| e :: r ->
  bind (add64 e prev) (fun c ->
    bind (delta_decode c r) (fun cs -> Val (c :: cs)))

(** val add_all : coq_Z -> coq_Z list -> coq_Z list result **)

let add_all x l =
  mapM (fun v -> add64 v x) l

(** val slice : 'a1 list -> coq_Z -> coq_Z -> 'a1 list result **)

let slice l off len =
  let r = skipn (Z.to_nat off) l in
  if Z.ltb (Z.of_nat (length r)) len
  then Panic OutOfBounds
  else Val (firstn (Z.to_nat len) r)

(** val dict_entry :
    coq_Z list -> coq_Z list -> coq_Z -> coq_Z list result **)

let dict_entry ranges store i =
  match nth_error ranges (Z.to_nat i) with
  | Some e ->
    slice store
      (Z.shiftr e (Zpos (Coq_xO (Coq_xO (Coq_xO (Coq_xI Coq_xH))))))
      (Z.coq_land e (Zpos (Coq_xI (Coq_xI (Coq_xI (Coq_xI (Coq_xI (Coq_xI
        (Coq_xI (Coq_xI (Coq_xI (Coq_xI (Coq_xI (Coq_xI (Coq_xI (Coq_xI
        (Coq_xI (Coq_xI (Coq_xI (Coq_xI (Coq_xI (Coq_xI (Coq_xI (Coq_xI
        (Coq_xI Coq_xH)))))))))))))))))))))))))
  | None -> Panic OutOfBounds

(** val dict_lookup :
    coq_Z list -> coq_Z list -> coq_Z list -> coq_Z list list result **)

let dict_lookup indices ranges store =
  mapM (dict_entry ranges store) indices

(** val read_len : coq_Z -> coq_Z list -> (coq_Z * coq_Z list) result **)

let rec read_len acc = function
| [] -> Panic OutOfBounds
| b :: r ->
  if Z.eqb b (Zpos (Coq_xI (Coq_xI (Coq_xI (Coq_xI (Coq_xI (Coq_xI (Coq_xI
       Coq_xH))))))))
  then read_len
         (Z.add acc (Zpos (Coq_xI (Coq_xI (Coq_xI (Coq_xI (Coq_xI (Coq_xI
           (Coq_xI Coq_xH))))))))) r
  else Val ((Z.add acc b), r)

(** val unpack : nat -> coq_Z list -> coq_Z list list result **)

let rec unpack fuel d = match d with
| [] -> Val []
| _ :: _ ->
  (match fuel with
   | O -> Panic OutOfFuel
   | S f ->
     bind (read_len Z0 d) (fun pat ->
       let (len, r) = pat in
       bind (slice r Z0 len) (fun s ->
         bind (unpack f (skipn (Z.to_nat len) r)) (fun rest -> Val
           (s :: rest)))))

(** val unpack_strings : coq_Z list -> coq_Z list list result **)

let unpack_strings d =
  unpack (length d) d

(** val hex_digit : bool -> coq_Z -> coq_Z **)

let hex_digit upper v =
  if Z.ltb v (Zpos (Coq_xO (Coq_xI (Coq_xO Coq_xH))))
  then Z.add (Zpos (Coq_xO (Coq_xO (Coq_xO (Coq_xO (Coq_xI Coq_xH)))))) v
  else Z.add
         (if upper
          then Zpos (Coq_xI (Coq_xI (Coq_xI (Coq_xO (Coq_xI Coq_xH)))))
          else Zpos (Coq_xI (Coq_xI (Coq_xI (Coq_xO (Coq_xI (Coq_xO
                 Coq_xH))))))) v

(** val hex_encode : bool -> coq_Z list -> coq_Z list **)

let rec hex_encode upper = function
| [] -> []
| b :: r ->
  (hex_digit upper
    (Z.div b (Zpos (Coq_xO (Coq_xO (Coq_xO (Coq_xO Coq_xH))))))) :: (
    (hex_digit upper
      (Z.modulo b (Zpos (Coq_xO (Coq_xO (Coq_xO (Coq_xO Coq_xH))))))) :: 
    (hex_encode upper r))

(** val unhexpack_strings : bool -> coq_Z list -> coq_Z list list result **)

let unhexpack_strings upper d =
  bind (unpack_strings d) (fun bs -> Val (map (hex_encode upper) bs))

(** val ints_of : dvec -> coq_Z list result **)

let ints_of = function
| DInts (_, l) -> Val l
| _ -> Panic BadStack

(** val bytes_of : dvec -> coq_Z list result **)

let bytes_of = function
| DInts (t, l) -> (match t with
                   | EU8 -> Val l
                   | _ -> Panic BadStack)
| DBits l -> Val l
| _ -> Panic BadStack

(** val lift_ints :
    (coq_Z list -> coq_Z list result) -> sval -> sval result **)

let lift_ints f = function
| Plain d ->
  bind (ints_of d) (fun l ->
    bind (f l) (fun l' -> Val (Plain (DInts (EI64, l')))))
| WithNulls (d, p) ->
  bind (ints_of d) (fun l ->
    bind (f l) (fun l' -> Val (WithNulls ((DInts (EI64, l')), p))))

(** val step : section list -> codec_op -> sval list -> sval list result **)

let step sections op stack =
  match op with
  | OpNullable ->
    (match stack with
     | [] -> Panic BadStack
     | s :: l ->
       (match s with
        | Plain p ->
          (match l with
           | [] -> Panic BadStack
           | s0 :: rest ->
             (match s0 with
              | Plain d ->
                bind (bytes_of p) (fun pb -> Val ((WithNulls (d,
                  pb)) :: rest))
              | WithNulls (_, _) -> Panic BadStack))
        | WithNulls (_, _) -> Panic BadStack))
  | OpAdd (_, x) ->
    (match stack with
     | [] -> Panic BadStack
     | v :: rest ->
       bind (lift_ints (add_all x) v) (fun v' -> Val (v' :: rest)))
  | OpDelta _ ->
    (match stack with
     | [] -> Panic BadStack
     | s :: rest ->
       (match s with
        | Plain d ->
          bind (ints_of d) (fun l ->
            bind (delta_decode Z0 l) (fun l' -> Val ((Plain (DInts (EI64,
              l'))) :: rest)))
        | WithNulls (_, _) -> Panic BadStack))
  | OpToI64 _ ->
    (match stack with
     | [] -> Panic BadStack
     | v :: rest ->
       bind (lift_ints (fun l -> Val l) v) (fun v' -> Val (v' :: rest)))
  | OpPush i ->
    (match nth_error sections i with
     | Some s -> Val ((of_section s) :: stack)
     | None -> Panic OutOfBounds)
  | OpDict _ ->
    (match stack with
     | [] -> Panic BadStack
     | s :: l ->
       (match s with
        | Plain dd ->
          (match l with
           | [] -> Panic BadStack
           | s0 :: l0 ->
             (match s0 with
              | Plain dr ->
                (match l0 with
                 | [] -> Panic BadStack
                 | v :: rest ->
                   bind (bytes_of dd) (fun store ->
                     bind (ints_of dr) (fun ranges ->
                       match v with
                       | Plain di ->
                         bind (ints_of di) (fun idx ->
                           bind (dict_lookup idx ranges store) (fun ss -> Val
                             ((Plain (DStr ss)) :: rest)))
                       | WithNulls (di, p) ->
                         bind (ints_of di) (fun idx ->
                           bind (dict_lookup idx ranges store) (fun ss -> Val
                             ((WithNulls ((DStr ss), p)) :: rest))))))
              | WithNulls (_, _) -> Panic BadStack))
        | WithNulls (_, _) -> Panic BadStack))
  | OpUnpack ->
    (match stack with
     | [] -> Panic BadStack
     | s :: rest ->
       (match s with
        | Plain d ->
          bind (bytes_of d) (fun b ->
            bind (unpack_strings b) (fun ss -> Val ((Plain (DStr
              ss)) :: rest)))
        | WithNulls (_, _) -> Panic BadStack))
  | OpUnhex (upper, _) ->
    (match stack with
     | [] -> Panic BadStack
     | s :: rest ->
       (match s with
        | Plain d ->
          bind (bytes_of d) (fun b ->
            bind (unhexpack_strings upper b) (fun ss -> Val ((Plain (DStr
              ss)) :: rest)))
        | WithNulls (_, _) -> Panic BadStack))

(** val run_ops :
    section list -> codec_op list -> sval list -> sval list result **)

let rec run_ops sections ops stack =
  match ops with
  | [] -> Val stack
  | op :: r -> bind (step sections op stack) (fun st -> run_ops sections r st)

(** val decode_column : column -> sval result **)

let decode_column c =
  match c.c_data with
  | [] -> Panic OutOfBounds
  | s0 :: _ ->
    bind (run_ops c.c_data c.c_ops ((of_section s0) :: [])) (fun st ->
      match st with
      | [] -> Panic BadStack
      | v :: l -> (match l with
                   | [] -> Val v
                   | _ :: _ -> Panic BadStack))

(** val cells_plain : dvec -> cell list **)

let cells_plain = function
| DInts (_, l) -> map (fun x -> CInt x) l
| DF64 l -> map (fun x -> CFloat x) l
| DStr l -> map (fun x -> CStr x) l
| DNullV n -> repeat CNull (Z.to_nat n)
| DBits l -> map (fun x -> CInt x) l

(** val mask_cells : coq_Z list -> coq_Z -> cell list -> cell list **)

let rec mask_cells p i = function
| [] -> []
| c :: r ->
  (if bv_get p i then c else CNull) :: (mask_cells p (Z.add i (Zpos Coq_xH))
                                         r)

(** val cells_of : sval -> cell list **)

let cells_of = function
| Plain d -> cells_plain d
| WithNulls (d, p) -> mask_cells p Z0 (cells_plain d)

(** val column_cells : column -> cell list result **)

let column_cells c =
  bind (decode_column c) (fun v -> Val (cells_of v))
