open BinNums
open BinPos

module N =
 struct
  (** val succ_pos : coq_N -> positive **)

  let succ_pos = function
  | N0 -> Coq_xH
  | Npos p -> Pos.succ p

  (** val add : coq_N -> coq_N -> coq_N **)

  let add n m =
    match n with
    | N0 -> m
    | Npos p -> (match m with
                 | N0 -> n
                 | Npos q -> Npos (Pos.add p q))

  (** val coq_lor : coq_N -> coq_N -> coq_N **)

  let coq_lor n m =
    match n with
    | N0 -> m
    | Npos p -> (match m with
                 | N0 -> n
                 | Npos q -> Npos (Pos.coq_lor p q))

  (** val coq_land : coq_N -> coq_N -> coq_N **)

  let coq_land n m =
    match n with
    | N0 -> N0
    | Npos p -> (match m with
                 | N0 -> N0
                 | Npos q -> Pos.coq_land p q)

  (** val ldiff : coq_N -> coq_N -> coq_N **)

  let ldiff n m =
    match n with
    | N0 -> N0
    | Npos p -> (match m with
                 | N0 -> n
                 | Npos q -> Pos.ldiff p q)
 end
