open BinNums
open Codec
open CodecBase
open ColumnBuffer
open List0
open StrEnc

val bottom : sval list -> sval result

val data_of : sval -> dvec

val cast_ints : etype -> sval -> coq_Z list result

val pop_top : sval list -> sval list

val prefix_sums : coq_Z -> coq_Z list -> coq_Z list result

val free_step : section list -> codec_op -> sval list -> sval list result

val free_run : section list -> codec_op list -> sval list -> sval list result

val decode_free : column -> sval result

val repush_op : sval -> push_op result

val compact_ops : column list -> push_op list result

val compact_column : (coq_Z -> str) -> column list -> column result
