open BinNat
open BinNums
open Datatypes
open List
open XorFloat

type value =
| RInt of coq_Z
| RFloat of coq_N
| RStr of coq_N list
| RNull

type basic_column =
| BInt of coq_Z list
| BFloat of coq_N list
| BString of coq_N list list
| BNull of coq_N
| BMixed of value list

type api_column =
| AInt of coq_Z list
| AFloat of coq_N list
| AString of coq_N list list
| ANull of coq_N
| AMixed of value list
| AXor of coq_N list option

(** val null_nan : coq_N **)

let null_nan =
  Npos (Coq_xO (Coq_xI (Coq_xO (Coq_xI (Coq_xO (Coq_xI (Coq_xO (Coq_xI
    (Coq_xO (Coq_xI (Coq_xO (Coq_xI (Coq_xO (Coq_xI (Coq_xO (Coq_xI (Coq_xO
    (Coq_xI (Coq_xO (Coq_xI (Coq_xO (Coq_xI (Coq_xO (Coq_xI (Coq_xO (Coq_xI
    (Coq_xO (Coq_xI (Coq_xO (Coq_xI (Coq_xO (Coq_xI (Coq_xO (Coq_xI (Coq_xO
    (Coq_xI (Coq_xO (Coq_xI (Coq_xO (Coq_xI (Coq_xO (Coq_xI (Coq_xO (Coq_xI
    (Coq_xO (Coq_xI (Coq_xO (Coq_xI (Coq_xO (Coq_xI (Coq_xO (Coq_xI (Coq_xI
    (Coq_xI (Coq_xI (Coq_xI (Coq_xI (Coq_xI (Coq_xI (Coq_xI (Coq_xI (Coq_xI
    Coq_xH))))))))))))))))))))))))))))))))))))))))))))))))))))))))))))))

type encoding_opts = { xor_float_compression : bool; mantissa : coq_N option }

(** val sig_bit : value -> coq_N **)

let sig_bit = function
| RInt _ -> Npos Coq_xH
| RFloat _ -> Npos (Coq_xO (Coq_xO (Coq_xO Coq_xH)))
| RStr _ -> Npos (Coq_xO Coq_xH)
| RNull -> Npos (Coq_xO (Coq_xO Coq_xH))

(** val type_signature : value list -> coq_N **)

let type_signature xs =
  fold_left (fun acc v -> N.coq_lor acc (sig_bit v)) xs N0

(** val encode_floats : encoding_opts -> coq_N list -> api_column **)

let encode_floats o fs =
  if o.xor_float_compression
  then AXor
         (encode_bytes o.mantissa (Npos (Coq_xO (Coq_xO (Coq_xI (Coq_xO
           (Coq_xO (Coq_xI Coq_xH))))))) fs)
  else AFloat fs

(** val encode_column : encoding_opts -> basic_column -> api_column **)

let encode_column o = function
| BInt xs -> AInt xs
| BFloat xs -> encode_floats o xs
| BString xs -> AString xs
| BNull n -> ANull n
| BMixed xs ->
  let s = type_signature xs in
  if N.eqb s (Npos (Coq_xO Coq_xH))
  then AString
         (flat_map (fun v -> match v with
                             | RStr x -> x :: []
                             | _ -> []) xs)
  else if N.eqb s (Npos Coq_xH)
       then AInt
              (flat_map (fun v -> match v with
                                  | RInt x -> x :: []
                                  | _ -> []) xs)
       else if N.eqb s (Npos (Coq_xO (Coq_xO Coq_xH)))
            then ANull (N.of_nat (length xs))
            else if (||) (N.eqb s (Npos (Coq_xO (Coq_xO (Coq_xO Coq_xH)))))
                      (N.eqb s (Npos (Coq_xO (Coq_xO (Coq_xI Coq_xH)))))
                 then encode_floats o
                        (flat_map (fun v ->
                          match v with
                          | RFloat f -> f :: []
                          | RNull -> null_nan :: []
                          | _ -> []) xs)
                 else AMixed xs
