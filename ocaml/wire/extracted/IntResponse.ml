open BinInt
open BinNums
open Datatypes
open List

(** val two63 : coq_Z **)

let two63 =
  Zpos (Coq_xO (Coq_xO (Coq_xO (Coq_xO (Coq_xO (Coq_xO (Coq_xO (Coq_xO
    (Coq_xO (Coq_xO (Coq_xO (Coq_xO (Coq_xO (Coq_xO (Coq_xO (Coq_xO (Coq_xO
    (Coq_xO (Coq_xO (Coq_xO (Coq_xO (Coq_xO (Coq_xO (Coq_xO (Coq_xO (Coq_xO
    (Coq_xO (Coq_xO (Coq_xO (Coq_xO (Coq_xO (Coq_xO (Coq_xO (Coq_xO (Coq_xO
    (Coq_xO (Coq_xO (Coq_xO (Coq_xO (Coq_xO (Coq_xO (Coq_xO (Coq_xO (Coq_xO
    (Coq_xO (Coq_xO (Coq_xO (Coq_xO (Coq_xO (Coq_xO (Coq_xO (Coq_xO (Coq_xO
    (Coq_xO (Coq_xO (Coq_xO (Coq_xO (Coq_xO (Coq_xO (Coq_xO (Coq_xO (Coq_xO
    (Coq_xO
    Coq_xH)))))))))))))))))))))))))))))))))))))))))))))))))))))))))))))))

(** val two64 : coq_Z **)

let two64 =
  Zpos (Coq_xO (Coq_xO (Coq_xO (Coq_xO (Coq_xO (Coq_xO (Coq_xO (Coq_xO
    (Coq_xO (Coq_xO (Coq_xO (Coq_xO (Coq_xO (Coq_xO (Coq_xO (Coq_xO (Coq_xO
    (Coq_xO (Coq_xO (Coq_xO (Coq_xO (Coq_xO (Coq_xO (Coq_xO (Coq_xO (Coq_xO
    (Coq_xO (Coq_xO (Coq_xO (Coq_xO (Coq_xO (Coq_xO (Coq_xO (Coq_xO (Coq_xO
    (Coq_xO (Coq_xO (Coq_xO (Coq_xO (Coq_xO (Coq_xO (Coq_xO (Coq_xO (Coq_xO
    (Coq_xO (Coq_xO (Coq_xO (Coq_xO (Coq_xO (Coq_xO (Coq_xO (Coq_xO (Coq_xO
    (Coq_xO (Coq_xO (Coq_xO (Coq_xO (Coq_xO (Coq_xO (Coq_xO (Coq_xO (Coq_xO
    (Coq_xO (Coq_xO
    Coq_xH))))))))))))))))))))))))))))))))))))))))))))))))))))))))))))))))

(** val i128_max : coq_Z **)

let i128_max =
  Zpos (Coq_xI (Coq_xI (Coq_xI (Coq_xI (Coq_xI (Coq_xI (Coq_xI (Coq_xI
    (Coq_xI (Coq_xI (Coq_xI (Coq_xI (Coq_xI (Coq_xI (Coq_xI (Coq_xI (Coq_xI
    (Coq_xI (Coq_xI (Coq_xI (Coq_xI (Coq_xI (Coq_xI (Coq_xI (Coq_xI (Coq_xI
    (Coq_xI (Coq_xI (Coq_xI (Coq_xI (Coq_xI (Coq_xI (Coq_xI (Coq_xI (Coq_xI
    (Coq_xI (Coq_xI (Coq_xI (Coq_xI (Coq_xI (Coq_xI (Coq_xI (Coq_xI (Coq_xI
    (Coq_xI (Coq_xI (Coq_xI (Coq_xI (Coq_xI (Coq_xI (Coq_xI (Coq_xI (Coq_xI
    (Coq_xI (Coq_xI (Coq_xI (Coq_xI (Coq_xI (Coq_xI (Coq_xI (Coq_xI (Coq_xI
    (Coq_xI (Coq_xI (Coq_xI (Coq_xI (Coq_xI (Coq_xI (Coq_xI (Coq_xI (Coq_xI
    (Coq_xI (Coq_xI (Coq_xI (Coq_xI (Coq_xI (Coq_xI (Coq_xI (Coq_xI (Coq_xI
    (Coq_xI (Coq_xI (Coq_xI (Coq_xI (Coq_xI (Coq_xI (Coq_xI (Coq_xI (Coq_xI
    (Coq_xI (Coq_xI (Coq_xI (Coq_xI (Coq_xI (Coq_xI (Coq_xI (Coq_xI (Coq_xI
    (Coq_xI (Coq_xI (Coq_xI (Coq_xI (Coq_xI (Coq_xI (Coq_xI (Coq_xI (Coq_xI
    (Coq_xI (Coq_xI (Coq_xI (Coq_xI (Coq_xI (Coq_xI (Coq_xI (Coq_xI (Coq_xI
    (Coq_xI (Coq_xI (Coq_xI (Coq_xI (Coq_xI (Coq_xI (Coq_xI (Coq_xI (Coq_xI
    (Coq_xI
    Coq_xH))))))))))))))))))))))))))))))))))))))))))))))))))))))))))))))))))))))))))))))))))))))))))))))))))))))))))))))))))))))))))))))

(** val i128_min : coq_Z **)

let i128_min =
  Zneg (Coq_xO (Coq_xO (Coq_xO (Coq_xO (Coq_xO (Coq_xO (Coq_xO (Coq_xO
    (Coq_xO (Coq_xO (Coq_xO (Coq_xO (Coq_xO (Coq_xO (Coq_xO (Coq_xO (Coq_xO
    (Coq_xO (Coq_xO (Coq_xO (Coq_xO (Coq_xO (Coq_xO (Coq_xO (Coq_xO (Coq_xO
    (Coq_xO (Coq_xO (Coq_xO (Coq_xO (Coq_xO (Coq_xO (Coq_xO (Coq_xO (Coq_xO
    (Coq_xO (Coq_xO (Coq_xO (Coq_xO (Coq_xO (Coq_xO (Coq_xO (Coq_xO (Coq_xO
    (Coq_xO (Coq_xO (Coq_xO (Coq_xO (Coq_xO (Coq_xO (Coq_xO (Coq_xO (Coq_xO
    (Coq_xO (Coq_xO (Coq_xO (Coq_xO (Coq_xO (Coq_xO (Coq_xO (Coq_xO (Coq_xO
    (Coq_xO (Coq_xO (Coq_xO (Coq_xO (Coq_xO (Coq_xO (Coq_xO (Coq_xO (Coq_xO
    (Coq_xO (Coq_xO (Coq_xO (Coq_xO (Coq_xO (Coq_xO (Coq_xO (Coq_xO (Coq_xO
    (Coq_xO (Coq_xO (Coq_xO (Coq_xO (Coq_xO (Coq_xO (Coq_xO (Coq_xO (Coq_xO
    (Coq_xO (Coq_xO (Coq_xO (Coq_xO (Coq_xO (Coq_xO (Coq_xO (Coq_xO (Coq_xO
    (Coq_xO (Coq_xO (Coq_xO (Coq_xO (Coq_xO (Coq_xO (Coq_xO (Coq_xO (Coq_xO
    (Coq_xO (Coq_xO (Coq_xO (Coq_xO (Coq_xO (Coq_xO (Coq_xO (Coq_xO (Coq_xO
    (Coq_xO (Coq_xO (Coq_xO (Coq_xO (Coq_xO (Coq_xO (Coq_xO (Coq_xO (Coq_xO
    (Coq_xO (Coq_xO
    Coq_xH)))))))))))))))))))))))))))))))))))))))))))))))))))))))))))))))))))))))))))))))))))))))))))))))))))))))))))))))))))))))))))))))

(** val wrap64 : coq_Z -> coq_Z **)

let wrap64 z =
  Z.sub (Z.modulo (Z.add z two63) two64) two63

(** val wadd : coq_Z -> coq_Z -> coq_Z **)

let wadd a b =
  wrap64 (Z.add a b)

(** val wsub : coq_Z -> coq_Z -> coq_Z **)

let wsub a b =
  wrap64 (Z.sub a b)

(** val wmul : coq_Z -> coq_Z -> coq_Z **)

let wmul a b =
  wrap64 (Z.mul a b)

type width =
| W8
| W16
| W32

(** val wlo : width -> coq_Z **)

let wlo = function
| W8 ->
  Zneg (Coq_xO (Coq_xO (Coq_xO (Coq_xO (Coq_xO (Coq_xO (Coq_xO Coq_xH)))))))
| W16 ->
  Zneg (Coq_xO (Coq_xO (Coq_xO (Coq_xO (Coq_xO (Coq_xO (Coq_xO (Coq_xO
    (Coq_xO (Coq_xO (Coq_xO (Coq_xO (Coq_xO (Coq_xO (Coq_xO
    Coq_xH)))))))))))))))
| W32 ->
  Zneg (Coq_xO (Coq_xO (Coq_xO (Coq_xO (Coq_xO (Coq_xO (Coq_xO (Coq_xO
    (Coq_xO (Coq_xO (Coq_xO (Coq_xO (Coq_xO (Coq_xO (Coq_xO (Coq_xO (Coq_xO
    (Coq_xO (Coq_xO (Coq_xO (Coq_xO (Coq_xO (Coq_xO (Coq_xO (Coq_xO (Coq_xO
    (Coq_xO (Coq_xO (Coq_xO (Coq_xO (Coq_xO
    Coq_xH)))))))))))))))))))))))))))))))

(** val whi : width -> coq_Z **)

let whi = function
| W8 -> Zpos (Coq_xI (Coq_xI (Coq_xI (Coq_xI (Coq_xI (Coq_xI Coq_xH))))))
| W16 ->
  Zpos (Coq_xI (Coq_xI (Coq_xI (Coq_xI (Coq_xI (Coq_xI (Coq_xI (Coq_xI
    (Coq_xI (Coq_xI (Coq_xI (Coq_xI (Coq_xI (Coq_xI Coq_xH))))))))))))))
| W32 ->
  Zpos (Coq_xI (Coq_xI (Coq_xI (Coq_xI (Coq_xI (Coq_xI (Coq_xI (Coq_xI
    (Coq_xI (Coq_xI (Coq_xI (Coq_xI (Coq_xI (Coq_xI (Coq_xI (Coq_xI (Coq_xI
    (Coq_xI (Coq_xI (Coq_xI (Coq_xI (Coq_xI (Coq_xI (Coq_xI (Coq_xI (Coq_xI
    (Coq_xI (Coq_xI (Coq_xI (Coq_xI Coq_xH))))))))))))))))))))))))))))))

(** val fits : width -> coq_Z -> bool **)

let fits w z =
  (&&) (Z.leb (wlo w) z) (Z.leb z (whi w))

type layout =
| LRange of coq_Z * nat * coq_Z
| LDelta of width * coq_Z * coq_Z list
| LDD of width * coq_Z * coq_Z * coq_Z list
| LPlain of coq_Z list

(** val wdeltas : coq_Z -> coq_Z list -> coq_Z list **)

let rec wdeltas prev = function
| [] -> []
| x :: r -> (wsub x prev) :: (wdeltas x r)

(** val xdeltas : coq_Z -> coq_Z list -> coq_Z list **)

let rec xdeltas prev = function
| [] -> []
| d :: r -> (Z.sub d prev) :: (xdeltas d r)

(** val min_of : coq_Z -> coq_Z list -> coq_Z **)

let min_of init l =
  fold_left Z.min l init

(** val max_of : coq_Z -> coq_Z list -> coq_Z **)

let max_of init l =
  fold_left Z.max l init

(** val all_fit : width -> coq_Z list -> bool **)

let all_fit w l =
  forallb (fits w) l

(** val encode : coq_Z list -> layout option **)

let encode xs = match xs with
| [] -> Some (LPlain xs)
| x0 :: tl ->
  (match tl with
   | [] -> Some (LPlain xs)
   | x1 :: rest ->
     let ds = wdeltas x0 tl in
     let d1 = wsub x1 x0 in
     let dtail = wdeltas x1 rest in
     let min_delta = min_of d1 dtail in
     let max_delta = max_of d1 dtail in
     let dds = xdeltas d1 dtail in
     let min_dd = min_of i128_max dds in
     let max_dd = max_of i128_min dds in
     let try_delta = fun w ->
       if all_fit w ds then Some (LDelta (w, x0, ds)) else None
     in
     let try_dd = fun w ->
       if all_fit w dds then Some (LDD (w, x0, x1, dds)) else None
     in
     if (&&)
          ((&&) (Z.eqb min_delta max_delta)
            (Z.leb max_delta (Z.sub two63 (Zpos Coq_xH))))
          (Z.leb (Z.opp two63) max_delta)
     then Some (LRange (x0, (length xs), min_delta))
     else if (&&) (Z.leb (wlo W8) min_delta) (Z.leb max_delta (whi W8))
          then try_delta W8
          else if (&&) (Z.leb (wlo W8) min_dd) (Z.leb max_dd (whi W8))
               then try_dd W8
               else if (&&) (Z.leb (wlo W16) min_delta)
                         (Z.leb max_delta (whi W16))
                    then try_delta W16
                    else if (&&) (Z.leb (wlo W16) min_dd)
                              (Z.leb max_dd (whi W16))
                         then try_dd W16
                         else if (&&) (Z.leb (wlo W32) min_delta)
                                   (Z.leb max_delta (whi W32))
                              then try_delta W32
                              else if (&&) (Z.leb (wlo W32) min_dd)
                                        (Z.leb max_dd (whi W32))
                                   then try_dd W32
                                   else Some (LPlain xs))

(** val undelta : coq_Z -> coq_Z list -> coq_Z list **)

let rec undelta last = function
| [] -> []
| d :: r -> let last' = wadd last d in last' :: (undelta last' r)

(** val undd : coq_Z -> coq_Z -> coq_Z list -> coq_Z list **)

let rec undd last last_delta = function
| [] -> []
| dd :: r ->
  let ld = wadd last_delta dd in
  let last' = wadd last ld in last' :: (undd last' ld r)

(** val range_from : coq_Z -> coq_Z -> coq_Z -> nat -> coq_Z list **)

let rec range_from start step i = function
| O -> []
| S n' ->
  (wadd start (wmul i step)) :: (range_from start step
                                  (Z.add i (Zpos Coq_xH)) n')

(** val decode : layout -> coq_Z list **)

let decode = function
| LRange (start, len, step) -> range_from start step Z0 len
| LDelta (_, first, data) -> first :: (undelta first data)
| LDD (_, first, second, data) ->
  first :: (second :: (undd second (wsub second first) data))
| LPlain xs -> xs

(** val roundtrip : coq_Z list -> coq_Z list option **)

let roundtrip xs =
  match encode xs with
  | Some l -> Some (decode l)
  | None -> None
