open BinNat
open BinNums
open Datatypes

type str = coq_N list

(** val lex_cmp : str -> str -> comparison **)

let rec lex_cmp a b =
  match a with
  | [] -> (match b with
           | [] -> Eq
           | _ :: _ -> Lt)
  | x :: a' ->
    (match b with
     | [] -> Gt
     | y :: b' -> (match N.compare x y with
                   | Eq -> lex_cmp a' b'
                   | x0 -> x0))

(** val str_eqb : str -> str -> bool **)

let str_eqb a b =
  match lex_cmp a b with
  | Eq -> true
  | _ -> false
