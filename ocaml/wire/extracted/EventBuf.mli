open BinNums
open Datatypes
open List
open PeanoNat

type anyval =
| VInt of coq_Z
| VFloat of coq_N
| VStr of coq_N list
| VNull

type coldata =
| CEmpty
| CDense of coq_N list
| CSparse of (nat * coq_N) list
| CI64 of coq_Z list
| CSparseI64 of (nat * coq_Z) list
| CString of coq_N list list
| CMixed of anyval list

type push_result =
| Pushed of coldata
| PushPanic

val enumerate_from : nat -> 'a1 list -> (nat * 'a1) list

val push_float : (coq_Z -> coq_N) -> coldata -> coq_N -> nat -> push_result

val push : (coq_Z -> coq_N) -> coldata -> anyval -> nat -> push_result

val push_rows :
  (coq_Z -> coq_N) -> coldata -> nat -> anyval option list -> push_result
