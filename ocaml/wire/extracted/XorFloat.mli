open BinNat
open BinNums
open Datatypes
open Nat

val bits_of : coq_N -> nat -> bool list

val of_bits : bool list -> coq_N

val read_bits : nat -> bool list -> (bool list * bool list) option

val read : nat -> bool list -> (coq_N * bool list) option

val pctz : positive -> coq_N

val ctz64 : coq_N -> coq_N

val clz64 : coq_N -> coq_N

val all_ones : coq_N

val u32_max : coq_N

val mask_of : coq_N option -> coq_N option

type enc_st = { e_last : coq_N; e_lz : coq_N; e_tz : coq_N; e_sb : coq_N;
                e_regret : coq_N }

val obind : 'a1 option -> ('a1 -> 'a2 option) -> 'a2 option

val enc_step :
  coq_N -> coq_N -> enc_st -> coq_N -> (enc_st * bool list) option

val enc_loop : coq_N -> coq_N -> enc_st -> coq_N list -> bool list option

val enc_init : coq_N -> enc_st

val encode : coq_N -> coq_N -> coq_N list -> bool list option

type dec_st = { d_last : coq_N; d_tz : coq_N; d_sb : coq_N }

val dec_step : dec_st -> bool list -> (dec_st * bool list) option

val dec_loop : nat -> dec_st -> bool list -> coq_N list option

val decode : bool list -> coq_N list option

val expected_from : coq_N -> coq_N -> coq_N -> coq_N list -> coq_N list

val expected : coq_N -> coq_N list -> coq_N list

val take_byte : nat -> bool list -> bool list * bool list

val bytes_of_bits : nat -> bool list -> coq_N list

val bits_of_bytes : coq_N list -> bool list

val encode_bytes : coq_N option -> coq_N -> coq_N list -> coq_N list option

val decode_bytes : coq_N list -> coq_N list option
