open BinNat
open BinNums
open Datatypes
open List
open XorFloat

type value =
| RInt of coq_Z
| RFloat of coq_N
| RStr of coq_N list
| RNull

type basic_column =
| BInt of coq_Z list
| BFloat of coq_N list
| BString of coq_N list list
| BNull of coq_N
| BMixed of value list

type api_column =
| AInt of coq_Z list
| AFloat of coq_N list
| AString of coq_N list list
| ANull of coq_N
| AMixed of value list
| AXor of coq_N list option

val null_nan : coq_N

type encoding_opts = { xor_float_compression : bool; mantissa : coq_N option }

val sig_bit : value -> coq_N

val type_signature : value list -> coq_N

val encode_floats : encoding_opts -> coq_N list -> api_column

val encode_column : encoding_opts -> basic_column -> api_column
