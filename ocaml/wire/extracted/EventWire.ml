open BinNums
open Datatypes
open EventBuf
open List
open Routing

type table_buf = { tb_len : coq_N; tb_cols : (str * coldata) list }

type event_buf = (str * table_buf) list

type data_msg =
| MF64 of coq_N list
| MSparseF64 of nat list * coq_N list
| MI64 of coq_Z list
| MString of str list
| MEmpty
| MSparseI64 of nat list * coq_Z list
| MMixed of anyval list

type table_msg = { tm_len : coq_N; tm_name : str;
                   tm_cols : (str * data_msg) list }

type event_msg = table_msg list

(** val ser_data : coldata -> data_msg **)

let ser_data = function
| CEmpty -> MEmpty
| CDense l -> MF64 l
| CSparse l -> MSparseF64 ((map fst l), (map snd l))
| CI64 l -> MI64 l
| CSparseI64 l -> MSparseI64 ((map fst l), (map snd l))
| CString l -> MString l
| CMixed l -> MMixed l

(** val ser_table : (str * table_buf) -> table_msg **)

let ser_table nt =
  { tm_len = (snd nt).tb_len; tm_name = (fst nt); tm_cols =
    (map (fun kd -> ((fst kd), (ser_data (snd kd)))) (snd nt).tb_cols) }

(** val serialize : event_buf -> event_msg **)

let serialize e =
  map ser_table e

(** val de_data : data_msg -> coldata **)

let de_data = function
| MF64 l -> CDense l
| MSparseF64 (i, v) -> CSparse (combine i v)
| MI64 l -> CI64 l
| MString l -> CString l
| MEmpty -> CEmpty
| MSparseI64 (i, v) -> CSparseI64 (combine i v)
| MMixed l -> CMixed l

(** val aput : str -> 'a1 -> (str * 'a1) list -> (str * 'a1) list **)

let rec aput k v = function
| [] -> (k, v) :: []
| p :: r ->
  let (k', v') = p in
  if str_eqb k k' then (k, v) :: r else (k', v') :: (aput k v r)

(** val de_cols :
    (str * data_msg) list -> (str * coldata) list -> (str * coldata) list **)

let rec de_cols cols acc =
  match cols with
  | [] -> acc
  | p :: r -> let (k, m) = p in de_cols r (aput k (de_data m) acc)

(** val de_tables : event_msg -> event_buf -> event_buf **)

let rec de_tables ts acc =
  match ts with
  | [] -> acc
  | t :: r ->
    de_tables r
      (aput t.tm_name { tb_len = t.tm_len; tb_cols = (de_cols t.tm_cols []) }
        acc)

(** val deserialize : event_msg -> event_buf **)

let deserialize g =
  de_tables g []
