open Datatypes

module Nat :
 sig
  val eqb : nat -> nat -> bool
 end
