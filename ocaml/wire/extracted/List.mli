open Datatypes

val map : ('a1 -> 'a2) -> 'a1 list -> 'a2 list

val flat_map : ('a1 -> 'a2 list) -> 'a1 list -> 'a2 list

val fold_left : ('a1 -> 'a2 -> 'a1) -> 'a2 list -> 'a1 -> 'a1

val forallb : ('a1 -> bool) -> 'a1 list -> bool

val combine : 'a1 list -> 'a2 list -> ('a1 * 'a2) list
