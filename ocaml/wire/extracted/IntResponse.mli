open BinInt
open BinNums
open Datatypes
open List

val two63 : coq_Z

val two64 : coq_Z

val i128_max : coq_Z

val i128_min : coq_Z

val wrap64 : coq_Z -> coq_Z

val wadd : coq_Z -> coq_Z -> coq_Z

val wsub : coq_Z -> coq_Z -> coq_Z

val wmul : coq_Z -> coq_Z -> coq_Z

type width =
| W8
| W16
| W32

val wlo : width -> coq_Z

val whi : width -> coq_Z

val fits : width -> coq_Z -> bool

type layout =
| LRange of coq_Z * nat * coq_Z
| LDelta of width * coq_Z * coq_Z list
| LDD of width * coq_Z * coq_Z * coq_Z list
| LPlain of coq_Z list

val wdeltas : coq_Z -> coq_Z list -> coq_Z list

val xdeltas : coq_Z -> coq_Z list -> coq_Z list

val min_of : coq_Z -> coq_Z list -> coq_Z

val max_of : coq_Z -> coq_Z list -> coq_Z

val all_fit : width -> coq_Z list -> bool

val encode : coq_Z list -> layout option

val undelta : coq_Z -> coq_Z list -> coq_Z list

val undd : coq_Z -> coq_Z -> coq_Z list -> coq_Z list

val range_from : coq_Z -> coq_Z -> coq_Z -> nat -> coq_Z list

val decode : layout -> coq_Z list

val roundtrip : coq_Z list -> coq_Z list option
