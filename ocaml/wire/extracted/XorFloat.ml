open BinNat
open BinNums
open Datatypes
open Nat

(** val bits_of : coq_N -> nat -> bool list **)

let rec bits_of v = function
| O -> []
| S k' -> (N.odd v) :: (bits_of (N.div2 v) k')

(** val of_bits : bool list -> coq_N **)

let rec of_bits = function
| [] -> N0
| b :: r ->
  N.add (if b then Npos Coq_xH else N0)
    (N.mul (Npos (Coq_xO Coq_xH)) (of_bits r))

(** val read_bits : nat -> bool list -> (bool list * bool list) option **)

let rec read_bits k s =
  match k with
  | O -> Some ([], s)
  | S k' ->
    (match s with
     | [] -> None
     | b :: r ->
       (match read_bits k' r with
        | Some p -> let (bs, rest) = p in Some ((b :: bs), rest)
        | None -> None))

(** val read : nat -> bool list -> (coq_N * bool list) option **)

let read k s =
  match read_bits k s with
  | Some p -> let (bs, rest) = p in Some ((of_bits bs), rest)
  | None -> None

(** val pctz : positive -> coq_N **)

let rec pctz = function
| Coq_xO q -> N.add (Npos Coq_xH) (pctz q)
| _ -> N0

(** val ctz64 : coq_N -> coq_N **)

let ctz64 = function
| N0 -> Npos (Coq_xO (Coq_xO (Coq_xO (Coq_xO (Coq_xO (Coq_xO Coq_xH))))))
| Npos p -> pctz p

(** val clz64 : coq_N -> coq_N **)

let clz64 x =
  N.sub (Npos (Coq_xO (Coq_xO (Coq_xO (Coq_xO (Coq_xO (Coq_xO Coq_xH)))))))
    (N.size x)

(** val all_ones : coq_N **)

let all_ones =
  Npos (Coq_xI (Coq_xI (Coq_xI (Coq_xI (Coq_xI (Coq_xI (Coq_xI (Coq_xI
    (Coq_xI (Coq_xI (Coq_xI (Coq_xI (Coq_xI (Coq_xI (Coq_xI (Coq_xI (Coq_xI
    (Coq_xI (Coq_xI (Coq_xI (Coq_xI (Coq_xI (Coq_xI (Coq_xI (Coq_xI (Coq_xI
    (Coq_xI (Coq_xI (Coq_xI (Coq_xI (Coq_xI (Coq_xI (Coq_xI (Coq_xI (Coq_xI
    (Coq_xI (Coq_xI (Coq_xI (Coq_xI (Coq_xI (Coq_xI (Coq_xI (Coq_xI (Coq_xI
    (Coq_xI (Coq_xI (Coq_xI (Coq_xI (Coq_xI (Coq_xI (Coq_xI (Coq_xI (Coq_xI
    (Coq_xI (Coq_xI (Coq_xI (Coq_xI (Coq_xI (Coq_xI (Coq_xI (Coq_xI (Coq_xI
    (Coq_xI
    Coq_xH)))))))))))))))))))))))))))))))))))))))))))))))))))))))))))))))

(** val u32_max : coq_N **)

let u32_max =
  Npos (Coq_xI (Coq_xI (Coq_xI (Coq_xI (Coq_xI (Coq_xI (Coq_xI (Coq_xI
    (Coq_xI (Coq_xI (Coq_xI (Coq_xI (Coq_xI (Coq_xI (Coq_xI (Coq_xI (Coq_xI
    (Coq_xI (Coq_xI (Coq_xI (Coq_xI (Coq_xI (Coq_xI (Coq_xI (Coq_xI (Coq_xI
    (Coq_xI (Coq_xI (Coq_xI (Coq_xI (Coq_xI
    Coq_xH)))))))))))))))))))))))))))))))

(** val mask_of : coq_N option -> coq_N option **)

let mask_of = function
| Some m ->
  if N.leb m (Npos (Coq_xO (Coq_xO (Coq_xI (Coq_xO (Coq_xI Coq_xH))))))
  then Some
         (N.sub all_ones
           (N.sub
             (N.pow (Npos (Coq_xO Coq_xH))
               (N.sub (Npos (Coq_xO (Coq_xO (Coq_xI (Coq_xO (Coq_xI
                 Coq_xH)))))) m)) (Npos Coq_xH)))
  else None
| None -> Some all_ones

type enc_st = { e_last : coq_N; e_lz : coq_N; e_tz : coq_N; e_sb : coq_N;
                e_regret : coq_N }

(** val obind : 'a1 option -> ('a1 -> 'a2 option) -> 'a2 option **)

let obind o f =
  match o with
  | Some a -> f a
  | None -> None

(** val enc_step :
    coq_N -> coq_N -> enc_st -> coq_N -> (enc_st * bool list) option **)

let enc_step mask maxr st f =
  let x = N.coq_land (N.coq_lxor f st.e_last) mask in
  let lzs = N.min (clz64 x) (Npos (Coq_xI (Coq_xI (Coq_xI (Coq_xI Coq_xH)))))
  in
  let tzs = ctz64 x in
  if N.eqb tzs (Npos (Coq_xO (Coq_xO (Coq_xO (Coq_xO (Coq_xO (Coq_xO
       Coq_xH)))))))
  then Some ({ e_last = f; e_lz = st.e_lz; e_tz = st.e_tz; e_sb = st.e_sb;
         e_regret = st.e_regret }, (false :: []))
  else let sbs =
         N.sub
           (N.sub (Npos (Coq_xO (Coq_xO (Coq_xO (Coq_xO (Coq_xO (Coq_xO
             Coq_xH))))))) lzs) tzs
       in
       if (&&) ((&&) (N.leb st.e_lz lzs) (N.leb st.e_tz tzs))
            ((||) (N.ltb st.e_regret maxr) (N.eqb sbs st.e_sb))
       then if (&&) (N.leb sbs st.e_sb)
                 (N.leb (N.add st.e_regret (N.sub st.e_sb sbs)) u32_max)
            then Some ({ e_last = f; e_lz = st.e_lz; e_tz = st.e_tz; e_sb =
                   st.e_sb; e_regret =
                   (N.add st.e_regret (N.sub st.e_sb sbs)) },
                   (app (true :: (false :: []))
                     (bits_of (N.shiftr x st.e_tz) (N.to_nat st.e_sb))))
            else None
       else Some ({ e_last = f; e_lz = lzs; e_tz = tzs; e_sb = sbs;
              e_regret = N0 },
              (app (true :: (true :: []))
                (app (bits_of lzs (S (S (S (S (S O))))))
                  (app
                    (bits_of (N.sub sbs (Npos Coq_xH)) (S (S (S (S (S (S
                      O))))))) (bits_of (N.shiftr x tzs) (N.to_nat sbs))))))

(** val enc_loop :
    coq_N -> coq_N -> enc_st -> coq_N list -> bool list option **)

let rec enc_loop mask maxr st = function
| [] -> Some []
| f :: r ->
  (match enc_step mask maxr st f with
   | Some p ->
     let (st', out) = p in
     (match enc_loop mask maxr st' r with
      | Some rest -> Some (app out rest)
      | None -> None)
   | None -> None)

(** val enc_init : coq_N -> enc_st **)

let enc_init f0 =
  { e_last = f0; e_lz = (Npos (Coq_xI (Coq_xO (Coq_xO (Coq_xO (Coq_xO (Coq_xO
    Coq_xH))))))); e_tz = (Npos (Coq_xI (Coq_xO (Coq_xO (Coq_xO (Coq_xO
    (Coq_xO Coq_xH))))))); e_sb = N0; e_regret = N0 }

(** val encode : coq_N -> coq_N -> coq_N list -> bool list option **)

let encode mask maxr fs =
  let hdr =
    bits_of (N.of_nat (length fs)) (S (S (S (S (S (S (S (S (S (S (S (S (S (S
      (S (S (S (S (S (S (S (S (S (S (S (S (S (S (S (S (S (S (S (S (S (S (S (S
      (S (S (S (S (S (S (S (S (S (S (S (S (S (S (S (S (S (S (S (S (S (S (S (S
      (S (S O))))))))))))))))))))))))))))))))))))))))))))))))))))))))))))))))
  in
  (match fs with
   | [] -> Some hdr
   | f0 :: r ->
     obind (enc_loop mask maxr (enc_init f0) r) (fun body -> Some
       (app hdr
         (app
           (bits_of f0 (S (S (S (S (S (S (S (S (S (S (S (S (S (S (S (S (S (S
             (S (S (S (S (S (S (S (S (S (S (S (S (S (S (S (S (S (S (S (S (S
             (S (S (S (S (S (S (S (S (S (S (S (S (S (S (S (S (S (S (S (S (S
             (S (S (S (S
             O)))))))))))))))))))))))))))))))))))))))))))))))))))))))))))))))))
           body))))

type dec_st = { d_last : coq_N; d_tz : coq_N; d_sb : coq_N }

(** val dec_step : dec_st -> bool list -> (dec_st * bool list) option **)

let dec_step st s =
  match read (S O) s with
  | Some p ->
    let (b, s1) = p in
    if N.eqb b N0
    then Some (st, s1)
    else (match read (S O) s1 with
          | Some p0 ->
            let (b2, s2) = p0 in
            let hdr =
              if N.eqb b2 (Npos Coq_xH)
              then (match read (S (S (S (S (S O))))) s2 with
                    | Some p1 ->
                      let (lz, s3) = p1 in
                      (match read (S (S (S (S (S (S O)))))) s3 with
                       | Some p2 ->
                         let (sb1, s4) = p2 in
                         Some
                         (((N.sub
                             (N.sub (Npos (Coq_xO (Coq_xO (Coq_xO (Coq_xO
                               (Coq_xO (Coq_xO Coq_xH))))))) lz)
                             (N.add sb1 (Npos Coq_xH))),
                         (N.add sb1 (Npos Coq_xH))), s4)
                       | None -> None)
                    | None -> None)
              else Some ((st.d_tz, st.d_sb), s2)
            in
            (match hdr with
             | Some p1 ->
               let (p2, s5) = p1 in
               let (tz, sb) = p2 in
               (match read (N.to_nat sb) s5 with
                | Some p3 ->
                  let (x, s6) = p3 in
                  Some ({ d_last = (N.coq_lxor st.d_last (N.shiftl x tz));
                  d_tz = tz; d_sb = sb }, s6)
                | None -> None)
             | None -> None)
          | None -> None)
  | None -> None

(** val dec_loop : nat -> dec_st -> bool list -> coq_N list option **)

let rec dec_loop n st s =
  match n with
  | O -> Some []
  | S n' ->
    (match dec_step st s with
     | Some p ->
       let (st', s') = p in
       (match dec_loop n' st' s' with
        | Some r -> Some (st'.d_last :: r)
        | None -> None)
     | None -> None)

(** val decode : bool list -> coq_N list option **)

let decode s =
  match read (S (S (S (S (S (S (S (S (S (S (S (S (S (S (S (S (S (S (S (S (S
          (S (S (S (S (S (S (S (S (S (S (S (S (S (S (S (S (S (S (S (S (S (S
          (S (S (S (S (S (S (S (S (S (S (S (S (S (S (S (S (S (S (S (S (S
          O)))))))))))))))))))))))))))))))))))))))))))))))))))))))))))))))) s with
  | Some p ->
    let (len, s1) = p in
    if N.eqb len N0
    then Some []
    else (match read (S (S (S (S (S (S (S (S (S (S (S (S (S (S (S (S (S (S (S
                  (S (S (S (S (S (S (S (S (S (S (S (S (S (S (S (S (S (S (S (S
                  (S (S (S (S (S (S (S (S (S (S (S (S (S (S (S (S (S (S (S (S
                  (S (S (S (S (S
                  O))))))))))))))))))))))))))))))))))))))))))))))))))))))))))))))))
                  s1 with
          | Some p0 ->
            let (f0, s2) = p0 in
            (match dec_loop (sub (N.to_nat len) (S O)) { d_last = f0; d_tz =
                     (Npos (Coq_xI (Coq_xO (Coq_xO (Coq_xO (Coq_xO (Coq_xO
                     Coq_xH))))))); d_sb = N0 } s2 with
             | Some r -> Some (f0 :: r)
             | None -> None)
          | None -> None)
  | None -> None

(** val expected_from :
    coq_N -> coq_N -> coq_N -> coq_N list -> coq_N list **)

let rec expected_from mask dprev fprev = function
| [] -> []
| f :: r ->
  let d = N.coq_lxor dprev (N.coq_land (N.coq_lxor f fprev) mask) in
  d :: (expected_from mask d f r)

(** val expected : coq_N -> coq_N list -> coq_N list **)

let expected mask = function
| [] -> []
| f0 :: r -> f0 :: (expected_from mask f0 f0 r)

(** val take_byte : nat -> bool list -> bool list * bool list **)

let rec take_byte k s =
  match k with
  | O -> ([], s)
  | S k' ->
    (match s with
     | [] -> let (bs, r) = take_byte k' [] in ((false :: bs), r)
     | b :: t -> let (bs, r) = take_byte k' t in ((b :: bs), r))

(** val bytes_of_bits : nat -> bool list -> coq_N list **)

let rec bytes_of_bits fuel s =
  match fuel with
  | O -> []
  | S fuel' ->
    (match s with
     | [] -> []
     | _ :: _ ->
       let (bs, r) = take_byte (S (S (S (S (S (S (S (S O)))))))) s in
       (of_bits bs) :: (bytes_of_bits fuel' r))

(** val bits_of_bytes : coq_N list -> bool list **)

let rec bits_of_bytes = function
| [] -> []
| b :: r ->
  app (bits_of b (S (S (S (S (S (S (S (S O))))))))) (bits_of_bytes r)

(** val encode_bytes :
    coq_N option -> coq_N -> coq_N list -> coq_N list option **)

let encode_bytes mantissa maxr fs =
  obind (mask_of mantissa) (fun mask ->
    obind (encode mask maxr fs) (fun bits -> Some
      (bytes_of_bits (length bits) bits)))

(** val decode_bytes : coq_N list -> coq_N list option **)

let decode_bytes bs =
  decode (bits_of_bytes bs)
