open BinNums

type query_error =
| QE_SytaxErrorCharsRemaining
| QE_SyntaxErrorBytesRemaining
| QE_ParseError
| QE_FatalError
| QE_NotImplemented
| QE_TypeError
| QE_Overflow
| QE_Canceled

(** val status_of : query_error -> coq_N option **)

let status_of = function
| QE_FatalError ->
  Some (Npos (Coq_xO (Coq_xO (Coq_xI (Coq_xO (Coq_xI (Coq_xI (Coq_xI (Coq_xI
    Coq_xH)))))))))
| QE_NotImplemented ->
  Some (Npos (Coq_xI (Coq_xO (Coq_xI (Coq_xO (Coq_xI (Coq_xI (Coq_xI (Coq_xI
    Coq_xH)))))))))
| _ ->
  Some (Npos (Coq_xO (Coq_xO (Coq_xO (Coq_xO (Coq_xI (Coq_xO (Coq_xO (Coq_xI
    Coq_xH)))))))))

(** val all_errors : query_error list **)

let all_errors =
  QE_SytaxErrorCharsRemaining :: (QE_SyntaxErrorBytesRemaining :: (QE_ParseError :: (QE_FatalError :: (QE_NotImplemented :: (QE_TypeError :: (QE_Overflow :: (QE_Canceled :: [])))))))
