open Datatypes

(** val map : ('a1 -> 'a2) -> 'a1 list -> 'a2 list **)

let rec map f = function
| [] -> []
| a :: t -> (f a) :: (map f t)

(** val flat_map : ('a1 -> 'a2 list) -> 'a1 list -> 'a2 list **)

let rec flat_map f = function
| [] -> []
| x :: t -> app (f x) (flat_map f t)

(** val fold_left : ('a1 -> 'a2 -> 'a1) -> 'a2 list -> 'a1 -> 'a1 **)

let rec fold_left f l a0 =
  match l with
  | [] -> a0
  | b :: t -> fold_left f t (f a0 b)

(** val forallb : ('a1 -> bool) -> 'a1 list -> bool **)

let rec forallb f = function
| [] -> true
| a :: l0 -> (&&) (f a) (forallb f l0)

(** val combine : 'a1 list -> 'a2 list -> ('a1 * 'a2) list **)

let rec combine l l' =
  match l with
  | [] -> []
  | x :: tl ->
    (match l' with
     | [] -> []
     | y :: tl' -> (x, y) :: (combine tl tl'))
