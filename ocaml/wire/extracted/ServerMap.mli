open BinNums

type query_error =
| QE_SytaxErrorCharsRemaining
| QE_SyntaxErrorBytesRemaining
| QE_ParseError
| QE_FatalError
| QE_NotImplemented
| QE_TypeError
| QE_Overflow
| QE_Canceled

val status_of : query_error -> coq_N option

val all_errors : query_error list
