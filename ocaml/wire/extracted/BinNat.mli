open BinNums
open BinPos
open Datatypes

module N :
 sig
  val add : coq_N -> coq_N -> coq_N

  val sub : coq_N -> coq_N -> coq_N

  val mul : coq_N -> coq_N -> coq_N

  val compare : coq_N -> coq_N -> comparison

  val eqb : coq_N -> coq_N -> bool

  val leb : coq_N -> coq_N -> bool

  val ltb : coq_N -> coq_N -> bool

  val min : coq_N -> coq_N -> coq_N

  val div2 : coq_N -> coq_N

  val even : coq_N -> bool

  val odd : coq_N -> bool

  val pow : coq_N -> coq_N -> coq_N

  val size : coq_N -> coq_N

  val coq_lor : coq_N -> coq_N -> coq_N

  val coq_land : coq_N -> coq_N -> coq_N

  val coq_lxor : coq_N -> coq_N -> coq_N

  val shiftl : coq_N -> coq_N -> coq_N

  val shiftr : coq_N -> coq_N -> coq_N

  val to_nat : coq_N -> nat

  val of_nat : nat -> coq_N
 end
