open BinNat
open BinNums
open Datatypes

type str = coq_N list

val lex_cmp : str -> str -> comparison

val str_eqb : str -> str -> bool
