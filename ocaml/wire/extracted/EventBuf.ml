open BinNums
open Datatypes
open List
open PeanoNat

type anyval =
| VInt of coq_Z
| VFloat of coq_N
| VStr of coq_N list
| VNull

type coldata =
| CEmpty
| CDense of coq_N list
| CSparse of (nat * coq_N) list
| CI64 of coq_Z list
| CSparseI64 of (nat * coq_Z) list
| CString of coq_N list list
| CMixed of anyval list

type push_result =
| Pushed of coldata
| PushPanic

(** val enumerate_from : nat -> 'a1 list -> (nat * 'a1) list **)

let rec enumerate_from i = function
| [] -> []
| x :: r -> (i, x) :: (enumerate_from (S i) r)

(** val push_float :
    (coq_Z -> coq_N) -> coldata -> coq_N -> nat -> push_result **)

let push_float i2f d f len =
  match d with
  | CEmpty ->
    if Nat.eqb len O
    then Pushed (CDense (f :: []))
    else Pushed (CSparse ((len, f) :: []))
  | CDense data ->
    if Nat.eqb (length data) len
    then Pushed (CDense (app data (f :: [])))
    else Pushed (CSparse (app (enumerate_from O data) ((len, f) :: [])))
  | CSparse data -> Pushed (CSparse (app data ((len, f) :: [])))
  | CI64 data ->
    let data' = map i2f data in
    if Nat.eqb (length data') len
    then Pushed (CDense (app data' (f :: [])))
    else Pushed (CSparse (app (enumerate_from O data') ((len, f) :: [])))
  | CSparseI64 data ->
    Pushed (CSparse
      (app (map (fun iv -> ((fst iv), (i2f (snd iv)))) data) ((len, f) :: [])))
  | _ -> PushPanic

(** val push : (coq_Z -> coq_N) -> coldata -> anyval -> nat -> push_result **)

let push i2f d v len =
  match v with
  | VInt i ->
    (match d with
     | CEmpty ->
       if Nat.eqb len O
       then Pushed (CI64 (i :: []))
       else Pushed (CSparseI64 ((len, i) :: []))
     | CDense _ -> push_float i2f d (i2f i) len
     | CSparse _ -> push_float i2f d (i2f i) len
     | CI64 data ->
       if Nat.eqb (length data) len
       then Pushed (CI64 (app data (i :: [])))
       else Pushed (CSparseI64 (app (enumerate_from O data) ((len, i) :: [])))
     | CSparseI64 data -> Pushed (CSparseI64 (app data ((len, i) :: [])))
     | _ -> PushPanic)
  | VFloat f -> push_float i2f d f len
  | VStr s ->
    (match d with
     | CEmpty ->
       if Nat.eqb len O then Pushed (CString (s :: [])) else PushPanic
     | CString data ->
       if Nat.eqb (length data) len
       then Pushed (CString (app data (s :: [])))
       else PushPanic
     | _ -> PushPanic)
  | VNull -> Pushed d

(** val push_rows :
    (coq_Z -> coq_N) -> coldata -> nat -> anyval option list -> push_result **)

let rec push_rows i2f d len = function
| [] -> Pushed d
| c :: r ->
  (match match c with
         | Some v -> push i2f d v len
         | None -> Pushed d with
   | Pushed d' -> push_rows i2f d' (S len) r
   | PushPanic -> PushPanic)
