open BinNums
open Datatypes
open EventBuf
open List
open Routing

type table_buf = { tb_len : coq_N; tb_cols : (str * coldata) list }

type event_buf = (str * table_buf) list

type data_msg =
| MF64 of coq_N list
| MSparseF64 of nat list * coq_N list
| MI64 of coq_Z list
| MString of str list
| MEmpty
| MSparseI64 of nat list * coq_Z list
| MMixed of anyval list

type table_msg = { tm_len : coq_N; tm_name : str;
                   tm_cols : (str * data_msg) list }

type event_msg = table_msg list

val ser_data : coldata -> data_msg

val ser_table : (str * table_buf) -> table_msg

val serialize : event_buf -> event_msg

val de_data : data_msg -> coldata

val aput : str -> 'a1 -> (str * 'a1) list -> (str * 'a1) list

val de_cols :
  (str * data_msg) list -> (str * coldata) list -> (str * coldata) list

val de_tables : event_msg -> event_buf -> event_buf

val deserialize : event_msg -> event_buf
