open Datatypes

module Nat =
 struct
  (** val eqb : nat -> nat -> bool **)

  let rec eqb n m =
    match n with
    | O -> (match m with
            | O -> true
            | S _ -> false)
    | S n' -> (match m with
               | O -> false
               | S m' -> eqb n' m')
 end
