(* lvmodel: evaluates the extracted Coq models on harness cases.
   stdin : one case per line   <suite> TAB <input sexp>
   stdout: one line per case   <output sexp>        (or "!ERR <msg>") *)
open Sx
open Conv

let run (suite : string) (inp : Sx.t) : Sx.t =
  match suite, inp with
  (* C16 XOR float coder *)
  | "xor_encode", L [mant; maxr; fs] ->
      of_opt of_bytes (XorFloat.encode_bytes (to_opt to_n mant) (to_n maxr) (to_list to_n fs))
  | "xor_decode", bytes -> of_opt (of_list of_n) (XorFloat.decode_bytes (to_bytes bytes))
  | "xor_expected", L [mant; fs] ->
      (match XorFloat.mask_of (to_opt to_n mant) with
       | None -> A "none"
       | Some mask -> L [A "some"; of_list of_n (XorFloat.expected mask (to_list to_n fs))])
  | "rows", L [i2f; cols] ->
      let tbl = Stdlib.List.map (fun x -> match x with
        | L [i; f] -> (Z.of_string (atom i), to_n f)
        | _ -> raise (Conv "i2f")) (lst i2f) in
      let conv z = match Stdlib.List.assoc_opt (z_of_cz z) tbl with
        | Some f -> f | None -> raise (Conv "i2f missing") in
      let to_val x = match x with
        | L [A "i"; i] -> EventBuf.VInt (to_z i)
        | L [A "f"; f] -> EventBuf.VFloat (to_n f)
        | L [A "s"; s] -> EventBuf.VStr (to_bytes s)
        | A "null" -> EventBuf.VNull
        | _ -> raise (Conv "anyval") in
      let of_pairs f l = of_list (fun (i, v) -> L [of_int (int_of_nat i); f v]) l in
      let of_data d = match d with
        | EventBuf.CEmpty -> A "empty"
        | EventBuf.CDense l -> L [A "dense"; of_list of_n l]
        | EventBuf.CSparse l -> L [A "sparse"; of_pairs of_n l]
        | EventBuf.CI64 l -> L [A "i64"; of_list of_z l]
        | EventBuf.CSparseI64 l -> L [A "sparse-i64"; of_pairs of_z l]
        | EventBuf.CString l -> L [A "string"; of_list of_bytes l]
        | EventBuf.CMixed _ -> A "mixed" in
      let results = Stdlib.List.map (fun col ->
        EventBuf.push_rows conv EventBuf.CEmpty Datatypes.O (to_list (to_opt to_val) col)) (lst cols) in
      if Stdlib.List.exists (fun r -> r = EventBuf.PushPanic) results then A "panic"
      else L (Stdlib.List.map (fun r -> match r with EventBuf.Pushed d -> of_data d | _ -> A "panic") results)
  | "encode_column", L [col; xor; mant] ->
      let to_value x = match x with
        | L [A "i"; i] -> Server.RInt (to_z i)
        | L [A "f"; f] -> Server.RFloat (to_n f)
        | L [A "s"; s] -> Server.RStr (to_bytes s)
        | A "null" -> Server.RNull
        | _ -> raise (Conv "value") in
      let of_value v = match v with
        | Server.RInt i -> L [A "i"; of_z i]
        | Server.RFloat f -> L [A "f"; of_n f]
        | Server.RStr s -> L [A "s"; of_bytes s]
        | Server.RNull -> A "null" in
      let c = match col with
        | L [A "int"; xs] -> Server.BInt (to_list to_z xs)
        | L [A "float"; xs] -> Server.BFloat (to_list to_n xs)
        | L [A "string"; xs] -> Server.BString (to_list to_bytes xs)
        | L [A "null"; n] -> Server.BNull (to_n n)
        | L [A "mixed"; xs] -> Server.BMixed (to_list to_value xs)
        | _ -> raise (Conv "basic column") in
      let o = { Server.xor_float_compression = to_bool xor; Server.mantissa = to_opt to_n mant } in
      (match Server.encode_column o c with
       | Server.AInt xs -> L [A "int"; of_list of_z xs]
       | Server.AFloat xs -> L [A "float"; of_list of_n xs]
       | Server.AString xs -> L [A "string"; of_list of_bytes xs]
       | Server.ANull n -> L [A "null"; of_n n]
       | Server.AMixed xs -> L [A "mixed"; of_list of_value xs]
       | Server.AXor b -> L [A "xor"; of_opt of_bytes b])
  | "status", A name ->
      (* position of the variant in the regenerated enum, by its name as printed by the translator *)
      let names = ["SytaxErrorCharsRemaining"; "SyntaxErrorBytesRemaining"; "ParseError"; "FatalError";
                   "NotImplemented"; "TypeError"; "Overflow"; "Canceled"] in
      let rec find i l = match l with [] -> None | n :: r -> if n = name then Some i else find (i + 1) r in
      (match find 0 names with
       | None -> A "none"
       | Some i -> (match Stdlib.List.nth_opt ServerMap.all_errors i with
                    | None -> A "none"
                    | Some e -> of_opt of_n (ServerMap.status_of e)))
  | "int_roundtrip", xs ->
      (match IntResponse.roundtrip (to_list to_z xs) with
       | None -> A "panic"
       | Some ys -> L [of_list of_z ys])
  (* C16/C14 event-buffer message at capnp field level *)
  | ("ev_ser" | "ev_de"), msg ->
      let to_val x = match x with
        | L [A "i"; i] -> EventBuf.VInt (to_z i)
        | L [A "f"; f] -> EventBuf.VFloat (to_n f)
        | L [A "s"; s] -> EventBuf.VStr (to_bytes s)
        | A "null" -> EventBuf.VNull
        | _ -> raise (Conv "anyval") in
      let of_val v = match v with
        | EventBuf.VInt i -> L [A "i"; of_z i]
        | EventBuf.VFloat f -> L [A "f"; of_n f]
        | EventBuf.VStr s -> L [A "s"; of_bytes s]
        | EventBuf.VNull -> A "null" in
      let to_nat x = nat_of_int (to_int x) and of_nat n = of_int (int_of_nat n) in
      let to_pairs f x = to_list (fun p -> match p with L [i; v] -> (to_nat i, f v) | _ -> raise (Conv "pair")) x in
      let of_pairs f l = of_list (fun (i, v) -> L [of_nat i; f v]) l in
      let to_coldata x = match x with
        | A "empty" -> EventBuf.CEmpty
        | L [A "dense"; l] -> EventBuf.CDense (to_list to_n l)
        | L [A "sparse"; l] -> EventBuf.CSparse (to_pairs to_n l)
        | L [A "i64"; l] -> EventBuf.CI64 (to_list to_z l)
        | L [A "sparse-i64"; l] -> EventBuf.CSparseI64 (to_pairs to_z l)
        | L [A "string"; l] -> EventBuf.CString (to_list to_bytes l)
        | L [A "mixed"; l] -> EventBuf.CMixed (to_list to_val l)
        | _ -> raise (Conv "coldata") in
      let of_coldata d = match d with
        | EventBuf.CEmpty -> A "empty"
        | EventBuf.CDense l -> L [A "dense"; of_list of_n l]
        | EventBuf.CSparse l -> L [A "sparse"; of_pairs of_n l]
        | EventBuf.CI64 l -> L [A "i64"; of_list of_z l]
        | EventBuf.CSparseI64 l -> L [A "sparse-i64"; of_pairs of_z l]
        | EventBuf.CString l -> L [A "string"; of_list of_bytes l]
        | EventBuf.CMixed l -> L [A "mixed"; of_list of_val l] in
      let to_data x = match x with
        | A "empty" -> EventWire.MEmpty
        | L [A "f64"; l] -> EventWire.MF64 (to_list to_n l)
        | L [A "sparse-f64"; i; v] -> EventWire.MSparseF64 (to_list to_nat i, to_list to_n v)
        | L [A "i64"; l] -> EventWire.MI64 (to_list to_z l)
        | L [A "sparse-i64"; i; v] -> EventWire.MSparseI64 (to_list to_nat i, to_list to_z v)
        | L [A "string"; l] -> EventWire.MString (to_list to_bytes l)
        | L [A "mixed"; l] -> EventWire.MMixed (to_list to_val l)
        | _ -> raise (Conv "data_msg") in
      let of_data d = match d with
        | EventWire.MEmpty -> A "empty"
        | EventWire.MF64 l -> L [A "f64"; of_list of_n l]
        | EventWire.MSparseF64 (i, v) -> L [A "sparse-f64"; of_list of_nat i; of_list of_n v]
        | EventWire.MI64 l -> L [A "i64"; of_list of_z l]
        | EventWire.MSparseI64 (i, v) -> L [A "sparse-i64"; of_list of_nat i; of_list of_z v]
        | EventWire.MString l -> L [A "string"; of_list of_bytes l]
        | EventWire.MMixed l -> L [A "mixed"; of_list of_val l] in
      if suite = "ev_ser" then begin
        let e = to_list (fun t -> match t with
          | L [name; len; cols] ->
              (to_bytes name, { EventWire.tb_len = to_n len;
                                tb_cols = to_list (fun c -> match c with L [k; d] -> (to_bytes k, to_coldata d) | _ -> raise (Conv "col")) cols })
          | _ -> raise (Conv "table")) msg in
        of_list (fun t -> L [of_bytes t.EventWire.tm_name; of_n t.EventWire.tm_len;
                             of_list (fun (k, d) -> L [of_bytes k; of_data d]) t.EventWire.tm_cols]) (EventWire.serialize e)
      end else begin
        let g = to_list (fun t -> match t with
          | L [name; len; cols] ->
              { EventWire.tm_len = to_n len; tm_name = to_bytes name;
                tm_cols = to_list (fun c -> match c with L [k; d] -> (to_bytes k, to_data d) | _ -> raise (Conv "col")) cols }
          | _ -> raise (Conv "table")) msg in
        let by_key l = Stdlib.List.sort (fun (a, _) (b, _) -> compare (atom (of_bytes a)) (atom (of_bytes b))) l in
        of_list (fun (name, t) -> L [of_bytes name; of_n t.EventWire.tb_len;
                                     of_list (fun (k, d) -> L [of_bytes k; of_coldata d]) (by_key t.EventWire.tb_cols)])
          (by_key (EventWire.deserialize g))
      end
  | _ -> raise (Conv ("unknown suite or bad input shape: " ^ suite))

let () = Loop.main run
