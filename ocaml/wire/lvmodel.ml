(* lvmodel: evaluates the extracted Coq models on harness cases.
   stdin : one case per line   <suite> TAB <input sexp>
   stdout: one line per case   <output sexp>        (or "!ERR <msg>") *)
open Sx
open Conv

let run (suite : string) (inp : Sx.t) : Sx.t =
  match suite, inp with
  (* C16 XOR float coder *)
  | "xor_encode", L [mant; maxr; fs] ->
      of_opt of_bytes (XorFloat.encode_bytes (to_opt to_n mant) (to_n maxr) (to_list to_n fs))
  | "xor_decode", bytes -> of_opt (of_list of_n) (XorFloat.decode_bytes (to_bytes bytes))
  | "xor_expected", L [mant; fs] ->
      (match XorFloat.mask_of (to_opt to_n mant) with
       | None -> A "none"
       | Some mask -> L [A "some"; of_list of_n (XorFloat.expected mask (to_list to_n fs))])
  | "rows", L [i2f; cols] ->
      let tbl = Stdlib.List.map (fun x -> match x with
        | L [i; f] -> (Z.of_string (atom i), to_n f)
        | _ -> raise (Conv "i2f")) (lst i2f) in
      let conv z = match Stdlib.List.assoc_opt (z_of_cz z) tbl with
        | Some f -> f | None -> raise (Conv "i2f missing") in
      let to_val x = match x with
        | L [A "i"; i] -> EventBuf.VInt (to_z i)
        | L [A "f"; f] -> EventBuf.VFloat (to_n f)
        | L [A "s"; s] -> EventBuf.VStr (to_bytes s)
        | A "null" -> EventBuf.VNull
        | _ -> raise (Conv "anyval") in
      let of_pairs f l = of_list (fun (i, v) -> L [of_int (int_of_nat i); f v]) l in
      let of_data d = match d with
        | EventBuf.CEmpty -> A "empty"
        | EventBuf.CDense l -> L [A "dense"; of_list of_n l]
        | EventBuf.CSparse l -> L [A "sparse"; of_pairs of_n l]
        | EventBuf.CI64 l -> L [A "i64"; of_list of_z l]
        | EventBuf.CSparseI64 l -> L [A "sparse-i64"; of_pairs of_z l]
        | EventBuf.CString l -> L [A "string"; of_list of_bytes l]
        | EventBuf.CMixed _ -> A "mixed" in
      let results = Stdlib.List.map (fun col ->
        EventBuf.push_rows conv EventBuf.CEmpty Datatypes.O (to_list (to_opt to_val) col)) (lst cols) in
      if Stdlib.List.exists (fun r -> r = EventBuf.PushPanic) results then A "panic"
      else L (Stdlib.List.map (fun r -> match r with EventBuf.Pushed d -> of_data d | _ -> A "panic") results)
  | "encode_column", L [col; xor; mant] ->
      let to_value x = match x with
        | L [A "i"; i] -> Server.RInt (to_z i)
        | L [A "f"; f] -> Server.RFloat (to_n f)
        | L [A "s"; s] -> Server.RStr (to_bytes s)
        | A "null" -> Server.RNull
        | _ -> raise (Conv "value") in
      let of_value v = match v with
        | Server.RInt i -> L [A "i"; of_z i]
        | Server.RFloat f -> L [A "f"; of_n f]
        | Server.RStr s -> L [A "s"; of_bytes s]
        | Server.RNull -> A "null" in
      let c = match col with
        | L [A "int"; xs] -> Server.BInt (to_list to_z xs)
        | L [A "float"; xs] -> Server.BFloat (to_list to_n xs)
        | L [A "string"; xs] -> Server.BString (to_list to_bytes xs)
        | L [A "null"; n] -> Server.BNull (to_n n)
        | L [A "mixed"; xs] -> Server.BMixed (to_list to_value xs)
        | _ -> raise (Conv "basic column") in
      let o = { Server.xor_float_compression = to_bool xor; Server.mantissa = to_opt to_n mant } in
      (match Server.encode_column o c with
       | Server.AInt xs -> L [A "int"; of_list of_z xs]
       | Server.AFloat xs -> L [A "float"; of_list of_n xs]
       | Server.AString xs -> L [A "string"; of_list of_bytes xs]
       | Server.ANull n -> L [A "null"; of_n n]
       | Server.AMixed xs -> L [A "mixed"; of_list of_value xs]
       | Server.AXor b -> L [A "xor"; of_opt of_bytes b])
  | "status", A name ->
      (* position of the variant in the regenerated enum, by its name as printed by the translator *)
      let names = ["SytaxErrorCharsRemaining"; "SyntaxErrorBytesRemaining"; "ParseError"; "FatalError";
                   "NotImplemented"; "TypeError"; "Overflow"; "Canceled"] in
      let rec find i l = match l with [] -> None | n :: r -> if n = name then Some i else find (i + 1) r in
      (match find 0 names with
       | None -> A "none"
       | Some i -> (match Stdlib.List.nth_opt ServerMap.all_errors i with
                    | None -> A "none"
                    | Some e -> of_opt of_n (ServerMap.status_of e)))
  | "int_roundtrip", xs ->
      (match IntResponse.roundtrip (to_list to_z xs) with
       | None -> A "panic"
       | Some ys -> L [of_list of_z ys])
  | _ -> raise (Conv ("unknown suite or bad input shape: " ^ suite))

let () = Loop.main run
