(* lvmodel: evaluates the extracted Coq models on harness cases.
   stdin : one case per line   <suite> TAB <input sexp>
   stdout: one line per case   <output sexp>        (or "!ERR <msg>") *)
open Sx
open Conv

let run (suite : string) (inp : Sx.t) : Sx.t =
  match suite, inp with
  (* C16 XOR float coder *)
  | "xor_encode", L [mant; maxr; fs] ->
      of_opt of_bytes (XorFloat.encode_bytes (to_opt to_n mant) (to_n maxr) (to_list to_n fs))
  | "xor_decode", bytes -> of_opt (of_list of_n) (XorFloat.decode_bytes (to_bytes bytes))
  | "xor_expected", L [mant; fs] ->
      (match XorFloat.mask_of (to_opt to_n mant) with
       | None -> A "none"
       | Some mask -> L [A "some"; of_list of_n (XorFloat.expected mask (to_list to_n fs))])
  | _ -> raise (Conv ("unknown suite or bad input shape: " ^ suite))

let () = Loop.main run
