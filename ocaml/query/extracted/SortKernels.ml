open BinNat
open BinNums
open Datatypes
open Nat
open QuerySpecList

(** val merge_n :
    ('a1 -> 'a1 -> bool) -> nat -> 'a1 list -> 'a1 list -> 'a1 list * bool
    list **)

let rec merge_n cmp_eq n l r =
  match n with
  | O -> ([], [])
  | S n' ->
    (match l with
     | [] ->
       (match r with
        | [] -> ([], [])
        | y :: r' ->
          let (m, o) = merge_n cmp_eq n' [] r' in ((y :: m), (false :: o)))
     | x :: l' ->
       (match r with
        | [] ->
          let (m, o) = merge_n cmp_eq n' l' [] in ((x :: m), (true :: o))
        | y :: r' ->
          if cmp_eq x y
          then let (m, o) = merge_n cmp_eq n' l' r in ((x :: m), (true :: o))
          else let (m, o) = merge_n cmp_eq n' l r' in ((y :: m), (false :: o))))

(** val clip : coq_N -> nat -> nat **)

let clip limit len =
  N.to_nat (N.min limit (N.of_nat len))

(** val merge :
    ('a1 -> 'a1 -> bool) -> 'a1 list -> 'a1 list -> coq_N -> 'a1 list * bool
    list **)

let merge cmp_eq l r limit =
  merge_n cmp_eq (clip limit (add (length l) (length r))) l r

(** val merge_keep : bool list -> 'a1 list -> 'a1 list -> 'a1 list option **)

let rec merge_keep ops l r =
  match ops with
  | [] -> Some []
  | b :: ops' ->
    if b
    then (match l with
          | [] -> None
          | x :: l' ->
            (match merge_keep ops' l' r with
             | Some m -> Some (x :: m)
             | None -> None))
    else (match r with
          | [] -> None
          | y :: r' ->
            (match merge_keep ops' l r' with
             | Some m -> Some (y :: m)
             | None -> None))

(** val merge_keep_nullable :
    bool list -> 'a1 list -> 'a1 list -> bool list -> bool list -> ('a1
    list * bool list) option **)

let rec merge_keep_nullable ops l r lp rp =
  match ops with
  | [] -> Some ([], [])
  | b :: ops' ->
    if b
    then (match l with
          | [] -> None
          | x :: l' ->
            let p = match lp with
                    | [] -> false
                    | b0 :: _ -> b0 in
            (match merge_keep_nullable ops' l' r
                     (match lp with
                      | [] -> []
                      | _ :: t -> t) rp with
             | Some p0 -> let (m, mp) = p0 in Some ((x :: m), (p :: mp))
             | None -> None))
    else (match r with
          | [] -> None
          | y :: r' ->
            let p = match rp with
                    | [] -> false
                    | b0 :: _ -> b0 in
            (match merge_keep_nullable ops' l r' lp
                     (match rp with
                      | [] -> []
                      | _ :: t -> t) with
             | Some p0 -> let (m, mp) = p0 in Some ((y :: m), (p :: mp))
             | None -> None))

(** val append_limit : coq_N -> 'a1 list -> 'a1 list -> 'a1 list **)

let append_limit limit l r =
  let n1 = N.of_nat (length l) in
  if N.leb limit n1
  then l
  else app l
         (qfirstn (N.to_nat (N.min (N.of_nat (length r)) (N.sub limit n1))) r)

(** val final_slice : coq_N -> coq_N -> 'a1 list -> 'a1 list **)

let final_slice limit offset rows =
  let len = N.of_nat (length rows) in
  let off = N.min offset len in
  let count = N.min limit (N.sub len off) in
  qfirstn (N.to_nat count) (qskipn (N.to_nat off) rows)

(** val u64_max : coq_N **)

let u64_max =
  Npos (Coq_xI (Coq_xI (Coq_xI (Coq_xI (Coq_xI (Coq_xI (Coq_xI (Coq_xI
    (Coq_xI (Coq_xI (Coq_xI (Coq_xI (Coq_xI (Coq_xI (Coq_xI (Coq_xI (Coq_xI
    (Coq_xI (Coq_xI (Coq_xI (Coq_xI (Coq_xI (Coq_xI (Coq_xI (Coq_xI (Coq_xI
    (Coq_xI (Coq_xI (Coq_xI (Coq_xI (Coq_xI (Coq_xI (Coq_xI (Coq_xI (Coq_xI
    (Coq_xI (Coq_xI (Coq_xI (Coq_xI (Coq_xI (Coq_xI (Coq_xI (Coq_xI (Coq_xI
    (Coq_xI (Coq_xI (Coq_xI (Coq_xI (Coq_xI (Coq_xI (Coq_xI (Coq_xI (Coq_xI
    (Coq_xI (Coq_xI (Coq_xI (Coq_xI (Coq_xI (Coq_xI (Coq_xI (Coq_xI (Coq_xI
    (Coq_xI
    Coq_xH)))))))))))))))))))))))))))))))))))))))))))))))))))))))))))))))

(** val combined_limit : coq_N -> coq_N -> coq_N **)

let combined_limit limit offset =
  N.min (N.add limit offset) u64_max

(** val take_run :
    ('a1 -> 'a1 -> bool) -> 'a1 -> 'a1 list -> nat * 'a1 list **)

let rec take_run eqb0 e l = match l with
| [] -> (O, [])
| x :: l' ->
  if eqb0 e x
  then let (n, rest) = take_run eqb0 e l' in ((S n), rest)
  else (O, l)

(** val partition_loop :
    ('a1 -> 'a1 -> bool) -> ('a1 -> 'a1 -> bool) -> nat -> 'a1 list -> 'a1
    list -> coq_N -> coq_N -> (nat * nat) list **)

let rec partition_loop cmp_eq eqb0 fuel l r min_elems limit =
  match fuel with
  | O -> []
  | S fuel' ->
    if N.leb limit min_elems
    then []
    else (match l with
          | [] ->
            (match r with
             | [] -> []
             | y :: _ ->
               let (nr, r') = take_run eqb0 y r in
               (O,
               nr) :: (partition_loop cmp_eq eqb0 fuel' [] r'
                        (N.add min_elems (N.of_nat nr)) limit))
          | x :: _ ->
            (match r with
             | [] ->
               let (nl, l') = take_run eqb0 x l in
               (nl,
               O) :: (partition_loop cmp_eq eqb0 fuel' l' []
                       (N.add min_elems (N.of_nat nl)) limit)
             | y :: _ ->
               let e = if cmp_eq x y then x else y in
               let (nl, l') = take_run eqb0 e l in
               let (nr, r') = take_run eqb0 e r in
               (nl,
               nr) :: (partition_loop cmp_eq eqb0 fuel' l' r'
                        (N.add min_elems (N.of_nat (PeanoNat.Nat.max nl nr)))
                        limit)))

(** val partition :
    ('a1 -> 'a1 -> bool) -> ('a1 -> 'a1 -> bool) -> 'a1 list -> 'a1 list ->
    coq_N -> (nat * nat) list **)

let partition cmp_eq eqb0 l r limit =
  partition_loop cmp_eq eqb0 (add (length l) (length r)) l r N0
    (N.min limit (Npos (Coq_xI (Coq_xI (Coq_xI (Coq_xI (Coq_xI (Coq_xI
      (Coq_xI (Coq_xI (Coq_xI (Coq_xI (Coq_xI (Coq_xI (Coq_xI (Coq_xI (Coq_xI
      (Coq_xI (Coq_xI (Coq_xI (Coq_xI (Coq_xI (Coq_xI (Coq_xI (Coq_xI (Coq_xI
      (Coq_xI (Coq_xI (Coq_xI (Coq_xI (Coq_xI (Coq_xI (Coq_xI
      Coq_xH)))))))))))))))))))))))))))))))))

(** val merge_group :
    ('a1 -> 'a1 -> bool) -> nat -> 'a1 list -> 'a1 list -> 'a1 list * bool
    list **)

let rec merge_group cmp_eq n gl gr =
  match n with
  | O -> ([], [])
  | S n' ->
    (match gl with
     | [] ->
       (match gr with
        | [] -> ([], [])
        | y :: gr' ->
          let (m, o) = merge_group cmp_eq n' [] gr' in
          ((y :: m), (false :: o)))
     | x :: gl' ->
       (match gr with
        | [] ->
          let (m, o) = merge_group cmp_eq n' gl' [] in ((x :: m), (true :: o))
        | y :: gr' ->
          if cmp_eq x y
          then let (m, o) = merge_group cmp_eq n' gl' gr in
               ((x :: m), (true :: o))
          else let (m, o) = merge_group cmp_eq n' gl gr' in
               ((y :: m), (false :: o))))

(** val merge_partitioned_loop :
    ('a1 -> 'a1 -> bool) -> (nat * nat) list -> 'a1 list -> 'a1 list -> nat
    -> 'a1 list * bool list **)

let rec merge_partitioned_loop cmp_eq groups l r remaining =
  match groups with
  | [] -> ([], [])
  | p :: gs ->
    let (nl, nr) = p in
    (match remaining with
     | O -> ([], [])
     | S _ ->
       let gl = qfirstn nl l in
       let gr = qfirstn nr r in
       let take = PeanoNat.Nat.min (add nl nr) remaining in
       let (m, o) = merge_group cmp_eq take gl gr in
       let (m', o') =
         merge_partitioned_loop cmp_eq gs (qskipn nl l) (qskipn nr r)
           (sub remaining take)
       in
       ((app m m'), (app o o')))

(** val merge_partitioned :
    ('a1 -> 'a1 -> bool) -> (nat * nat) list -> 'a1 list -> 'a1 list -> coq_N
    -> 'a1 list * bool list **)

let merge_partitioned cmp_eq groups l r limit =
  let total = add (length l) (length r) in
  merge_partitioned_loop cmp_eq groups l r
    (if N.eqb limit N0 then total else clip limit total)

(** val subpartition_group :
    ('a1 -> 'a1 -> bool) -> ('a1 -> 'a1 -> bool) -> nat -> 'a1 list -> 'a1
    list -> (nat * nat) list **)

let rec subpartition_group cmp_eq eqb0 fuel gl gr =
  match fuel with
  | O -> []
  | S fuel' ->
    (match gl with
     | [] ->
       (match gr with
        | [] -> []
        | y :: _ ->
          let (nr, gr') = take_run eqb0 y gr in
          (O, nr) :: (subpartition_group cmp_eq eqb0 fuel' [] gr'))
     | x :: _ ->
       (match gr with
        | [] ->
          let (nl, gl') = take_run eqb0 x gl in
          (nl, O) :: (subpartition_group cmp_eq eqb0 fuel' gl' [])
        | y :: _ ->
          let e = if cmp_eq x y then x else y in
          let (nl, gl') = take_run eqb0 e gl in
          let (nr, gr') = take_run eqb0 e gr in
          (nl, nr) :: (subpartition_group cmp_eq eqb0 fuel' gl' gr')))

(** val subpartition :
    ('a1 -> 'a1 -> bool) -> ('a1 -> 'a1 -> bool) -> (nat * nat) list -> 'a1
    list -> 'a1 list -> (nat * nat) list **)

let rec subpartition cmp_eq eqb0 groups l r =
  match groups with
  | [] -> []
  | p :: gs ->
    let (nl, nr) = p in
    app
      (subpartition_group cmp_eq eqb0 (add nl nr) (qfirstn nl l)
        (qfirstn nr r))
      (subpartition cmp_eq eqb0 gs (qskipn nl l) (qskipn nr r))

(** val set_nth : nat -> 'a1 -> 'a1 list -> 'a1 list **)

let rec set_nth n v l =
  match n with
  | O -> (match l with
          | [] -> []
          | _ :: t -> v :: t)
  | S n' -> (match l with
             | [] -> []
             | h :: t -> h :: (set_nth n' v t))

(** val heap_replace :
    ('a1 -> 'a1 -> bool) -> nat -> 'a1 list -> nat list -> 'a1 -> nat -> nat
    -> 'a1 list * nat list **)

let rec heap_replace cmp fuel keys values key value node =
  let len = length keys in
  let left = add (mul (S (S O)) node) (S O) in
  let right = add (mul (S (S O)) node) (S (S O)) in
  (match fuel with
   | O -> ((set_nth node key keys), (set_nth node value values))
   | S fuel' ->
     if PeanoNat.Nat.ltb left len
     then let kl = qnth left keys key in
          let kr = qnth right keys key in
          if (&&) (cmp key kl) ((||) (PeanoNat.Nat.leb len right) (cmp kr kl))
          then heap_replace cmp fuel' (set_nth node kl keys)
                 (set_nth node (qnth left values O) values) key value left
          else if (&&) (PeanoNat.Nat.ltb right len) (cmp key kr)
               then heap_replace cmp fuel' (set_nth node kr keys)
                      (set_nth node (qnth right values O) values) key value
                      right
               else ((set_nth node key keys), (set_nth node value values))
     else ((set_nth node key keys), (set_nth node value values)))
