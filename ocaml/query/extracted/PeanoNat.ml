open Datatypes

module Nat =
 struct
  (** val eqb : nat -> nat -> bool **)

  let rec eqb n m =
    match n with
    | O -> (match m with
            | O -> true
            | S _ -> false)
    | S n' -> (match m with
               | O -> false
               | S m' -> eqb n' m')

  (** val leb : nat -> nat -> bool **)

  let rec leb n m =
    match n with
    | O -> true
    | S n' -> (match m with
               | O -> false
               | S m' -> leb n' m')

  (** val ltb : nat -> nat -> bool **)

  let ltb n m =
    leb (S n) m

  (** val max : nat -> nat -> nat **)

  let rec max n m =
    match n with
    | O -> m
    | S n' -> (match m with
               | O -> n
               | S m' -> S (max n' m'))

  (** val min : nat -> nat -> nat **)

  let rec min n m =
    match n with
    | O -> O
    | S n' -> (match m with
               | O -> O
               | S m' -> S (min n' m'))
 end
