open Datatypes

(** val add : nat -> nat -> nat **)

let rec add n m =
  match n with
  | O -> m
  | S p -> S (add p m)

(** val mul : nat -> nat -> nat **)

let rec mul n m =
  match n with
  | O -> O
  | S p -> add m (mul p m)

(** val sub : nat -> nat -> nat **)

let rec sub n m =
  match n with
  | O -> n
  | S k -> (match m with
            | O -> n
            | S l -> sub k l)
