open BinNat
open BinNums
open Datatypes
open Nat
open QuerySpecList

val merge_n :
  ('a1 -> 'a1 -> bool) -> nat -> 'a1 list -> 'a1 list -> 'a1 list * bool list

val clip : coq_N -> nat -> nat

val merge :
  ('a1 -> 'a1 -> bool) -> 'a1 list -> 'a1 list -> coq_N -> 'a1 list * bool
  list

val merge_keep : bool list -> 'a1 list -> 'a1 list -> 'a1 list option

val merge_keep_nullable :
  bool list -> 'a1 list -> 'a1 list -> bool list -> bool list -> ('a1
  list * bool list) option

val append_limit : coq_N -> 'a1 list -> 'a1 list -> 'a1 list

val final_slice : coq_N -> coq_N -> 'a1 list -> 'a1 list

val u64_max : coq_N

val combined_limit : coq_N -> coq_N -> coq_N

val take_run : ('a1 -> 'a1 -> bool) -> 'a1 -> 'a1 list -> nat * 'a1 list

val partition_loop :
  ('a1 -> 'a1 -> bool) -> ('a1 -> 'a1 -> bool) -> nat -> 'a1 list -> 'a1 list
  -> coq_N -> coq_N -> (nat * nat) list

val partition :
  ('a1 -> 'a1 -> bool) -> ('a1 -> 'a1 -> bool) -> 'a1 list -> 'a1 list ->
  coq_N -> (nat * nat) list

val merge_group :
  ('a1 -> 'a1 -> bool) -> nat -> 'a1 list -> 'a1 list -> 'a1 list * bool list

val merge_partitioned_loop :
  ('a1 -> 'a1 -> bool) -> (nat * nat) list -> 'a1 list -> 'a1 list -> nat ->
  'a1 list * bool list

val merge_partitioned :
  ('a1 -> 'a1 -> bool) -> (nat * nat) list -> 'a1 list -> 'a1 list -> coq_N
  -> 'a1 list * bool list

val subpartition_group :
  ('a1 -> 'a1 -> bool) -> ('a1 -> 'a1 -> bool) -> nat -> 'a1 list -> 'a1 list
  -> (nat * nat) list

val subpartition :
  ('a1 -> 'a1 -> bool) -> ('a1 -> 'a1 -> bool) -> (nat * nat) list -> 'a1
  list -> 'a1 list -> (nat * nat) list

val set_nth : nat -> 'a1 -> 'a1 list -> 'a1 list

val heap_replace :
  ('a1 -> 'a1 -> bool) -> nat -> 'a1 list -> nat list -> 'a1 -> nat -> nat ->
  'a1 list * nat list
