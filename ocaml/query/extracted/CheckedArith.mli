open BinInt
open BinNums
open Datatypes
open QuerySpecList

val i64_min : coq_Z

val i64_max : coq_Z

val two64 : coq_Z

val two63 : coq_Z

val in_i64 : coq_Z -> bool

val wrap64 : coq_Z -> coq_Z

type arith_op =
| OpAdd
| OpSub
| OpMul
| OpDiv
| OpMod

type checked_res =
| RVal of coq_Z * bool

val overflowing : coq_Z -> checked_res

val perform_checked : arith_op -> coq_Z -> coq_Z -> checked_res

val exact_op : arith_op -> coq_Z -> coq_Z -> coq_Z option

type vec_res =
| VOk of coq_Z list
| VOverflow

val checked_loop :
  arith_op -> (coq_Z * coq_Z) list -> bool list option -> coq_Z list -> bool
  -> vec_res

type cell_res =
| COk of coq_Z option
| COverflow

type aexpr =
| ACol of nat
| AConst of coq_Z
| ABin of arith_op * aexpr * aexpr

val cell_op : arith_op -> coq_Z option -> coq_Z option -> cell_res

val eval_aexpr : coq_Z option list -> aexpr -> cell_res

val sum_loop : coq_Z -> bool -> coq_Z list -> coq_Z * bool

val sum_partition : coq_Z list -> coq_Z option

val i64_null : coq_Z

type agg_kind =
| AggSum
| AggCount
| AggMax
| AggMin

type comb_res =
| CbOk of coq_Z
| CbOverflow
| CbPanic

val combine_i64 : agg_kind -> coq_Z -> coq_Z -> comb_res

type mtree =
| MLeaf of coq_Z list
| MNode of mtree * mtree

val sum_tree : mtree -> coq_Z option
