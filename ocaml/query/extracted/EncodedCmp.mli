open BinInt
open BinNat
open BinNums
open CheckedArith
open Datatypes
open QuerySpec

val encode_int : coq_Z -> coq_Z -> coq_Z option

val encode_int_wrapping : coq_Z -> coq_Z -> coq_Z

val cmp_enc : cmp_op -> coq_Z -> coq_Z -> bool

val bytes_eqb : coq_N list -> coq_N list -> bool

val inverse_dict_lookup_from : coq_Z -> coq_N list list -> coq_N list -> coq_Z

val inverse_dict_lookup : coq_N list list -> coq_N list -> coq_Z
