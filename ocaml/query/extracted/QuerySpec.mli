open BinInt
open BinNat
open BinNums
open CheckedArith
open Datatypes
open Nat
open QuerySpecList

type coq_val =
| VNull
| VInt of coq_Z
| VFloat of coq_N
| VStr of coq_N list
| VBool of bool
| VAnyFloat

val exp_mask : coq_N

val abs_mask : coq_N

val sign_bit : coq_N

val float_is_nan : coq_N -> bool

val float_key : coq_N -> coq_Z

val bytes_cmp : coq_N list -> coq_N list -> comparison

val type_rank : coq_val -> coq_Z

val val_cmp : coq_val -> coq_val -> comparison

val val_eqb : coq_val -> coq_val -> bool

val val_match : coq_val -> coq_val -> bool

val row_match : coq_val list -> coq_val list -> bool

val vals_eqb : coq_val list -> coq_val list -> bool

type cmp_op =
| CEq
| CNe
| CLt
| CLe
| CGt
| CGe

type expr =
| ECol of nat
| EConst of coq_val
| EArith of arith_op * expr * expr
| ECmp of cmp_op * expr * expr
| EAnd of expr * expr
| EOr of expr * expr
| ENot of expr
| EIsNull of expr
| EIsNotNull of expr
| ELike of expr * coq_N list

type eres =
| EVal of coq_val
| EOverflow
| ETypeErr

val spec_arith : arith_op -> coq_Z -> coq_Z -> eres

val cmp_holds : cmp_op -> comparison -> bool

val same_type : coq_val -> coq_val -> bool

val cmp_int_float : coq_Z -> coq_N -> comparison

val cmp_values : coq_val -> coq_val -> comparison option

val like_match : nat -> coq_N list -> coq_N list -> bool

val and3 : coq_val -> coq_val -> eres

val or3 : coq_val -> coq_val -> eres

val eval_expr : coq_val list -> expr -> eres

type agg =
| ACount
| ASum
| AMin
| AMax

type sel =
| SPlain of expr
| SAgg of agg * expr
| SAvg of expr

type okey =
| OExpr of expr
| OOut of nat

type query = { q_select : sel list; q_where : expr option;
               q_order : (okey * bool) list; q_limit : coq_N option;
               q_offset : coq_N }

type prow = coq_val list

type 'a res =
| Ok of 'a
| Overflow
| TypeErr

val rbind : 'a1 res -> ('a1 -> 'a2 res) -> 'a2 res

val of_eres : eres -> coq_val res

val rmap : ('a1 -> 'a2 res) -> 'a1 list -> 'a2 list res

val filter_rows : expr option -> coq_val list list -> coq_val list list res

val is_agg : sel -> bool

val keys_cmp : bool list -> coq_val list -> coq_val list -> comparison

val keys_leb : bool list -> coq_val list -> coq_val list -> bool

val insert_sorted :
  bool list -> (coq_val list * prow) -> (coq_val list * prow) list ->
  (coq_val list * prow) list

val sort_rows :
  bool list -> (coq_val list * prow) list -> (coq_val list * prow) list

val tie_classes : bool list -> (coq_val list * prow) list -> prow list list

val group_insert :
  coq_val list -> coq_val list -> (coq_val list * coq_val list list) list ->
  (coq_val list * coq_val list list) list

val sum_pos : coq_Z list -> coq_Z

val sum_neg : coq_Z list -> coq_Z

val sum_all : coq_Z list -> coq_Z

val ints_of : coq_val list -> coq_Z list option

val non_null : coq_val list -> coq_val list

val best : comparison -> coq_val -> coq_val list -> coq_val

val is_float : coq_val -> bool

val is_int : coq_val -> bool

val eval_agg : agg -> coq_val list -> coq_val res

val eval_avg : coq_val list -> coq_val res

val eval_sel_group : coq_val list list -> sel -> coq_val res

val plain_exprs : sel list -> expr list

val order_key : prow -> coq_val list option -> okey -> coq_val res

val dirs_of : query -> bool list

val classes_of : query -> (coq_val list * prow) list -> prow list list

val eval_classes : query -> coq_val list list -> prow list list res

val window : coq_N -> coq_N option -> 'a1 list -> 'a1 list

val remove_match : prow -> prow list -> prow list option

val sub_multiset : prow list -> prow list -> bool

val chk : prow list list -> nat -> nat option -> prow list -> bool

val total_rows : prow list list -> nat

type output =
| ORows of prow list
| OOverflow
| OOther

val expr_overflows : coq_val list -> expr -> bool

val sel_exprs : sel -> expr list

val query_exprs : query -> expr list

val sum_may_overflow : coq_val list -> bool

val group_sum_may_overflow : query -> coq_val list list -> bool

val may_fail : query -> coq_val list list -> bool

val off_nat : query -> nat -> nat

val lim_nat : query -> nat -> nat option

val valid : query -> coq_val list list -> output -> bool

val eval_query : query -> coq_val list list -> output
