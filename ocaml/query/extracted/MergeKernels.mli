open BinNums
open CheckedArith
open Datatypes
open Nat
open QuerySpecList

type mop =
| TakeLeft
| TakeRight
| MergeRight

val last_is : ('a1 -> 'a1 -> bool) -> 'a1 option -> 'a1 -> bool

val md_loop :
  ('a1 -> 'a1 -> bool) -> ('a1 -> 'a1 -> bool) -> nat -> 'a1 list -> 'a1 list
  -> 'a1 option -> 'a1 list * mop list

val merge_deduplicate :
  ('a1 -> 'a1 -> bool) -> ('a1 -> 'a1 -> bool) -> 'a1 list -> 'a1 list -> 'a1
  list * mop list

val mdp_group :
  ('a1 -> 'a1 -> bool) -> ('a1 -> 'a1 -> bool) -> nat -> 'a1 list -> 'a1 list
  -> 'a1 option -> 'a1 list * mop list

val merge_deduplicate_partitioned :
  ('a1 -> 'a1 -> bool) -> ('a1 -> 'a1 -> bool) -> (nat * nat) list -> 'a1
  list -> 'a1 list -> 'a1 list * mop list

val merge_drop : mop list -> 'a1 list -> 'a1 list -> 'a1 list option

type agg_res =
| AOk of coq_Z list
| AOverflow
| APanic

val ma_loop :
  agg_kind -> mop list -> coq_Z list -> coq_Z list -> coq_Z list -> agg_res

val merge_aggregate :
  agg_kind -> mop list -> coq_Z list -> coq_Z list -> agg_res
