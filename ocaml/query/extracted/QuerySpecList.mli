open Datatypes

val qmap : ('a1 -> 'a2) -> 'a1 list -> 'a2 list

val qnth : nat -> 'a1 list -> 'a1 -> 'a1

val qrev_append : 'a1 list -> 'a1 list -> 'a1 list

val qrev : 'a1 list -> 'a1 list

val qfirstn : nat -> 'a1 list -> 'a1 list

val qskipn : nat -> 'a1 list -> 'a1 list

val qfold_left : ('a1 -> 'a2 -> 'a1) -> 'a2 list -> 'a1 -> 'a1

val qfilter : ('a1 -> bool) -> 'a1 list -> 'a1 list

val qexistsb : ('a1 -> bool) -> 'a1 list -> bool

val qforallb : ('a1 -> bool) -> 'a1 list -> bool

val qconcat : 'a1 list list -> 'a1 list
