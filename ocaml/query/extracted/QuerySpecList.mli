open Datatypes

val qnth : nat -> 'a1 list -> 'a1 -> 'a1

val qrev_append : 'a1 list -> 'a1 list -> 'a1 list

val qrev : 'a1 list -> 'a1 list
