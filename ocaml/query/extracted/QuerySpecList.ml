open Datatypes

(** val qmap : ('a1 -> 'a2) -> 'a1 list -> 'a2 list **)

let rec qmap f = function
| [] -> []
| a :: t -> (f a) :: (qmap f t)

(** val qnth : nat -> 'a1 list -> 'a1 -> 'a1 **)

let rec qnth n l default =
  match n with
  | O -> (match l with
          | [] -> default
          | x :: _ -> x)
  | S m -> (match l with
            | [] -> default
            | _ :: t -> qnth m t default)

(** val qrev_append : 'a1 list -> 'a1 list -> 'a1 list **)

let rec qrev_append l l' =
  match l with
  | [] -> l'
  | a :: l0 -> qrev_append l0 (a :: l')

(** val qrev : 'a1 list -> 'a1 list **)

let qrev l =
  qrev_append l []

(** val qfirstn : nat -> 'a1 list -> 'a1 list **)

let rec qfirstn n l =
  match n with
  | O -> []
  | S n0 -> (match l with
             | [] -> []
             | a :: l0 -> a :: (qfirstn n0 l0))

(** val qskipn : nat -> 'a1 list -> 'a1 list **)

let rec qskipn n l =
  match n with
  | O -> l
  | S n0 -> (match l with
             | [] -> []
             | _ :: l0 -> qskipn n0 l0)

(** val qfold_left : ('a1 -> 'a2 -> 'a1) -> 'a2 list -> 'a1 -> 'a1 **)

let rec qfold_left f l a0 =
  match l with
  | [] -> a0
  | b :: t -> qfold_left f t (f a0 b)

(** val qfilter : ('a1 -> bool) -> 'a1 list -> 'a1 list **)

let rec qfilter f = function
| [] -> []
| x :: l0 -> if f x then x :: (qfilter f l0) else qfilter f l0

(** val qexistsb : ('a1 -> bool) -> 'a1 list -> bool **)

let rec qexistsb f = function
| [] -> false
| a :: l0 -> (||) (f a) (qexistsb f l0)

(** val qforallb : ('a1 -> bool) -> 'a1 list -> bool **)

let rec qforallb f = function
| [] -> true
| a :: l0 -> (&&) (f a) (qforallb f l0)

(** val qconcat : 'a1 list list -> 'a1 list **)

let rec qconcat = function
| [] -> []
| x :: l0 -> app x (qconcat l0)
