open Datatypes

(** val qnth : nat -> 'a1 list -> 'a1 -> 'a1 **)

let rec qnth n l default =
  match n with
  | O -> (match l with
          | [] -> default
          | x :: _ -> x)
  | S m -> (match l with
            | [] -> default
            | _ :: t -> qnth m t default)

(** val qrev_append : 'a1 list -> 'a1 list -> 'a1 list **)

let rec qrev_append l l' =
  match l with
  | [] -> l'
  | a :: l0 -> qrev_append l0 (a :: l')

(** val qrev : 'a1 list -> 'a1 list **)

let qrev l =
  qrev_append l []
