open BinInt
open BinNat
open BinNums
open CheckedArith
open Datatypes
open Nat
open QuerySpecList

type coq_val =
| VNull
| VInt of coq_Z
| VFloat of coq_N
| VStr of coq_N list
| VBool of bool
| VAnyFloat

(** val exp_mask : coq_N **)

let exp_mask =
  Npos (Coq_xO (Coq_xO (Coq_xO (Coq_xO (Coq_xO (Coq_xO (Coq_xO (Coq_xO
    (Coq_xO (Coq_xO (Coq_xO (Coq_xO (Coq_xO (Coq_xO (Coq_xO (Coq_xO (Coq_xO
    (Coq_xO (Coq_xO (Coq_xO (Coq_xO (Coq_xO (Coq_xO (Coq_xO (Coq_xO (Coq_xO
    (Coq_xO (Coq_xO (Coq_xO (Coq_xO (Coq_xO (Coq_xO (Coq_xO (Coq_xO (Coq_xO
    (Coq_xO (Coq_xO (Coq_xO (Coq_xO (Coq_xO (Coq_xO (Coq_xO (Coq_xO (Coq_xO
    (Coq_xO (Coq_xO (Coq_xO (Coq_xO (Coq_xO (Coq_xO (Coq_xO (Coq_xO (Coq_xI
    (Coq_xI (Coq_xI (Coq_xI (Coq_xI (Coq_xI (Coq_xI (Coq_xI (Coq_xI (Coq_xI
    Coq_xH))))))))))))))))))))))))))))))))))))))))))))))))))))))))))))))

(** val abs_mask : coq_N **)

let abs_mask =
  Npos (Coq_xI (Coq_xI (Coq_xI (Coq_xI (Coq_xI (Coq_xI (Coq_xI (Coq_xI
    (Coq_xI (Coq_xI (Coq_xI (Coq_xI (Coq_xI (Coq_xI (Coq_xI (Coq_xI (Coq_xI
    (Coq_xI (Coq_xI (Coq_xI (Coq_xI (Coq_xI (Coq_xI (Coq_xI (Coq_xI (Coq_xI
    (Coq_xI (Coq_xI (Coq_xI (Coq_xI (Coq_xI (Coq_xI (Coq_xI (Coq_xI (Coq_xI
    (Coq_xI (Coq_xI (Coq_xI (Coq_xI (Coq_xI (Coq_xI (Coq_xI (Coq_xI (Coq_xI
    (Coq_xI (Coq_xI (Coq_xI (Coq_xI (Coq_xI (Coq_xI (Coq_xI (Coq_xI (Coq_xI
    (Coq_xI (Coq_xI (Coq_xI (Coq_xI (Coq_xI (Coq_xI (Coq_xI (Coq_xI (Coq_xI
    Coq_xH))))))))))))))))))))))))))))))))))))))))))))))))))))))))))))))

(** val sign_bit : coq_N **)

let sign_bit =
  Npos (Coq_xO (Coq_xO (Coq_xO (Coq_xO (Coq_xO (Coq_xO (Coq_xO (Coq_xO
    (Coq_xO (Coq_xO (Coq_xO (Coq_xO (Coq_xO (Coq_xO (Coq_xO (Coq_xO (Coq_xO
    (Coq_xO (Coq_xO (Coq_xO (Coq_xO (Coq_xO (Coq_xO (Coq_xO (Coq_xO (Coq_xO
    (Coq_xO (Coq_xO (Coq_xO (Coq_xO (Coq_xO (Coq_xO (Coq_xO (Coq_xO (Coq_xO
    (Coq_xO (Coq_xO (Coq_xO (Coq_xO (Coq_xO (Coq_xO (Coq_xO (Coq_xO (Coq_xO
    (Coq_xO (Coq_xO (Coq_xO (Coq_xO (Coq_xO (Coq_xO (Coq_xO (Coq_xO (Coq_xO
    (Coq_xO (Coq_xO (Coq_xO (Coq_xO (Coq_xO (Coq_xO (Coq_xO (Coq_xO (Coq_xO
    (Coq_xO
    Coq_xH)))))))))))))))))))))))))))))))))))))))))))))))))))))))))))))))

(** val float_is_nan : coq_N -> bool **)

let float_is_nan b =
  N.ltb exp_mask (N.coq_land b abs_mask)

(** val float_key : coq_N -> coq_Z **)

let float_key b =
  if float_is_nan b
  then Zpos (Coq_xO (Coq_xO (Coq_xO (Coq_xO (Coq_xO (Coq_xO (Coq_xO (Coq_xO
         (Coq_xO (Coq_xO (Coq_xO (Coq_xO (Coq_xO (Coq_xO (Coq_xO (Coq_xO
         (Coq_xO (Coq_xO (Coq_xO (Coq_xO (Coq_xO (Coq_xO (Coq_xO (Coq_xO
         (Coq_xO (Coq_xO (Coq_xO (Coq_xO (Coq_xO (Coq_xO (Coq_xO (Coq_xO
         (Coq_xO (Coq_xO (Coq_xO (Coq_xO (Coq_xO (Coq_xO (Coq_xO (Coq_xO
         (Coq_xO (Coq_xO (Coq_xO (Coq_xO (Coq_xO (Coq_xO (Coq_xO (Coq_xO
         (Coq_xO (Coq_xO (Coq_xO (Coq_xO (Coq_xO (Coq_xO (Coq_xO (Coq_xO
         (Coq_xO (Coq_xO (Coq_xO (Coq_xO (Coq_xO (Coq_xO (Coq_xO
         Coq_xH)))))))))))))))))))))))))))))))))))))))))))))))))))))))))))))))
  else if N.ltb b sign_bit
       then Z.of_N b
       else Z.opp (Z.of_N (N.sub b sign_bit))

(** val bytes_cmp : coq_N list -> coq_N list -> comparison **)

let rec bytes_cmp a b =
  match a with
  | [] -> (match b with
           | [] -> Eq
           | _ :: _ -> Lt)
  | x :: a' ->
    (match b with
     | [] -> Gt
     | y :: b' -> (match N.compare x y with
                   | Eq -> bytes_cmp a' b'
                   | x0 -> x0))

(** val type_rank : coq_val -> coq_Z **)

let type_rank = function
| VNull -> Zpos (Coq_xI (Coq_xO Coq_xH))
| VInt _ -> Zpos Coq_xH
| VFloat _ -> Zpos (Coq_xI Coq_xH)
| VStr _ -> Zpos (Coq_xO Coq_xH)
| VBool _ -> Z0
| VAnyFloat -> Zpos (Coq_xO (Coq_xO Coq_xH))

(** val val_cmp : coq_val -> coq_val -> comparison **)

let val_cmp a b =
  match a with
  | VInt x ->
    (match b with
     | VInt y -> Z.compare x y
     | _ -> Z.compare (type_rank a) (type_rank b))
  | VFloat x ->
    (match b with
     | VFloat y -> Z.compare (float_key x) (float_key y)
     | _ -> Z.compare (type_rank a) (type_rank b))
  | VStr x ->
    (match b with
     | VStr y -> bytes_cmp x y
     | _ -> Z.compare (type_rank a) (type_rank b))
  | VBool x ->
    (match b with
     | VBool y ->
       Z.compare (if x then Zpos Coq_xH else Z0)
         (if y then Zpos Coq_xH else Z0)
     | _ -> Z.compare (type_rank a) (type_rank b))
  | _ -> Z.compare (type_rank a) (type_rank b)

(** val val_eqb : coq_val -> coq_val -> bool **)

let val_eqb a b =
  match val_cmp a b with
  | Eq -> true
  | _ -> false

(** val val_match : coq_val -> coq_val -> bool **)

let val_match expected actual =
  match expected with
  | VAnyFloat ->
    (match actual with
     | VFloat _ -> true
     | VAnyFloat -> true
     | _ -> val_eqb expected actual)
  | _ -> val_eqb expected actual

(** val row_match : coq_val list -> coq_val list -> bool **)

let rec row_match e a =
  match e with
  | [] -> (match a with
           | [] -> true
           | _ :: _ -> false)
  | x :: e' ->
    (match a with
     | [] -> false
     | y :: a' -> (&&) (val_match x y) (row_match e' a'))

(** val vals_eqb : coq_val list -> coq_val list -> bool **)

let rec vals_eqb a b =
  match a with
  | [] -> (match b with
           | [] -> true
           | _ :: _ -> false)
  | x :: a' ->
    (match b with
     | [] -> false
     | y :: b' -> (&&) (val_eqb x y) (vals_eqb a' b'))

type cmp_op =
| CEq
| CNe
| CLt
| CLe
| CGt
| CGe

type expr =
| ECol of nat
| EConst of coq_val
| EArith of arith_op * expr * expr
| ECmp of cmp_op * expr * expr
| EAnd of expr * expr
| EOr of expr * expr
| ENot of expr
| EIsNull of expr
| EIsNotNull of expr
| ELike of expr * coq_N list

type eres =
| EVal of coq_val
| EOverflow
| ETypeErr

(** val spec_arith : arith_op -> coq_Z -> coq_Z -> eres **)

let spec_arith op a b =
  match exact_op op a b with
  | Some z ->
    if (&&) (in_i64 z)
         (negb
           (match op with
            | OpDiv -> (&&) (Z.leb a (Z.opp i64_max)) (Z.eqb b (Zneg Coq_xH))
            | _ -> false))
    then EVal (VInt z)
    else EOverflow
  | None -> EOverflow

(** val cmp_holds : cmp_op -> comparison -> bool **)

let cmp_holds c r =
  match c with
  | CEq -> (match r with
            | Eq -> true
            | _ -> false)
  | CNe -> (match r with
            | Eq -> false
            | _ -> true)
  | CLt -> (match r with
            | Lt -> true
            | _ -> false)
  | CLe -> (match r with
            | Gt -> false
            | _ -> true)
  | CGt -> (match r with
            | Gt -> true
            | _ -> false)
  | CGe -> (match r with
            | Lt -> false
            | _ -> true)

(** val same_type : coq_val -> coq_val -> bool **)

let same_type a b =
  match a with
  | VInt _ -> (match b with
               | VInt _ -> true
               | _ -> false)
  | VFloat _ -> (match b with
                 | VFloat _ -> true
                 | _ -> false)
  | VStr _ -> (match b with
               | VStr _ -> true
               | _ -> false)
  | _ -> false

(** val cmp_int_float : coq_Z -> coq_N -> comparison **)

let cmp_int_float z b =
  if float_is_nan b
  then Lt
  else let neg = N.leb sign_bit b in
       let absb = N.coq_land b abs_mask in
       let expbits =
         N.shiftr absb (Npos (Coq_xO (Coq_xO (Coq_xI (Coq_xO (Coq_xI
           Coq_xH))))))
       in
       let frac =
         N.coq_land absb (Npos (Coq_xI (Coq_xI (Coq_xI (Coq_xI (Coq_xI
           (Coq_xI (Coq_xI (Coq_xI (Coq_xI (Coq_xI (Coq_xI (Coq_xI (Coq_xI
           (Coq_xI (Coq_xI (Coq_xI (Coq_xI (Coq_xI (Coq_xI (Coq_xI (Coq_xI
           (Coq_xI (Coq_xI (Coq_xI (Coq_xI (Coq_xI (Coq_xI (Coq_xI (Coq_xI
           (Coq_xI (Coq_xI (Coq_xI (Coq_xI (Coq_xI (Coq_xI (Coq_xI (Coq_xI
           (Coq_xI (Coq_xI (Coq_xI (Coq_xI (Coq_xI (Coq_xI (Coq_xI (Coq_xI
           (Coq_xI (Coq_xI (Coq_xI (Coq_xI (Coq_xI (Coq_xI
           Coq_xH))))))))))))))))))))))))))))))))))))))))))))))))))))
       in
       if N.eqb expbits (Npos (Coq_xI (Coq_xI (Coq_xI (Coq_xI (Coq_xI (Coq_xI
            (Coq_xI (Coq_xI (Coq_xI (Coq_xI Coq_xH)))))))))))
       then if neg then Gt else Lt
       else let m =
              Z.of_N
                (if N.eqb expbits N0
                 then frac
                 else N.add frac (Npos (Coq_xO (Coq_xO (Coq_xO (Coq_xO
                        (Coq_xO (Coq_xO (Coq_xO (Coq_xO (Coq_xO (Coq_xO
                        (Coq_xO (Coq_xO (Coq_xO (Coq_xO (Coq_xO (Coq_xO
                        (Coq_xO (Coq_xO (Coq_xO (Coq_xO (Coq_xO (Coq_xO
                        (Coq_xO (Coq_xO (Coq_xO (Coq_xO (Coq_xO (Coq_xO
                        (Coq_xO (Coq_xO (Coq_xO (Coq_xO (Coq_xO (Coq_xO
                        (Coq_xO (Coq_xO (Coq_xO (Coq_xO (Coq_xO (Coq_xO
                        (Coq_xO (Coq_xO (Coq_xO (Coq_xO (Coq_xO (Coq_xO
                        (Coq_xO (Coq_xO (Coq_xO (Coq_xO (Coq_xO (Coq_xO
                        Coq_xH))))))))))))))))))))))))))))))))))))))))))))))))))))))
            in
            let e =
              Z.sub
                (Z.of_N (if N.eqb expbits N0 then Npos Coq_xH else expbits))
                (Zpos (Coq_xI (Coq_xI (Coq_xO (Coq_xO (Coq_xI (Coq_xI (Coq_xO
                (Coq_xO (Coq_xO (Coq_xO Coq_xH)))))))))))
            in
            let sm = if neg then Z.opp m else m in
            if Z.leb Z0 e
            then Z.compare z (Z.mul sm (Z.pow (Zpos (Coq_xO Coq_xH)) e))
            else Z.compare (Z.mul z (Z.pow (Zpos (Coq_xO Coq_xH)) (Z.opp e)))
                   sm

(** val cmp_values : coq_val -> coq_val -> comparison option **)

let cmp_values a b =
  match a with
  | VInt x ->
    (match b with
     | VFloat y -> Some (cmp_int_float x y)
     | _ -> if same_type a b then Some (val_cmp a b) else None)
  | VFloat x ->
    (match b with
     | VInt y -> Some (coq_CompOpp (cmp_int_float y x))
     | _ -> if same_type a b then Some (val_cmp a b) else None)
  | _ -> if same_type a b then Some (val_cmp a b) else None

(** val like_match : nat -> coq_N list -> coq_N list -> bool **)

let rec like_match fuel p s =
  match fuel with
  | O -> false
  | S fuel' ->
    (match p with
     | [] -> (match s with
              | [] -> true
              | _ :: _ -> false)
     | c :: p' ->
       (match c with
        | N0 ->
          (match s with
           | [] -> false
           | d :: s' -> (&&) (N.eqb c d) (like_match fuel' p' s'))
        | Npos p0 ->
          (match p0 with
           | Coq_xI p1 ->
             (match p1 with
              | Coq_xI p2 ->
                (match p2 with
                 | Coq_xI p3 ->
                   (match p3 with
                    | Coq_xI p4 ->
                      (match p4 with
                       | Coq_xI p5 ->
                         (match p5 with
                          | Coq_xO p6 ->
                            (match p6 with
                             | Coq_xH ->
                               (match s with
                                | [] -> false
                                | _ :: s' -> like_match fuel' p' s')
                             | _ ->
                               (match s with
                                | [] -> false
                                | d :: s' ->
                                  (&&) (N.eqb c d) (like_match fuel' p' s')))
                          | _ ->
                            (match s with
                             | [] -> false
                             | d :: s' ->
                               (&&) (N.eqb c d) (like_match fuel' p' s')))
                       | _ ->
                         (match s with
                          | [] -> false
                          | d :: s' ->
                            (&&) (N.eqb c d) (like_match fuel' p' s')))
                    | _ ->
                      (match s with
                       | [] -> false
                       | d :: s' -> (&&) (N.eqb c d) (like_match fuel' p' s')))
                 | _ ->
                   (match s with
                    | [] -> false
                    | d :: s' -> (&&) (N.eqb c d) (like_match fuel' p' s')))
              | Coq_xO p2 ->
                (match p2 with
                 | Coq_xI p3 ->
                   (match p3 with
                    | Coq_xO p4 ->
                      (match p4 with
                       | Coq_xO p5 ->
                         (match p5 with
                          | Coq_xH ->
                            (match p' with
                             | [] ->
                               (||) (like_match fuel' p' s)
                                 (match s with
                                  | [] -> false
                                  | _ :: s' -> like_match fuel' p s')
                             | n :: p'0 ->
                               (match n with
                                | N0 ->
                                  (||) (like_match fuel' p' s)
                                    (match s with
                                     | [] -> false
                                     | _ :: s' -> like_match fuel' p s')
                                | Npos p6 ->
                                  (match p6 with
                                   | Coq_xI p7 ->
                                     (match p7 with
                                      | Coq_xO p8 ->
                                        (match p8 with
                                         | Coq_xI p9 ->
                                           (match p9 with
                                            | Coq_xO p10 ->
                                              (match p10 with
                                               | Coq_xO p11 ->
                                                 (match p11 with
                                                  | Coq_xH ->
                                                    (match s with
                                                     | [] -> false
                                                     | n0 :: s' ->
                                                       (match n0 with
                                                        | N0 -> false
                                                        | Npos p12 ->
                                                          (match p12 with
                                                           | Coq_xI p13 ->
                                                             (match p13 with
                                                              | Coq_xO p14 ->
                                                                (match p14 with
                                                                 | Coq_xI p15 ->
                                                                   (match p15 with
                                                                    | Coq_xO p16 ->
                                                                    (match p16 with
                                                                    | Coq_xO p17 ->
                                                                    (match p17 with
                                                                    | Coq_xH ->
                                                                    like_match
                                                                    fuel' p'0
                                                                    s'
                                                                    | _ ->
                                                                    false)
                                                                    | _ ->
                                                                    false)
                                                                    | _ ->
                                                                    false)
                                                                 | _ -> false)
                                                              | _ -> false)
                                                           | _ -> false)))
                                                  | _ ->
                                                    (||)
                                                      (like_match fuel' p' s)
                                                      (match s with
                                                       | [] -> false
                                                       | _ :: s' ->
                                                         like_match fuel' p s'))
                                               | _ ->
                                                 (||) (like_match fuel' p' s)
                                                   (match s with
                                                    | [] -> false
                                                    | _ :: s' ->
                                                      like_match fuel' p s'))
                                            | _ ->
                                              (||) (like_match fuel' p' s)
                                                (match s with
                                                 | [] -> false
                                                 | _ :: s' ->
                                                   like_match fuel' p s'))
                                         | _ ->
                                           (||) (like_match fuel' p' s)
                                             (match s with
                                              | [] -> false
                                              | _ :: s' ->
                                                like_match fuel' p s'))
                                      | _ ->
                                        (||) (like_match fuel' p' s)
                                          (match s with
                                           | [] -> false
                                           | _ :: s' -> like_match fuel' p s'))
                                   | _ ->
                                     (||) (like_match fuel' p' s)
                                       (match s with
                                        | [] -> false
                                        | _ :: s' -> like_match fuel' p s'))))
                          | _ ->
                            (match s with
                             | [] -> false
                             | d :: s' ->
                               (&&) (N.eqb c d) (like_match fuel' p' s')))
                       | _ ->
                         (match s with
                          | [] -> false
                          | d :: s' ->
                            (&&) (N.eqb c d) (like_match fuel' p' s')))
                    | _ ->
                      (match s with
                       | [] -> false
                       | d :: s' -> (&&) (N.eqb c d) (like_match fuel' p' s')))
                 | _ ->
                   (match s with
                    | [] -> false
                    | d :: s' -> (&&) (N.eqb c d) (like_match fuel' p' s')))
              | Coq_xH ->
                (match s with
                 | [] -> false
                 | d :: s' -> (&&) (N.eqb c d) (like_match fuel' p' s')))
           | Coq_xO p1 ->
             (match p1 with
              | Coq_xO p2 ->
                (match p2 with
                 | Coq_xI p3 ->
                   (match p3 with
                    | Coq_xI p4 ->
                      (match p4 with
                       | Coq_xI p5 ->
                         (match p5 with
                          | Coq_xO p6 ->
                            (match p6 with
                             | Coq_xH ->
                               (match p' with
                                | [] ->
                                  (match s with
                                   | [] -> false
                                   | d :: s' ->
                                     (&&) (N.eqb c d) (like_match fuel' p' s'))
                                | n :: p'0 ->
                                  (match n with
                                   | N0 ->
                                     (match s with
                                      | [] -> false
                                      | d :: s' ->
                                        (&&) (N.eqb c d)
                                          (like_match fuel' p' s'))
                                   | Npos p7 ->
                                     (match p7 with
                                      | Coq_xI p8 ->
                                        (match p8 with
                                         | Coq_xI p9 ->
                                           (match p9 with
                                            | Coq_xI p10 ->
                                              (match p10 with
                                               | Coq_xI p11 ->
                                                 (match p11 with
                                                  | Coq_xI p12 ->
                                                    (match p12 with
                                                     | Coq_xO p13 ->
                                                       (match p13 with
                                                        | Coq_xH ->
                                                          (match s with
                                                           | [] -> false
                                                           | n0 :: s' ->
                                                             (match n0 with
                                                              | N0 -> false
                                                              | Npos p14 ->
                                                                (match p14 with
                                                                 | Coq_xI p15 ->
                                                                   (match p15 with
                                                                    | Coq_xI p16 ->
                                                                    (match p16 with
                                                                    | Coq_xI p17 ->
                                                                    (match p17 with
                                                                    | Coq_xI p18 ->
                                                                    (match p18 with
                                                                    | Coq_xI p19 ->
                                                                    (match p19 with
                                                                    | Coq_xO p20 ->
                                                                    (match p20 with
                                                                    | Coq_xH ->
                                                                    like_match
                                                                    fuel' p'0
                                                                    s'
                                                                    | _ ->
                                                                    false)
                                                                    | _ ->
                                                                    false)
                                                                    | _ ->
                                                                    false)
                                                                    | _ ->
                                                                    false)
                                                                    | _ ->
                                                                    false)
                                                                    | _ ->
                                                                    false)
                                                                 | _ -> false)))
                                                        | _ ->
                                                          (match s with
                                                           | [] -> false
                                                           | d :: s' ->
                                                             (&&) (N.eqb c d)
                                                               (like_match
                                                                 fuel' p' s')))
                                                     | _ ->
                                                       (match s with
                                                        | [] -> false
                                                        | d :: s' ->
                                                          (&&) (N.eqb c d)
                                                            (like_match fuel'
                                                              p' s')))
                                                  | _ ->
                                                    (match s with
                                                     | [] -> false
                                                     | d :: s' ->
                                                       (&&) (N.eqb c d)
                                                         (like_match fuel' p'
                                                           s')))
                                               | _ ->
                                                 (match s with
                                                  | [] -> false
                                                  | d :: s' ->
                                                    (&&) (N.eqb c d)
                                                      (like_match fuel' p' s')))
                                            | _ ->
                                              (match s with
                                               | [] -> false
                                               | d :: s' ->
                                                 (&&) (N.eqb c d)
                                                   (like_match fuel' p' s')))
                                         | _ ->
                                           (match s with
                                            | [] -> false
                                            | d :: s' ->
                                              (&&) (N.eqb c d)
                                                (like_match fuel' p' s')))
                                      | _ ->
                                        (match s with
                                         | [] -> false
                                         | d :: s' ->
                                           (&&) (N.eqb c d)
                                             (like_match fuel' p' s')))))
                             | _ ->
                               (match s with
                                | [] -> false
                                | d :: s' ->
                                  (&&) (N.eqb c d) (like_match fuel' p' s')))
                          | _ ->
                            (match s with
                             | [] -> false
                             | d :: s' ->
                               (&&) (N.eqb c d) (like_match fuel' p' s')))
                       | _ ->
                         (match s with
                          | [] -> false
                          | d :: s' ->
                            (&&) (N.eqb c d) (like_match fuel' p' s')))
                    | _ ->
                      (match s with
                       | [] -> false
                       | d :: s' -> (&&) (N.eqb c d) (like_match fuel' p' s')))
                 | _ ->
                   (match s with
                    | [] -> false
                    | d :: s' -> (&&) (N.eqb c d) (like_match fuel' p' s')))
              | _ ->
                (match s with
                 | [] -> false
                 | d :: s' -> (&&) (N.eqb c d) (like_match fuel' p' s')))
           | Coq_xH ->
             (match s with
              | [] -> false
              | d :: s' -> (&&) (N.eqb c d) (like_match fuel' p' s')))))

(** val and3 : coq_val -> coq_val -> eres **)

let and3 a b =
  match a with
  | VNull ->
    (match b with
     | VNull -> EVal VNull
     | VBool b0 -> if b0 then EVal VNull else EVal (VBool false)
     | _ -> ETypeErr)
  | VBool b0 ->
    if b0
    then (match b with
          | VNull -> EVal VNull
          | VBool x -> EVal (VBool x)
          | _ -> ETypeErr)
    else (match b with
          | VNull -> EVal (VBool false)
          | VBool _ -> EVal (VBool false)
          | _ -> ETypeErr)
  | _ -> ETypeErr

(** val or3 : coq_val -> coq_val -> eres **)

let or3 a b =
  match a with
  | VNull ->
    (match b with
     | VNull -> EVal VNull
     | VBool b0 -> if b0 then EVal (VBool true) else EVal VNull
     | _ -> ETypeErr)
  | VBool b0 ->
    if b0
    then (match b with
          | VNull -> EVal (VBool true)
          | VBool _ -> EVal (VBool true)
          | _ -> ETypeErr)
    else (match b with
          | VNull -> EVal VNull
          | VBool x -> EVal (VBool x)
          | _ -> ETypeErr)
  | _ -> ETypeErr

(** val eval_expr : coq_val list -> expr -> eres **)

let rec eval_expr row = function
| ECol i -> EVal (qnth i row VNull)
| EConst v -> EVal v
| EArith (op, l, r) ->
  (match eval_expr row l with
   | EVal a ->
     (match eval_expr row r with
      | EVal b ->
        (match a with
         | VNull ->
           (match b with
            | VNull -> EVal VNull
            | VInt _ -> EVal VNull
            | _ -> ETypeErr)
         | VInt x ->
           (match b with
            | VNull -> EVal VNull
            | VInt y -> spec_arith op x y
            | _ -> ETypeErr)
         | _ -> ETypeErr)
      | x -> x)
   | x -> x)
| ECmp (c, l, r) ->
  (match eval_expr row l with
   | EVal a ->
     (match eval_expr row r with
      | EVal b ->
        (match a with
         | VNull -> EVal VNull
         | _ ->
           (match b with
            | VNull -> EVal VNull
            | _ ->
              (match cmp_values a b with
               | Some r0 -> EVal (VBool (cmp_holds c r0))
               | None -> ETypeErr)))
      | x -> x)
   | x -> x)
| EAnd (l, r) ->
  (match eval_expr row l with
   | EVal a -> (match eval_expr row r with
                | EVal b -> and3 a b
                | x -> x)
   | x -> x)
| EOr (l, r) ->
  (match eval_expr row l with
   | EVal a -> (match eval_expr row r with
                | EVal b -> or3 a b
                | x -> x)
   | x -> x)
| ENot e1 ->
  (match eval_expr row e1 with
   | EVal v ->
     (match v with
      | VNull -> EVal VNull
      | VBool b -> EVal (VBool (negb b))
      | _ -> ETypeErr)
   | x -> x)
| EIsNull e1 ->
  (match eval_expr row e1 with
   | EVal v ->
     (match v with
      | VNull -> EVal (VBool true)
      | _ -> EVal (VBool false))
   | x -> x)
| EIsNotNull e1 ->
  (match eval_expr row e1 with
   | EVal v ->
     (match v with
      | VNull -> EVal (VBool false)
      | _ -> EVal (VBool true))
   | x -> x)
| ELike (e1, p) ->
  (match eval_expr row e1 with
   | EVal v ->
     (match v with
      | VNull -> EVal VNull
      | VStr s ->
        EVal (VBool (like_match (S (add (length p) (length s))) p s))
      | _ -> ETypeErr)
   | x -> x)

type agg =
| ACount
| ASum
| AMin
| AMax

type sel =
| SPlain of expr
| SAgg of agg * expr
| SAvg of expr

type okey =
| OExpr of expr
| OOut of nat

type query = { q_select : sel list; q_where : expr option;
               q_order : (okey * bool) list; q_limit : coq_N option;
               q_offset : coq_N }

type prow = coq_val list

type 'a res =
| Ok of 'a
| Overflow
| TypeErr

(** val rbind : 'a1 res -> ('a1 -> 'a2 res) -> 'a2 res **)

let rbind r f =
  match r with
  | Ok a -> f a
  | Overflow -> Overflow
  | TypeErr -> TypeErr

(** val of_eres : eres -> coq_val res **)

let of_eres = function
| EVal v -> Ok v
| EOverflow -> Overflow
| ETypeErr -> TypeErr

(** val rmap : ('a1 -> 'a2 res) -> 'a1 list -> 'a2 list res **)

let rec rmap f = function
| [] -> Ok []
| x :: r -> rbind (f x) (fun y -> rbind (rmap f r) (fun ys -> Ok (y :: ys)))

(** val filter_rows :
    expr option -> coq_val list list -> coq_val list list res **)

let rec filter_rows w = function
| [] -> Ok []
| row :: rest ->
  (match w with
   | Some e ->
     (match eval_expr row e with
      | EVal v ->
        (match v with
         | VNull -> filter_rows w rest
         | VBool b ->
           if b
           then rbind (filter_rows w rest) (fun rs -> Ok (row :: rs))
           else filter_rows w rest
         | _ -> TypeErr)
      | EOverflow -> Overflow
      | ETypeErr -> TypeErr)
   | None -> rbind (filter_rows w rest) (fun rs -> Ok (row :: rs)))

(** val is_agg : sel -> bool **)

let is_agg = function
| SPlain _ -> false
| _ -> true

(** val keys_cmp : bool list -> coq_val list -> coq_val list -> comparison **)

let rec keys_cmp dirs a b =
  match dirs with
  | [] -> Eq
  | d :: dirs' ->
    (match a with
     | [] -> Eq
     | x :: a' ->
       (match b with
        | [] -> Eq
        | y :: b' ->
          (match val_cmp x y with
           | Eq -> keys_cmp dirs' a' b'
           | x0 -> if d then coq_CompOpp x0 else x0)))

(** val keys_leb : bool list -> coq_val list -> coq_val list -> bool **)

let keys_leb dirs a b =
  match keys_cmp dirs a b with
  | Gt -> false
  | _ -> true

(** val insert_sorted :
    bool list -> (coq_val list * prow) -> (coq_val list * prow) list ->
    (coq_val list * prow) list **)

let rec insert_sorted dirs x = function
| [] -> x :: []
| y :: r ->
  if keys_leb dirs (fst x) (fst y)
  then x :: (y :: r)
  else y :: (insert_sorted dirs x r)

(** val sort_rows :
    bool list -> (coq_val list * prow) list -> (coq_val list * prow) list **)

let rec sort_rows dirs = function
| [] -> []
| x :: r -> insert_sorted dirs x (sort_rows dirs r)

(** val tie_classes :
    bool list -> (coq_val list * prow) list -> prow list list **)

let rec tie_classes dirs = function
| [] -> []
| kp :: r ->
  (match r with
   | [] -> ((snd kp) :: []) :: []
   | kp' :: _ ->
     (match tie_classes dirs r with
      | [] -> ((snd kp) :: []) :: []
      | c :: cs ->
        (match keys_cmp dirs (fst kp) (fst kp') with
         | Eq -> ((snd kp) :: c) :: cs
         | _ -> ((snd kp) :: []) :: (c :: cs))))

(** val group_insert :
    coq_val list -> coq_val list -> (coq_val list * coq_val list list) list
    -> (coq_val list * coq_val list list) list **)

let rec group_insert k row = function
| [] -> (k, (row :: [])) :: []
| p :: rest ->
  let (k', rows) = p in
  if vals_eqb k k'
  then (k', (app rows (row :: []))) :: rest
  else (k', rows) :: (group_insert k row rest)

(** val sum_pos : coq_Z list -> coq_Z **)

let sum_pos xs =
  qfold_left (fun a x -> if Z.ltb Z0 x then Z.add a x else a) xs Z0

(** val sum_neg : coq_Z list -> coq_Z **)

let sum_neg xs =
  qfold_left (fun a x -> if Z.ltb x Z0 then Z.add a x else a) xs Z0

(** val sum_all : coq_Z list -> coq_Z **)

let sum_all xs =
  qfold_left Z.add xs Z0

(** val ints_of : coq_val list -> coq_Z list option **)

let rec ints_of = function
| [] -> Some []
| v :: r ->
  (match v with
   | VInt z -> (match ints_of r with
                | Some zs -> Some (z :: zs)
                | None -> None)
   | _ -> None)

(** val non_null : coq_val list -> coq_val list **)

let non_null vs =
  qfilter (fun v -> match v with
                    | VNull -> false
                    | _ -> true) vs

(** val best : comparison -> coq_val -> coq_val list -> coq_val **)

let rec best want cur = function
| [] -> cur
| v :: r ->
  best want
    (match val_cmp v cur with
     | Eq -> cur
     | Lt -> (match want with
              | Lt -> v
              | _ -> cur)
     | Gt -> (match want with
              | Gt -> v
              | _ -> cur)) r

(** val is_float : coq_val -> bool **)

let is_float = function
| VFloat _ -> true
| _ -> false

(** val is_int : coq_val -> bool **)

let is_int = function
| VInt _ -> true
| _ -> false

(** val eval_agg : agg -> coq_val list -> coq_val res **)

let eval_agg a args =
  let vs = non_null args in
  (match a with
   | ACount -> Ok (VInt (Z.of_nat (length vs)))
   | ASum ->
     (match vs with
      | [] -> Ok VNull
      | _ :: _ ->
        (match ints_of vs with
         | Some zs ->
           let s = sum_all zs in if in_i64 s then Ok (VInt s) else Overflow
         | None -> if qforallb is_float vs then Ok VAnyFloat else TypeErr))
   | _ ->
     (match vs with
      | [] -> Ok VNull
      | v :: r ->
        if (||) (qforallb is_int vs) (qforallb is_float vs)
        then Ok (best (match a with
                       | AMin -> Lt
                       | _ -> Gt) v r)
        else TypeErr))

(** val eval_avg : coq_val list -> coq_val res **)

let eval_avg args =
  rbind (eval_agg ASum args) (fun s ->
    rbind (eval_agg ACount args) (fun c ->
      match s with
      | VNull -> (match c with
                  | VInt _ -> Ok VNull
                  | _ -> TypeErr)
      | VInt x ->
        (match c with
         | VInt y -> of_eres (spec_arith OpDiv x y)
         | _ -> TypeErr)
      | _ -> TypeErr))

(** val eval_sel_group : coq_val list list -> sel -> coq_val res **)

let eval_sel_group rows = function
| SPlain e ->
  (match rows with
   | [] -> TypeErr
   | row :: _ -> of_eres (eval_expr row e))
| SAgg (a, e) ->
  rbind (rmap (fun row -> of_eres (eval_expr row e)) rows) (eval_agg a)
| SAvg e -> rbind (rmap (fun row -> of_eres (eval_expr row e)) rows) eval_avg

(** val plain_exprs : sel list -> expr list **)

let plain_exprs ss =
  qconcat (qmap (fun s -> match s with
                          | SPlain e -> e :: []
                          | _ -> []) ss)

(** val order_key : prow -> coq_val list option -> okey -> coq_val res **)

let order_key prow_ row = function
| OExpr e ->
  (match row with
   | Some r -> of_eres (eval_expr r e)
   | None -> TypeErr)
| OOut i -> Ok (qnth i prow_ VNull)

(** val dirs_of : query -> bool list **)

let dirs_of q =
  qmap snd q.q_order

(** val classes_of : query -> (coq_val list * prow) list -> prow list list **)

let classes_of q keyed =
  match q.q_order with
  | [] -> []
  | _ :: _ -> tie_classes (dirs_of q) (sort_rows (dirs_of q) keyed)

(** val eval_classes : query -> coq_val list list -> prow list list res **)

let eval_classes q t =
  rbind (filter_rows q.q_where t) (fun rows ->
    if qexistsb is_agg q.q_select
    then let kes = plain_exprs q.q_select in
         rbind
           (rmap (fun row ->
             rbind (rmap (fun e -> of_eres (eval_expr row e)) kes) (fun k ->
               Ok (k, row))) rows) (fun keyed_rows ->
           let groups =
             qfold_left (fun gs kr -> group_insert (fst kr) (snd kr) gs)
               keyed_rows []
           in
           rbind
             (rmap (fun g -> rmap (eval_sel_group (snd g)) q.q_select) groups)
             (fun out ->
             match q.q_order with
             | [] -> Ok (match out with
                         | [] -> []
                         | _ :: _ -> out :: [])
             | p :: l ->
               rbind
                 (rmap (fun p0 ->
                   rbind
                     (rmap (fun kd -> order_key p0 None (fst kd)) (p :: l))
                     (fun k -> Ok (k, p0))) out) (fun keyed -> Ok
                 (classes_of q keyed))))
    else let proj = fun row ->
           rmap (fun s ->
             match s with
             | SPlain e -> of_eres (eval_expr row e)
             | _ -> TypeErr) q.q_select
         in
         (match q.q_order with
          | [] ->
            rbind (rmap proj rows) (fun ps -> Ok (qmap (fun p -> p :: []) ps))
          | p :: l ->
            rbind
              (rmap (fun row ->
                rbind (proj row) (fun p0 ->
                  rbind
                    (rmap (fun kd -> order_key p0 (Some row) (fst kd))
                      (p :: l)) (fun k -> Ok (k, p0)))) rows) (fun keyed ->
              Ok (classes_of q keyed))))

(** val window : coq_N -> coq_N option -> 'a1 list -> 'a1 list **)

let window off lim l =
  let rest = qskipn (N.to_nat (N.min off (N.of_nat (length l)))) l in
  (match lim with
   | Some n -> qfirstn (N.to_nat (N.min n (N.of_nat (length rest)))) rest
   | None -> rest)

(** val remove_match : prow -> prow list -> prow list option **)

let rec remove_match a = function
| [] -> None
| e :: r ->
  if row_match e a
  then Some r
  else (match remove_match a r with
        | Some r' -> Some (e :: r')
        | None -> None)

(** val sub_multiset : prow list -> prow list -> bool **)

let rec sub_multiset seg c =
  match seg with
  | [] -> true
  | a :: seg' ->
    (match remove_match a c with
     | Some c' -> sub_multiset seg' c'
     | None -> false)

(** val chk : prow list list -> nat -> nat option -> prow list -> bool **)

let rec chk classes skip take out =
  match classes with
  | [] -> (match out with
           | [] -> true
           | _ :: _ -> false)
  | c :: rest ->
    let len = length c in
    if PeanoNat.Nat.leb len skip
    then chk rest (sub skip len) take out
    else let avail = sub len skip in
         let k =
           match take with
           | Some n -> PeanoNat.Nat.min avail n
           | None -> avail
         in
         let seg = qfirstn k out in
         let out' = qskipn k out in
         (&&) ((&&) (PeanoNat.Nat.eqb (length seg) k) (sub_multiset seg c))
           (chk rest O
             (match take with
              | Some n -> Some (sub n k)
              | None -> None) out')

(** val total_rows : prow list list -> nat **)

let total_rows classes =
  qfold_left (fun n c -> add n (length c)) classes O

type output =
| ORows of prow list
| OOverflow
| OOther

(** val expr_overflows : coq_val list -> expr -> bool **)

let expr_overflows row e =
  match eval_expr row e with
  | EOverflow -> true
  | _ -> false

(** val sel_exprs : sel -> expr list **)

let sel_exprs = function
| SPlain e -> e :: []
| SAgg (_, e) -> e :: []
| SAvg e -> e :: []

(** val query_exprs : query -> expr list **)

let query_exprs q =
  app (match q.q_where with
       | Some e -> e :: []
       | None -> [])
    (app (qconcat (qmap sel_exprs q.q_select))
      (qconcat
        (qmap (fun kd -> match fst kd with
                         | OExpr e -> e :: []
                         | OOut _ -> []) q.q_order)))

(** val sum_may_overflow : coq_val list -> bool **)

let sum_may_overflow args =
  match ints_of (non_null args) with
  | Some zs -> (||) (negb (in_i64 (sum_pos zs))) (negb (in_i64 (sum_neg zs)))
  | None -> false

(** val group_sum_may_overflow : query -> coq_val list list -> bool **)

let group_sum_may_overflow q rows =
  qexistsb (fun s ->
    match s with
    | SPlain _ -> false
    | SAgg (a, e) ->
      (match a with
       | ASum ->
         (match rmap (fun row -> of_eres (eval_expr row e)) rows with
          | Ok args -> sum_may_overflow args
          | _ -> false)
       | _ -> false)
    | SAvg e ->
      (match rmap (fun row -> of_eres (eval_expr row e)) rows with
       | Ok args -> sum_may_overflow args
       | _ -> false)) q.q_select

(** val may_fail : query -> coq_val list list -> bool **)

let may_fail q t =
  (||)
    (qexistsb (fun row -> qexistsb (expr_overflows row) (query_exprs q)) t)
    (match filter_rows q.q_where t with
     | Ok rows ->
       let kes = plain_exprs q.q_select in
       (match rmap (fun row ->
                rbind (rmap (fun e -> of_eres (eval_expr row e)) kes)
                  (fun k -> Ok (k, row))) rows with
        | Ok keyed_rows ->
          let groups =
            qfold_left (fun gs kr -> group_insert (fst kr) (snd kr) gs)
              keyed_rows []
          in
          qexistsb (fun g -> group_sum_may_overflow q (snd g)) groups
        | _ -> false)
     | _ -> false)

(** val off_nat : query -> nat -> nat **)

let off_nat q n =
  N.to_nat (N.min q.q_offset (N.of_nat n))

(** val lim_nat : query -> nat -> nat option **)

let lim_nat q n =
  match q.q_limit with
  | Some l -> Some (N.to_nat (N.min l (N.of_nat n)))
  | None -> None

(** val valid : query -> coq_val list list -> output -> bool **)

let valid q t = function
| ORows rows ->
  (match eval_classes q t with
   | Ok classes ->
     let n = total_rows classes in
     chk classes (off_nat q n) (lim_nat q n) rows
   | _ -> false)
| OOverflow -> may_fail q t
| OOther -> false

(** val eval_query : query -> coq_val list list -> output **)

let eval_query q t =
  match eval_classes q t with
  | Ok classes -> ORows (window q.q_offset q.q_limit (qconcat classes))
  | Overflow -> OOverflow
  | TypeErr -> OOther
