open BinNums
open CheckedArith
open Datatypes
open Nat
open QuerySpecList

type mop =
| TakeLeft
| TakeRight
| MergeRight

(** val last_is : ('a1 -> 'a1 -> bool) -> 'a1 option -> 'a1 -> bool **)

let last_is eqb last y =
  match last with
  | Some p -> eqb p y
  | None -> false

(** val md_loop :
    ('a1 -> 'a1 -> bool) -> ('a1 -> 'a1 -> bool) -> nat -> 'a1 list -> 'a1
    list -> 'a1 option -> 'a1 list * mop list **)

let rec md_loop cmp_eq eqb fuel l r last =
  match fuel with
  | O -> ([], [])
  | S fuel' ->
    (match l with
     | [] ->
       (match r with
        | [] -> ([], [])
        | y :: r' ->
          if last_is eqb last y
          then (r', (MergeRight :: (qmap (fun _ -> TakeRight) r')))
          else (r, (qmap (fun _ -> TakeRight) r)))
     | x :: l' ->
       (match r with
        | [] -> (l, (qmap (fun _ -> TakeLeft) l))
        | y :: r' ->
          if last_is eqb last y
          then let (ks, ops) = md_loop cmp_eq eqb fuel' l r' last in
               (ks, (MergeRight :: ops))
          else if cmp_eq x y
               then let (ks, ops) = md_loop cmp_eq eqb fuel' l' r (Some x) in
                    ((x :: ks), (TakeLeft :: ops))
               else let (ks, ops) = md_loop cmp_eq eqb fuel' l r' (Some y) in
                    ((y :: ks), (TakeRight :: ops))))

(** val merge_deduplicate :
    ('a1 -> 'a1 -> bool) -> ('a1 -> 'a1 -> bool) -> 'a1 list -> 'a1 list ->
    'a1 list * mop list **)

let merge_deduplicate cmp_eq eqb l r =
  md_loop cmp_eq eqb (S (add (length l) (length r))) l r None

(** val mdp_group :
    ('a1 -> 'a1 -> bool) -> ('a1 -> 'a1 -> bool) -> nat -> 'a1 list -> 'a1
    list -> 'a1 option -> 'a1 list * mop list **)

let rec mdp_group cmp_eq eqb n gl gr last =
  match n with
  | O -> ([], [])
  | S n' ->
    (match gr with
     | [] ->
       (match gl with
        | [] -> ([], [])
        | x :: gl' ->
          let (ks, ops) = mdp_group cmp_eq eqb n' gl' [] (Some x) in
          ((x :: ks), (TakeLeft :: ops)))
     | y :: gr' ->
       if last_is eqb last y
       then let (ks, ops) = mdp_group cmp_eq eqb n' gl gr' last in
            (ks, (MergeRight :: ops))
       else (match gl with
             | [] ->
               let (ks, ops) = mdp_group cmp_eq eqb n' [] gr' (Some y) in
               ((y :: ks), (TakeRight :: ops))
             | x :: gl' ->
               if cmp_eq x y
               then let (ks, ops) = mdp_group cmp_eq eqb n' gl' gr (Some x) in
                    ((x :: ks), (TakeLeft :: ops))
               else let (ks, ops) = mdp_group cmp_eq eqb n' gl gr' (Some y) in
                    ((y :: ks), (TakeRight :: ops))))

(** val merge_deduplicate_partitioned :
    ('a1 -> 'a1 -> bool) -> ('a1 -> 'a1 -> bool) -> (nat * nat) list -> 'a1
    list -> 'a1 list -> 'a1 list * mop list **)

let rec merge_deduplicate_partitioned cmp_eq eqb groups l r =
  match groups with
  | [] -> ([], [])
  | p :: gs ->
    let (nl, nr) = p in
    let (ks, ops) =
      mdp_group cmp_eq eqb (add nl nr) (qfirstn nl l) (qfirstn nr r) None
    in
    let (ks', ops') =
      merge_deduplicate_partitioned cmp_eq eqb gs (qskipn nl l) (qskipn nr r)
    in
    ((app ks ks'), (app ops ops'))

(** val merge_drop : mop list -> 'a1 list -> 'a1 list -> 'a1 list option **)

let rec merge_drop ops l r =
  match ops with
  | [] -> Some []
  | m :: ops' ->
    (match m with
     | TakeLeft ->
       (match l with
        | [] -> None
        | x :: l' ->
          (match merge_drop ops' l' r with
           | Some m0 -> Some (x :: m0)
           | None -> None))
     | TakeRight ->
       (match r with
        | [] -> None
        | y :: r' ->
          (match merge_drop ops' l r' with
           | Some m0 -> Some (y :: m0)
           | None -> None))
     | MergeRight ->
       (match r with
        | [] -> None
        | _ :: r' -> merge_drop ops' l r'))

type agg_res =
| AOk of coq_Z list
| AOverflow
| APanic

(** val ma_loop :
    agg_kind -> mop list -> coq_Z list -> coq_Z list -> coq_Z list -> agg_res **)

let rec ma_loop k ops l r acc =
  match ops with
  | [] -> AOk (qrev acc)
  | m :: ops' ->
    (match m with
     | TakeLeft ->
       (match l with
        | [] -> APanic
        | x :: l' -> ma_loop k ops' l' r (x :: acc))
     | TakeRight ->
       (match r with
        | [] -> APanic
        | y :: r' -> ma_loop k ops' l r' (y :: acc))
     | MergeRight ->
       (match acc with
        | [] -> APanic
        | a :: acc' ->
          (match r with
           | [] -> APanic
           | y :: r' ->
             (match combine_i64 k a y with
              | CbOk v -> ma_loop k ops' l r' (v :: acc')
              | CbOverflow -> AOverflow
              | CbPanic -> APanic))))

(** val merge_aggregate :
    agg_kind -> mop list -> coq_Z list -> coq_Z list -> agg_res **)

let merge_aggregate k ops l r =
  match l with
  | [] -> AOk r
  | _ :: _ -> (match r with
               | [] -> AOk l
               | _ :: _ -> ma_loop k ops l r [])
