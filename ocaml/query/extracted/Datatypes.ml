
(** val negb : bool -> bool **)

let negb = function
| true -> false
| false -> true

type nat =
| O
| S of nat

(** val fst : ('a1 * 'a2) -> 'a1 **)

let fst = function
| (x, _) -> x

(** val snd : ('a1 * 'a2) -> 'a2 **)

let snd = function
| (_, y) -> y

type comparison =
| Eq
| Lt
| Gt

(** val coq_CompOpp : comparison -> comparison **)

let coq_CompOpp = function
| Eq -> Eq
| Lt -> Gt
| Gt -> Lt
