open Datatypes

val add : nat -> nat -> nat

val mul : nat -> nat -> nat

val sub : nat -> nat -> nat
