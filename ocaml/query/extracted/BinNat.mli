open BinNums
open BinPos
open Datatypes

module N :
 sig
  val succ_double : coq_N -> coq_N

  val double : coq_N -> coq_N

  val add : coq_N -> coq_N -> coq_N

  val sub : coq_N -> coq_N -> coq_N

  val compare : coq_N -> coq_N -> comparison

  val eqb : coq_N -> coq_N -> bool

  val leb : coq_N -> coq_N -> bool

  val ltb : coq_N -> coq_N -> bool

  val min : coq_N -> coq_N -> coq_N

  val div2 : coq_N -> coq_N

  val pos_div_eucl : positive -> coq_N -> coq_N * coq_N

  val coq_land : coq_N -> coq_N -> coq_N

  val shiftr : coq_N -> coq_N -> coq_N

  val to_nat : coq_N -> nat

  val of_nat : nat -> coq_N
 end
