open BinNums
open BinPos
open Datatypes

module N :
 sig
  val succ_double : coq_N -> coq_N

  val double : coq_N -> coq_N

  val add : coq_N -> coq_N -> coq_N

  val sub : coq_N -> coq_N -> coq_N

  val compare : coq_N -> coq_N -> comparison

  val leb : coq_N -> coq_N -> bool

  val pos_div_eucl : positive -> coq_N -> coq_N * coq_N
 end
