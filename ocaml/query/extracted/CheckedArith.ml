open BinInt
open BinNums
open Datatypes
open QuerySpecList

(** val i64_min : coq_Z **)

let i64_min =
  Zneg (Coq_xO (Coq_xO (Coq_xO (Coq_xO (Coq_xO (Coq_xO (Coq_xO (Coq_xO
    (Coq_xO (Coq_xO (Coq_xO (Coq_xO (Coq_xO (Coq_xO (Coq_xO (Coq_xO (Coq_xO
    (Coq_xO (Coq_xO (Coq_xO (Coq_xO (Coq_xO (Coq_xO (Coq_xO (Coq_xO (Coq_xO
    (Coq_xO (Coq_xO (Coq_xO (Coq_xO (Coq_xO (Coq_xO (Coq_xO (Coq_xO (Coq_xO
    (Coq_xO (Coq_xO (Coq_xO (Coq_xO (Coq_xO (Coq_xO (Coq_xO (Coq_xO (Coq_xO
    (Coq_xO (Coq_xO (Coq_xO (Coq_xO (Coq_xO (Coq_xO (Coq_xO (Coq_xO (Coq_xO
    (Coq_xO (Coq_xO (Coq_xO (Coq_xO (Coq_xO (Coq_xO (Coq_xO (Coq_xO (Coq_xO
    (Coq_xO
    Coq_xH)))))))))))))))))))))))))))))))))))))))))))))))))))))))))))))))

(** val i64_max : coq_Z **)

let i64_max =
  Zpos (Coq_xI (Coq_xI (Coq_xI (Coq_xI (Coq_xI (Coq_xI (Coq_xI (Coq_xI
    (Coq_xI (Coq_xI (Coq_xI (Coq_xI (Coq_xI (Coq_xI (Coq_xI (Coq_xI (Coq_xI
    (Coq_xI (Coq_xI (Coq_xI (Coq_xI (Coq_xI (Coq_xI (Coq_xI (Coq_xI (Coq_xI
    (Coq_xI (Coq_xI (Coq_xI (Coq_xI (Coq_xI (Coq_xI (Coq_xI (Coq_xI (Coq_xI
    (Coq_xI (Coq_xI (Coq_xI (Coq_xI (Coq_xI (Coq_xI (Coq_xI (Coq_xI (Coq_xI
    (Coq_xI (Coq_xI (Coq_xI (Coq_xI (Coq_xI (Coq_xI (Coq_xI (Coq_xI (Coq_xI
    (Coq_xI (Coq_xI (Coq_xI (Coq_xI (Coq_xI (Coq_xI (Coq_xI (Coq_xI (Coq_xI
    Coq_xH))))))))))))))))))))))))))))))))))))))))))))))))))))))))))))))

(** val two64 : coq_Z **)

let two64 =
  Zpos (Coq_xO (Coq_xO (Coq_xO (Coq_xO (Coq_xO (Coq_xO (Coq_xO (Coq_xO
    (Coq_xO (Coq_xO (Coq_xO (Coq_xO (Coq_xO (Coq_xO (Coq_xO (Coq_xO (Coq_xO
    (Coq_xO (Coq_xO (Coq_xO (Coq_xO (Coq_xO (Coq_xO (Coq_xO (Coq_xO (Coq_xO
    (Coq_xO (Coq_xO (Coq_xO (Coq_xO (Coq_xO (Coq_xO (Coq_xO (Coq_xO (Coq_xO
    (Coq_xO (Coq_xO (Coq_xO (Coq_xO (Coq_xO (Coq_xO (Coq_xO (Coq_xO (Coq_xO
    (Coq_xO (Coq_xO (Coq_xO (Coq_xO (Coq_xO (Coq_xO (Coq_xO (Coq_xO (Coq_xO
    (Coq_xO (Coq_xO (Coq_xO (Coq_xO (Coq_xO (Coq_xO (Coq_xO (Coq_xO (Coq_xO
    (Coq_xO (Coq_xO
    Coq_xH))))))))))))))))))))))))))))))))))))))))))))))))))))))))))))))))

(** val two63 : coq_Z **)

let two63 =
  Zpos (Coq_xO (Coq_xO (Coq_xO (Coq_xO (Coq_xO (Coq_xO (Coq_xO (Coq_xO
    (Coq_xO (Coq_xO (Coq_xO (Coq_xO (Coq_xO (Coq_xO (Coq_xO (Coq_xO (Coq_xO
    (Coq_xO (Coq_xO (Coq_xO (Coq_xO (Coq_xO (Coq_xO (Coq_xO (Coq_xO (Coq_xO
    (Coq_xO (Coq_xO (Coq_xO (Coq_xO (Coq_xO (Coq_xO (Coq_xO (Coq_xO (Coq_xO
    (Coq_xO (Coq_xO (Coq_xO (Coq_xO (Coq_xO (Coq_xO (Coq_xO (Coq_xO (Coq_xO
    (Coq_xO (Coq_xO (Coq_xO (Coq_xO (Coq_xO (Coq_xO (Coq_xO (Coq_xO (Coq_xO
    (Coq_xO (Coq_xO (Coq_xO (Coq_xO (Coq_xO (Coq_xO (Coq_xO (Coq_xO (Coq_xO
    (Coq_xO
    Coq_xH)))))))))))))))))))))))))))))))))))))))))))))))))))))))))))))))

(** val in_i64 : coq_Z -> bool **)

let in_i64 z =
  (&&) (Z.leb i64_min z) (Z.leb z i64_max)

(** val wrap64 : coq_Z -> coq_Z **)

let wrap64 z =
  Z.sub (Z.modulo (Z.add z two63) two64) two63

type arith_op =
| OpAdd
| OpSub
| OpMul
| OpDiv
| OpMod

type checked_res =
| RVal of coq_Z * bool

(** val overflowing : coq_Z -> checked_res **)

let overflowing z =
  RVal ((wrap64 z), (negb (in_i64 z)))

(** val perform_checked : arith_op -> coq_Z -> coq_Z -> checked_res **)

let perform_checked op a b =
  match op with
  | OpAdd -> overflowing (Z.add a b)
  | OpSub -> overflowing (Z.sub a b)
  | OpMul -> overflowing (Z.mul a b)
  | OpDiv ->
    if (||) (Z.eqb b Z0)
         ((&&) (Z.leb a (Z.opp i64_max)) (Z.eqb b (Zneg Coq_xH)))
    then RVal ((Zpos Coq_xH), true)
    else RVal ((Z.quot a b), false)
  | OpMod ->
    if Z.eqb b Z0
    then RVal ((Zpos Coq_xH), true)
    else RVal ((Z.rem a b), false)

(** val exact_op : arith_op -> coq_Z -> coq_Z -> coq_Z option **)

let exact_op op a b =
  match op with
  | OpAdd -> Some (Z.add a b)
  | OpSub -> Some (Z.sub a b)
  | OpMul -> Some (Z.mul a b)
  | OpDiv -> if Z.eqb b Z0 then None else Some (Z.quot a b)
  | OpMod -> if Z.eqb b Z0 then None else Some (Z.rem a b)

type vec_res =
| VOk of coq_Z list
| VOverflow

(** val checked_loop :
    arith_op -> (coq_Z * coq_Z) list -> bool list option -> coq_Z list ->
    bool -> vec_res **)

let rec checked_loop op pairs present acc any =
  match pairs with
  | [] -> if any then VOverflow else VOk (qrev acc)
  | p :: rest ->
    let (a, b) = p in
    (match present with
     | Some l ->
       (match l with
        | [] ->
          let p0 = false in
          let present' = Some [] in
          let RVal (v, o) = perform_checked op a b in
          checked_loop op rest present' (v :: acc) ((||) any ((&&) o p0))
        | p0 :: ps ->
          let present' = Some ps in
          let RVal (v, o) = perform_checked op a b in
          checked_loop op rest present' (v :: acc) ((||) any ((&&) o p0)))
     | None ->
       let p0 = true in
       let present' = None in
       let RVal (v, o) = perform_checked op a b in
       checked_loop op rest present' (v :: acc) ((||) any ((&&) o p0)))

type cell_res =
| COk of coq_Z option
| COverflow

type aexpr =
| ACol of nat
| AConst of coq_Z
| ABin of arith_op * aexpr * aexpr

(** val cell_op : arith_op -> coq_Z option -> coq_Z option -> cell_res **)

let cell_op op a b =
  match a with
  | Some x ->
    (match b with
     | Some y ->
       let RVal (v, overflow) = perform_checked op x y in
       if overflow then COverflow else COk (Some v)
     | None -> COk None)
  | None -> COk None

(** val eval_aexpr : coq_Z option list -> aexpr -> cell_res **)

let rec eval_aexpr row = function
| ACol i -> COk (qnth i row None)
| AConst z -> COk (Some z)
| ABin (op, l, r) ->
  (match eval_aexpr row l with
   | COk a ->
     (match eval_aexpr row r with
      | COk b -> cell_op op a b
      | COverflow -> COverflow)
   | COverflow -> COverflow)

(** val sum_loop : coq_Z -> bool -> coq_Z list -> coq_Z * bool **)

let rec sum_loop acc any = function
| [] -> (acc, any)
| x :: r ->
  sum_loop (wrap64 (Z.add acc x)) ((||) any (negb (in_i64 (Z.add acc x)))) r

(** val sum_partition : coq_Z list -> coq_Z option **)

let sum_partition xs =
  let (s, o) = sum_loop Z0 false xs in if o then None else Some s

(** val i64_null : coq_Z **)

let i64_null =
  i64_max

type agg_kind =
| AggSum
| AggCount
| AggMax
| AggMin

type comb_res =
| CbOk of coq_Z
| CbOverflow
| CbPanic

(** val combine_i64 : agg_kind -> coq_Z -> coq_Z -> comb_res **)

let combine_i64 k a b =
  if Z.eqb a i64_null
  then CbOk b
  else if Z.eqb b i64_null
       then CbOk a
       else (match k with
             | AggSum ->
               if in_i64 (Z.add a b) then CbOk (Z.add a b) else CbOverflow
             | AggCount ->
               if in_i64 (Z.add a b) then CbOk (Z.add a b) else CbPanic
             | AggMax -> CbOk (Z.max a b)
             | AggMin -> CbOk (Z.min a b))

type mtree =
| MLeaf of coq_Z list
| MNode of mtree * mtree

(** val sum_tree : mtree -> coq_Z option **)

let rec sum_tree = function
| MLeaf xs -> sum_partition xs
| MNode (l, r) ->
  (match sum_tree l with
   | Some a ->
     (match sum_tree r with
      | Some b ->
        (match combine_i64 AggSum a b with
         | CbOk v -> Some v
         | _ -> None)
      | None -> None)
   | None -> None)
