open BinInt
open BinNat
open BinNums
open CheckedArith
open Datatypes
open QuerySpec

(** val encode_int : coq_Z -> coq_Z -> coq_Z option **)

let encode_int offset c =
  if in_i64 (Z.sub c offset) then Some (Z.sub c offset) else None

(** val encode_int_wrapping : coq_Z -> coq_Z -> coq_Z **)

let encode_int_wrapping offset c =
  wrap64 (Z.sub c offset)

(** val cmp_enc : cmp_op -> coq_Z -> coq_Z -> bool **)

let cmp_enc c e k =
  match c with
  | CEq -> Z.eqb e k
  | CNe -> negb (Z.eqb e k)
  | CLt -> Z.ltb e k
  | CLe -> Z.leb e k
  | CGt -> Z.ltb k e
  | CGe -> Z.leb k e

(** val bytes_eqb : coq_N list -> coq_N list -> bool **)

let rec bytes_eqb a b =
  match a with
  | [] -> (match b with
           | [] -> true
           | _ :: _ -> false)
  | x :: a' ->
    (match b with
     | [] -> false
     | y :: b' -> (&&) (N.eqb x y) (bytes_eqb a' b'))

(** val inverse_dict_lookup_from :
    coq_Z -> coq_N list list -> coq_N list -> coq_Z **)

let rec inverse_dict_lookup_from i dict c =
  match dict with
  | [] -> Zneg Coq_xH
  | s :: d ->
    if bytes_eqb s c
    then i
    else inverse_dict_lookup_from (Z.add i (Zpos Coq_xH)) d c

(** val inverse_dict_lookup : coq_N list list -> coq_N list -> coq_Z **)

let inverse_dict_lookup dict c =
  inverse_dict_lookup_from Z0 dict c
