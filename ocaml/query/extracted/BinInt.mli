open BinNat
open BinNums
open BinPos
open Datatypes

module Z :
 sig
  val double : coq_Z -> coq_Z

  val succ_double : coq_Z -> coq_Z

  val pred_double : coq_Z -> coq_Z

  val pos_sub : positive -> positive -> coq_Z

  val add : coq_Z -> coq_Z -> coq_Z

  val opp : coq_Z -> coq_Z

  val sub : coq_Z -> coq_Z -> coq_Z

  val mul : coq_Z -> coq_Z -> coq_Z

  val pow_pos : coq_Z -> positive -> coq_Z

  val pow : coq_Z -> coq_Z -> coq_Z

  val compare : coq_Z -> coq_Z -> comparison

  val leb : coq_Z -> coq_Z -> bool

  val ltb : coq_Z -> coq_Z -> bool

  val geb : coq_Z -> coq_Z -> bool

  val gtb : coq_Z -> coq_Z -> bool

  val eqb : coq_Z -> coq_Z -> bool

  val max : coq_Z -> coq_Z -> coq_Z

  val min : coq_Z -> coq_Z -> coq_Z

  val of_nat : nat -> coq_Z

  val of_N : coq_N -> coq_Z

  val pos_div_eucl : positive -> coq_Z -> coq_Z * coq_Z

  val div_eucl : coq_Z -> coq_Z -> coq_Z * coq_Z

  val modulo : coq_Z -> coq_Z -> coq_Z

  val quotrem : coq_Z -> coq_Z -> coq_Z * coq_Z

  val quot : coq_Z -> coq_Z -> coq_Z

  val rem : coq_Z -> coq_Z -> coq_Z
 end
