open BinNums
open BinPos
open Datatypes

module N =
 struct
  (** val succ_double : coq_N -> coq_N **)

  let succ_double = function
  | N0 -> Npos Coq_xH
  | Npos p -> Npos (Coq_xI p)

  (** val double : coq_N -> coq_N **)

  let double = function
  | N0 -> N0
  | Npos p -> Npos (Coq_xO p)

  (** val add : coq_N -> coq_N -> coq_N **)

  let add n m =
    match n with
    | N0 -> m
    | Npos p -> (match m with
                 | N0 -> n
                 | Npos q -> Npos (Pos.add p q))

  (** val sub : coq_N -> coq_N -> coq_N **)

  let sub n m =
    match n with
    | N0 -> N0
    | Npos n' ->
      (match m with
       | N0 -> n
       | Npos m' ->
         (match Pos.sub_mask n' m' with
          | Pos.IsPos p -> Npos p
          | _ -> N0))

  (** val compare : coq_N -> coq_N -> comparison **)

  let compare n m =
    match n with
    | N0 -> (match m with
             | N0 -> Eq
             | Npos _ -> Lt)
    | Npos n' -> (match m with
                  | N0 -> Gt
                  | Npos m' -> Pos.compare n' m')

  (** val eqb : coq_N -> coq_N -> bool **)

  let eqb n m =
    match n with
    | N0 -> (match m with
             | N0 -> true
             | Npos _ -> false)
    | Npos p -> (match m with
                 | N0 -> false
                 | Npos q -> Pos.eqb p q)

  (** val leb : coq_N -> coq_N -> bool **)

  let leb x y =
    match compare x y with
    | Gt -> false
    | _ -> true

  (** val ltb : coq_N -> coq_N -> bool **)

  let ltb x y =
    match compare x y with
    | Lt -> true
    | _ -> false

  (** val min : coq_N -> coq_N -> coq_N **)

  let min n n' =
    match compare n n' with
    | Gt -> n'
    | _ -> n

  (** val div2 : coq_N -> coq_N **)

  let div2 = function
  | N0 -> N0
  | Npos p0 ->
    (match p0 with
     | Coq_xI p -> Npos p
     | Coq_xO p -> Npos p
     | Coq_xH -> N0)

  (** val pos_div_eucl : positive -> coq_N -> coq_N * coq_N **)

  let rec pos_div_eucl a b =
    match a with
    | Coq_xI a' ->
      let (q, r) = pos_div_eucl a' b in
      let r' = succ_double r in
      if leb b r' then ((succ_double q), (sub r' b)) else ((double q), r')
    | Coq_xO a' ->
      let (q, r) = pos_div_eucl a' b in
      let r' = double r in
      if leb b r' then ((succ_double q), (sub r' b)) else ((double q), r')
    | Coq_xH ->
      (match b with
       | N0 -> (N0, (Npos Coq_xH))
       | Npos p ->
         (match p with
          | Coq_xH -> ((Npos Coq_xH), N0)
          | _ -> (N0, (Npos Coq_xH))))

  (** val coq_land : coq_N -> coq_N -> coq_N **)

  let coq_land n m =
    match n with
    | N0 -> N0
    | Npos p -> (match m with
                 | N0 -> N0
                 | Npos q -> Pos.coq_land p q)

  (** val shiftr : coq_N -> coq_N -> coq_N **)

  let shiftr a = function
  | N0 -> a
  | Npos p -> Pos.iter div2 a p

  (** val to_nat : coq_N -> nat **)

  let to_nat = function
  | N0 -> O
  | Npos p -> Pos.to_nat p

  (** val of_nat : nat -> coq_N **)

  let of_nat = function
  | O -> N0
  | S n' -> Npos (Pos.of_succ_nat n')
 end
