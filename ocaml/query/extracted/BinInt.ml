open BinNat
open BinNums
open BinPos
open Datatypes

module Z =
 struct
  (** val double : coq_Z -> coq_Z **)

  let double = function
  | Z0 -> Z0
  | Zpos p -> Zpos (Coq_xO p)
  | Zneg p -> Zneg (Coq_xO p)

  (** val succ_double : coq_Z -> coq_Z **)

  let succ_double = function
  | Z0 -> Zpos Coq_xH
  | Zpos p -> Zpos (Coq_xI p)
  | Zneg p -> Zneg (Pos.pred_double p)

  (** val pred_double : coq_Z -> coq_Z **)

  let pred_double = function
  | Z0 -> Zneg Coq_xH
  | Zpos p -> Zpos (Pos.pred_double p)
  | Zneg p -> Zneg (Coq_xI p)

  (** val pos_sub : positive -> positive -> coq_Z **)

  let rec pos_sub x y =
    match x with
    | Coq_xI p ->
      (match y with
       | Coq_xI q -> double (pos_sub p q)
       | Coq_xO q -> succ_double (pos_sub p q)
       | Coq_xH -> Zpos (Coq_xO p))
    | Coq_xO p ->
      (match y with
       | Coq_xI q -> pred_double (pos_sub p q)
       | Coq_xO q -> double (pos_sub p q)
       | Coq_xH -> Zpos (Pos.pred_double p))
    | Coq_xH ->
      (match y with
       | Coq_xI q -> Zneg (Coq_xO q)
       | Coq_xO q -> Zneg (Pos.pred_double q)
       | Coq_xH -> Z0)

  (** val add : coq_Z -> coq_Z -> coq_Z **)

  let add x y =
    match x with
    | Z0 -> y
    | Zpos x' ->
      (match y with
       | Z0 -> x
       | Zpos y' -> Zpos (Pos.add x' y')
       | Zneg y' -> pos_sub x' y')
    | Zneg x' ->
      (match y with
       | Z0 -> x
       | Zpos y' -> pos_sub y' x'
       | Zneg y' -> Zneg (Pos.add x' y'))

  (** val opp : coq_Z -> coq_Z **)

  let opp = function
  | Z0 -> Z0
  | Zpos x0 -> Zneg x0
  | Zneg x0 -> Zpos x0

  (** val sub : coq_Z -> coq_Z -> coq_Z **)

  let sub m n =
    add m (opp n)

  (** val mul : coq_Z -> coq_Z -> coq_Z **)

  let mul x y =
    match x with
    | Z0 -> Z0
    | Zpos x' ->
      (match y with
       | Z0 -> Z0
       | Zpos y' -> Zpos (Pos.mul x' y')
       | Zneg y' -> Zneg (Pos.mul x' y'))
    | Zneg x' ->
      (match y with
       | Z0 -> Z0
       | Zpos y' -> Zneg (Pos.mul x' y')
       | Zneg y' -> Zpos (Pos.mul x' y'))

  (** val pow_pos : coq_Z -> positive -> coq_Z **)

  let pow_pos z =
    Pos.iter (mul z) (Zpos Coq_xH)

  (** val pow : coq_Z -> coq_Z -> coq_Z **)

  let pow x = function
  | Z0 -> Zpos Coq_xH
  | Zpos p -> pow_pos x p
  | Zneg _ -> Z0

  (** val compare : coq_Z -> coq_Z -> comparison **)

  let compare x y =
    match x with
    | Z0 -> (match y with
             | Z0 -> Eq
             | Zpos _ -> Lt
             | Zneg _ -> Gt)
    | Zpos x' -> (match y with
                  | Zpos y' -> Pos.compare x' y'
                  | _ -> Gt)
    | Zneg x' ->
      (match y with
       | Zneg y' -> coq_CompOpp (Pos.compare x' y')
       | _ -> Lt)

  (** val leb : coq_Z -> coq_Z -> bool **)

  let leb x y =
    match compare x y with
    | Gt -> false
    | _ -> true

  (** val ltb : coq_Z -> coq_Z -> bool **)

  let ltb x y =
    match compare x y with
    | Lt -> true
    | _ -> false

  (** val geb : coq_Z -> coq_Z -> bool **)

  let geb x y =
    match compare x y with
    | Lt -> false
    | _ -> true

  (** val gtb : coq_Z -> coq_Z -> bool **)

  let gtb x y =
    match compare x y with
    | Gt -> true
    | _ -> false

  (** val eqb : coq_Z -> coq_Z -> bool **)

  let eqb x y =
    match x with
    | Z0 -> (match y with
             | Z0 -> true
             | _ -> false)
    | Zpos p -> (match y with
                 | Zpos q -> Pos.eqb p q
                 | _ -> false)
    | Zneg p -> (match y with
                 | Zneg q -> Pos.eqb p q
                 | _ -> false)

  (** val max : coq_Z -> coq_Z -> coq_Z **)

  let max n m =
    match compare n m with
    | Lt -> m
    | _ -> n

  (** val min : coq_Z -> coq_Z -> coq_Z **)

  let min n m =
    match compare n m with
    | Gt -> m
    | _ -> n

  (** val of_nat : nat -> coq_Z **)

  let of_nat = function
  | O -> Z0
  | S n0 -> Zpos (Pos.of_succ_nat n0)

  (** val of_N : coq_N -> coq_Z **)

  let of_N = function
  | N0 -> Z0
  | Npos p -> Zpos p

  (** val pos_div_eucl : positive -> coq_Z -> coq_Z * coq_Z **)

  let rec pos_div_eucl a b =
    match a with
    | Coq_xI a' ->
      let (q, r) = pos_div_eucl a' b in
      let r' = add (mul (Zpos (Coq_xO Coq_xH)) r) (Zpos Coq_xH) in
      if ltb r' b
      then ((mul (Zpos (Coq_xO Coq_xH)) q), r')
      else ((add (mul (Zpos (Coq_xO Coq_xH)) q) (Zpos Coq_xH)), (sub r' b))
    | Coq_xO a' ->
      let (q, r) = pos_div_eucl a' b in
      let r' = mul (Zpos (Coq_xO Coq_xH)) r in
      if ltb r' b
      then ((mul (Zpos (Coq_xO Coq_xH)) q), r')
      else ((add (mul (Zpos (Coq_xO Coq_xH)) q) (Zpos Coq_xH)), (sub r' b))
    | Coq_xH ->
      if leb (Zpos (Coq_xO Coq_xH)) b
      then (Z0, (Zpos Coq_xH))
      else ((Zpos Coq_xH), Z0)

  (** val div_eucl : coq_Z -> coq_Z -> coq_Z * coq_Z **)

  let div_eucl a b =
    match a with
    | Z0 -> (Z0, Z0)
    | Zpos a' ->
      (match b with
       | Z0 -> (Z0, a)
       | Zpos _ -> pos_div_eucl a' b
       | Zneg b' ->
         let (q, r) = pos_div_eucl a' (Zpos b') in
         (match r with
          | Z0 -> ((opp q), Z0)
          | _ -> ((opp (add q (Zpos Coq_xH))), (add b r))))
    | Zneg a' ->
      (match b with
       | Z0 -> (Z0, a)
       | Zpos _ ->
         let (q, r) = pos_div_eucl a' b in
         (match r with
          | Z0 -> ((opp q), Z0)
          | _ -> ((opp (add q (Zpos Coq_xH))), (sub b r)))
       | Zneg b' -> let (q, r) = pos_div_eucl a' (Zpos b') in (q, (opp r)))

  (** val modulo : coq_Z -> coq_Z -> coq_Z **)

  let modulo a b =
    let (_, r) = div_eucl a b in r

  (** val quotrem : coq_Z -> coq_Z -> coq_Z * coq_Z **)

  let quotrem a b =
    match a with
    | Z0 -> (Z0, Z0)
    | Zpos a0 ->
      (match b with
       | Z0 -> (Z0, a)
       | Zpos b0 ->
         let (q, r) = N.pos_div_eucl a0 (Npos b0) in ((of_N q), (of_N r))
       | Zneg b0 ->
         let (q, r) = N.pos_div_eucl a0 (Npos b0) in
         ((opp (of_N q)), (of_N r)))
    | Zneg a0 ->
      (match b with
       | Z0 -> (Z0, a)
       | Zpos b0 ->
         let (q, r) = N.pos_div_eucl a0 (Npos b0) in
         ((opp (of_N q)), (opp (of_N r)))
       | Zneg b0 ->
         let (q, r) = N.pos_div_eucl a0 (Npos b0) in
         ((of_N q), (opp (of_N r))))

  (** val quot : coq_Z -> coq_Z -> coq_Z **)

  let quot a b =
    fst (quotrem a b)

  (** val rem : coq_Z -> coq_Z -> coq_Z **)

  let rem a b =
    snd (quotrem a b)
 end
