open Datatypes

module Nat :
 sig
  val eqb : nat -> nat -> bool

  val leb : nat -> nat -> bool

  val min : nat -> nat -> nat
 end
