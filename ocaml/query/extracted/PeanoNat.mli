open Datatypes

module Nat :
 sig
  val eqb : nat -> nat -> bool

  val leb : nat -> nat -> bool

  val ltb : nat -> nat -> bool

  val max : nat -> nat -> nat

  val min : nat -> nat -> nat
 end
