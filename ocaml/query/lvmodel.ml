(* lvmodel (query cluster): evaluates the extracted Coq models on harness cases.
   stdin : one case per line   <entry> TAB <input sexp>
   stdout: one line per case   <output sexp>        (or "!ERR <msg>") *)
open Sx
open Conv

let bad what = raise (Conv ("bad " ^ what))

(* ---- C06: checked arithmetic ---------------------------------------------------------------- *)
let to_op (x : Sx.t) : CheckedArith.arith_op =
  match atom x with
  | "add" -> CheckedArith.OpAdd | "sub" -> CheckedArith.OpSub | "mul" -> CheckedArith.OpMul
  | "div" -> CheckedArith.OpDiv | "mod" -> CheckedArith.OpMod
  | _ -> bad "op"

let of_checked_res (r : CheckedArith.checked_res) : Sx.t =
  match r with
  | CheckedArith.RVal (v, o) -> L [A "val"; of_z v; of_bool o]
  | CheckedArith.RPanic -> A "panic"

let of_vec_res (r : CheckedArith.vec_res) : Sx.t =
  match r with
  | CheckedArith.VOk vs -> L [A "ok"; of_list of_z vs]
  | CheckedArith.VOverflow -> A "overflow"
  | CheckedArith.VPanic -> A "panic"

let to_pair (x : Sx.t) = match x with L [a; b] -> (to_z a, to_z b) | _ -> bad "pair"

let to_agg (x : Sx.t) : CheckedArith.agg_kind =
  match atom x with
  | "sum" -> CheckedArith.AggSum | "count" -> CheckedArith.AggCount
  | "max" -> CheckedArith.AggMax | "min" -> CheckedArith.AggMin
  | _ -> bad "agg"

let of_comb_res (r : CheckedArith.comb_res) : Sx.t =
  match r with
  | CheckedArith.CbOk v -> L [A "ok"; of_z v]
  | CheckedArith.CbOverflow -> A "overflow"
  | CheckedArith.CbPanic -> A "panic"

let rec to_mtree (x : Sx.t) : CheckedArith.mtree =
  match x with
  | L [A "leaf"; xs] -> CheckedArith.MLeaf (to_list to_z xs)
  | L [A "node"; l; r] -> CheckedArith.MNode (to_mtree l, to_mtree r)
  | _ -> bad "mtree"

let rec to_aexpr (x : Sx.t) : CheckedArith.aexpr =
  match x with
  | L [A "col"; i] -> CheckedArith.ACol (nat_of_int (to_int i))
  | L [A "const"; z] -> CheckedArith.AConst (to_z z)
  | L [A "bin"; op; l; r] -> CheckedArith.ABin (to_op op, to_aexpr l, to_aexpr r)
  | _ -> bad "aexpr"

(* whole-column evaluation of an expression: the query fails if any row overflows *)
let eval_column (rows : BinNums.coq_Z option list list) (e : CheckedArith.aexpr) : Sx.t =
  let res = List.map (fun row -> CheckedArith.eval_aexpr row e) rows in
  if List.exists (fun r -> r = CheckedArith.CPanic) res then A "panic"
  else if List.exists (fun r -> r = CheckedArith.COverflow) res then L [A "err"; A "overflow"]
  else
    L [A "ok";
       L (List.map (function CheckedArith.COk v -> of_opt of_z v | _ -> A "?") res)]

(* ---- QuerySpec ------------------------------------------------------------------------------- *)
let to_val (x : Sx.t) : QuerySpec.coq_val =
  match x with
  | A "null" -> QuerySpec.VNull
  | L [A "i"; z] -> QuerySpec.VInt (to_z z)
  | L [A "f"; b] -> QuerySpec.VFloat (to_n b)
  | L [A "s"; s] -> QuerySpec.VStr (to_bytes s)
  | L [A "b"; b] -> QuerySpec.VBool (to_bool b)
  | _ -> bad "val"

let of_val (v : QuerySpec.coq_val) : Sx.t =
  match v with
  | QuerySpec.VNull -> A "null"
  | QuerySpec.VInt z -> L [A "i"; of_z z]
  | QuerySpec.VFloat b -> L [A "f"; of_n b]
  | QuerySpec.VStr s -> L [A "s"; of_bytes s]
  | QuerySpec.VBool b -> L [A "b"; of_bool b]
  | QuerySpec.VAnyFloat -> A "anyfloat"

let to_cmp (x : Sx.t) : QuerySpec.cmp_op =
  match atom x with
  | "eq" -> QuerySpec.CEq | "ne" -> QuerySpec.CNe | "lt" -> QuerySpec.CLt
  | "le" -> QuerySpec.CLe | "gt" -> QuerySpec.CGt | "ge" -> QuerySpec.CGe
  | _ -> bad "cmp"

let rec to_expr (x : Sx.t) : QuerySpec.expr =
  match x with
  | L [A "col"; i] -> QuerySpec.ECol (nat_of_int (to_int i))
  | L [A "const"; v] -> QuerySpec.EConst (to_val v)
  | L [A "arith"; op; l; r] -> QuerySpec.EArith (to_op op, to_expr l, to_expr r)
  | L [A "cmp"; c; l; r] -> QuerySpec.ECmp (to_cmp c, to_expr l, to_expr r)
  | L [A "and"; l; r] -> QuerySpec.EAnd (to_expr l, to_expr r)
  | L [A "or"; l; r] -> QuerySpec.EOr (to_expr l, to_expr r)
  | L [A "not"; e] -> QuerySpec.ENot (to_expr e)
  | L [A "isnull"; e] -> QuerySpec.EIsNull (to_expr e)
  | L [A "isnotnull"; e] -> QuerySpec.EIsNotNull (to_expr e)
  | L [A "like"; e; p] -> QuerySpec.ELike (to_expr e, to_bytes p)
  | _ -> bad "expr"

let to_aggk (x : Sx.t) : QuerySpec.agg =
  match atom x with
  | "count" -> QuerySpec.ACount | "sum" -> QuerySpec.ASum
  | "min" -> QuerySpec.AMin | "max" -> QuerySpec.AMax
  | _ -> bad "aggk"

let to_sel (x : Sx.t) : QuerySpec.sel =
  match x with
  | L [A "plain"; e] -> QuerySpec.SPlain (to_expr e)
  | L [A "agg"; k; e] -> QuerySpec.SAgg (to_aggk k, to_expr e)
  | L [A "avg"; e] -> QuerySpec.SAvg (to_expr e)
  | _ -> bad "sel"

let to_okey (x : Sx.t) =
  match x with
  | L [L [A "expr"; e]; d] -> (QuerySpec.OExpr (to_expr e), to_bool d)
  | L [L [A "out"; i]; d] -> (QuerySpec.OOut (nat_of_int (to_int i)), to_bool d)
  | _ -> bad "okey"

let to_query (x : Sx.t) : QuerySpec.query =
  match x with
  | L [A "query"; L (A "select" :: sels); L [A "where"; w]; L [A "order"; ord]; L [A "limit"; lim]; L [A "offset"; off]] ->
      { QuerySpec.q_select = List.map to_sel sels;
        q_where = to_opt to_expr w;
        q_order = to_list to_okey ord;
        q_limit = to_opt to_n lim;
        q_offset = to_n off }
  | _ -> bad "query"

let to_rows (x : Sx.t) = to_list (to_list to_val) x

let to_output (x : Sx.t) : QuerySpec.output =
  match x with
  | L [A "rows"; rows] -> QuerySpec.ORows (to_rows rows)
  | L [A "err"; A "overflow"] -> QuerySpec.OOverflow
  | _ -> QuerySpec.OOther

let of_output (o : QuerySpec.output) : Sx.t =
  match o with
  | QuerySpec.ORows rows -> L [A "rows"; of_list (of_list of_val) rows]
  | QuerySpec.OOverflow -> L [A "err"; A "overflow"]
  | QuerySpec.OOther -> A "other"

let run (entry : string) (inp : Sx.t) : Sx.t =
  match entry, inp with
  | "perform_checked", L [op; a; b] ->
      of_checked_res (CheckedArith.perform_checked (to_op op) (to_z a) (to_z b))
  | "checked_loop", L [op; pairs; present] ->
      of_vec_res
        (CheckedArith.checked_loop (to_op op) (to_list to_pair pairs)
           (to_opt (to_list to_bool) present) [] false)
  | "combine_i64", L [k; a; b] ->
      of_comb_res (CheckedArith.combine_i64 (to_agg k) (to_z a) (to_z b))
  | "sum_partition", xs -> of_opt of_z (CheckedArith.sum_partition (to_list to_z xs))
  | "sum_tree", t -> of_opt of_z (CheckedArith.sum_tree (to_mtree t))
  | "aexpr_column", L [rows; e] ->
      eval_column (to_list (to_list (to_opt to_z)) rows) (to_aexpr e)
  | "q_valid", L [rows; q; out] ->
      of_bool (QuerySpec.valid (to_query q) (to_rows rows) (to_output out))
  | "q_eval", L [rows; q] -> of_output (QuerySpec.eval_query (to_query q) (to_rows rows))
  | _ -> raise (Conv ("unknown entry or bad input shape: " ^ entry))

let () = Loop.main run
