(* lvmodel (query cluster): evaluates the extracted Coq models on harness cases.
   stdin : one case per line   <entry> TAB <input sexp>
   stdout: one line per case   <output sexp>        (or "!ERR <msg>") *)
open Sx
open Conv

let bad what = raise (Conv ("bad " ^ what))

(* ---- C06: checked arithmetic ---------------------------------------------------------------- *)
let to_op (x : Sx.t) : CheckedArith.arith_op =
  match atom x with
  | "add" -> CheckedArith.OpAdd | "sub" -> CheckedArith.OpSub | "mul" -> CheckedArith.OpMul
  | "div" -> CheckedArith.OpDiv | "mod" -> CheckedArith.OpMod
  | _ -> bad "op"

let of_checked_res (r : CheckedArith.checked_res) : Sx.t =
  match r with
  | CheckedArith.RVal (v, o) -> L [A "val"; of_z v; of_bool o]

let of_vec_res (r : CheckedArith.vec_res) : Sx.t =
  match r with
  | CheckedArith.VOk vs -> L [A "ok"; of_list of_z vs]
  | CheckedArith.VOverflow -> A "overflow"

let to_pair (x : Sx.t) = match x with L [a; b] -> (to_z a, to_z b) | _ -> bad "pair"

let to_agg (x : Sx.t) : CheckedArith.agg_kind =
  match atom x with
  | "sum" -> CheckedArith.AggSum | "count" -> CheckedArith.AggCount
  | "max" -> CheckedArith.AggMax | "min" -> CheckedArith.AggMin
  | _ -> bad "agg"

let of_comb_res (r : CheckedArith.comb_res) : Sx.t =
  match r with
  | CheckedArith.CbOk v -> L [A "ok"; of_z v]
  | CheckedArith.CbOverflow -> A "overflow"
  | CheckedArith.CbPanic -> A "panic"

let rec to_mtree (x : Sx.t) : CheckedArith.mtree =
  match x with
  | L [A "leaf"; xs] -> CheckedArith.MLeaf (to_list to_z xs)
  | L [A "node"; l; r] -> CheckedArith.MNode (to_mtree l, to_mtree r)
  | _ -> bad "mtree"

let rec to_aexpr (x : Sx.t) : CheckedArith.aexpr =
  match x with
  | L [A "col"; i] -> CheckedArith.ACol (nat_of_int (to_int i))
  | L [A "const"; z] -> CheckedArith.AConst (to_z z)
  | L [A "bin"; op; l; r] -> CheckedArith.ABin (to_op op, to_aexpr l, to_aexpr r)
  | _ -> bad "aexpr"

(* whole-column evaluation of an expression: the query fails if any row overflows *)
let eval_column (rows : BinNums.coq_Z option list list) (e : CheckedArith.aexpr) : Sx.t =
  let res = List.map (fun row -> CheckedArith.eval_aexpr row e) rows in
  if List.exists (fun r -> r = CheckedArith.COverflow) res then L [A "err"; A "overflow"]
  else
    L [A "ok";
       L (List.map (function CheckedArith.COk v -> of_opt of_z v | _ -> A "?") res)]

(* ---- QuerySpec ------------------------------------------------------------------------------- *)
let to_val (x : Sx.t) : QuerySpec.coq_val =
  match x with
  | A "null" -> QuerySpec.VNull
  | L [A "i"; z] -> QuerySpec.VInt (to_z z)
  | L [A "f"; b] -> QuerySpec.VFloat (to_n b)
  | L [A "s"; s] -> QuerySpec.VStr (to_bytes s)
  | L [A "b"; b] -> QuerySpec.VBool (to_bool b)
  | _ -> bad "val"

let of_val (v : QuerySpec.coq_val) : Sx.t =
  match v with
  | QuerySpec.VNull -> A "null"
  | QuerySpec.VInt z -> L [A "i"; of_z z]
  | QuerySpec.VFloat b -> L [A "f"; of_n b]
  | QuerySpec.VStr s -> L [A "s"; of_bytes s]
  | QuerySpec.VBool b -> L [A "b"; of_bool b]
  | QuerySpec.VAnyFloat -> A "anyfloat"

let to_cmp (x : Sx.t) : QuerySpec.cmp_op =
  match atom x with
  | "eq" -> QuerySpec.CEq | "ne" -> QuerySpec.CNe | "lt" -> QuerySpec.CLt
  | "le" -> QuerySpec.CLe | "gt" -> QuerySpec.CGt | "ge" -> QuerySpec.CGe
  | _ -> bad "cmp"

let rec to_expr (x : Sx.t) : QuerySpec.expr =
  match x with
  | L [A "col"; i] -> QuerySpec.ECol (nat_of_int (to_int i))
  | L [A "const"; v] -> QuerySpec.EConst (to_val v)
  | L [A "arith"; op; l; r] -> QuerySpec.EArith (to_op op, to_expr l, to_expr r)
  | L [A "cmp"; c; l; r] -> QuerySpec.ECmp (to_cmp c, to_expr l, to_expr r)
  | L [A "and"; l; r] -> QuerySpec.EAnd (to_expr l, to_expr r)
  | L [A "or"; l; r] -> QuerySpec.EOr (to_expr l, to_expr r)
  | L [A "not"; e] -> QuerySpec.ENot (to_expr e)
  | L [A "isnull"; e] -> QuerySpec.EIsNull (to_expr e)
  | L [A "isnotnull"; e] -> QuerySpec.EIsNotNull (to_expr e)
  | L [A "like"; e; p] -> QuerySpec.ELike (to_expr e, to_bytes p)
  | _ -> bad "expr"

let to_aggk (x : Sx.t) : QuerySpec.agg =
  match atom x with
  | "count" -> QuerySpec.ACount | "sum" -> QuerySpec.ASum
  | "min" -> QuerySpec.AMin | "max" -> QuerySpec.AMax
  | _ -> bad "aggk"

let to_sel (x : Sx.t) : QuerySpec.sel =
  match x with
  | L [A "plain"; e] -> QuerySpec.SPlain (to_expr e)
  | L [A "agg"; k; e] -> QuerySpec.SAgg (to_aggk k, to_expr e)
  | L [A "avg"; e] -> QuerySpec.SAvg (to_expr e)
  | _ -> bad "sel"

let to_okey (x : Sx.t) =
  match x with
  | L [L [A "expr"; e]; d] -> (QuerySpec.OExpr (to_expr e), to_bool d)
  | L [L [A "out"; i]; d] -> (QuerySpec.OOut (nat_of_int (to_int i)), to_bool d)
  | _ -> bad "okey"

let to_query (x : Sx.t) : QuerySpec.query =
  match x with
  | L [A "query"; L (A "select" :: sels); L [A "where"; w]; L [A "order"; ord]; L [A "limit"; lim]; L [A "offset"; off]] ->
      { QuerySpec.q_select = List.map to_sel sels;
        q_where = to_opt to_expr w;
        q_order = to_list to_okey ord;
        q_limit = to_opt to_n lim;
        q_offset = to_n off }
  | _ -> bad "query"

let to_rows (x : Sx.t) = to_list (to_list to_val) x

let to_output (x : Sx.t) : QuerySpec.output =
  match x with
  | L [A "rows"; rows] -> QuerySpec.ORows (to_rows rows)
  | L [A "err"; A "overflow"] -> QuerySpec.OOverflow
  | _ -> QuerySpec.OOther

let of_output (o : QuerySpec.output) : Sx.t =
  match o with
  | QuerySpec.ORows rows -> L [A "rows"; of_list (of_list of_val) rows]
  | QuerySpec.OOverflow -> L [A "err"; A "overflow"]
  | QuerySpec.OOther -> A "other"

(* ---- merge kernels (C04 / C05) ---------------------------------------------------------------- *)
(* comparator: "lt" = CmpLessThan (ascending), "gt" = CmpGreaterThan (descending) on i64 keys *)
let cmp_eq_of (x : Sx.t) = match atom x with
  | "lt" -> BinInt.Z.leb | "gt" -> BinInt.Z.geb | _ -> bad "comparator"
let cmp_of (x : Sx.t) = match atom x with
  | "lt" -> BinInt.Z.ltb | "gt" -> BinInt.Z.gtb | _ -> bad "comparator"

let of_ops (ops : bool list) : Sx.t = L (List.map (fun b -> A (if b then "1" else "0")) ops)
let to_ops (x : Sx.t) : bool list = List.map (fun a -> atom a = "1") (lst x)

let of_mop (o : MergeKernels.mop) : Sx.t =
  A (match o with MergeKernels.TakeLeft -> "tl" | MergeKernels.TakeRight -> "tr" | MergeKernels.MergeRight -> "mr")
let to_mop (x : Sx.t) : MergeKernels.mop =
  match atom x with
  | "tl" -> MergeKernels.TakeLeft | "tr" -> MergeKernels.TakeRight | "mr" -> MergeKernels.MergeRight
  | _ -> bad "mop"

let of_nat (n : Datatypes.nat) : Sx.t = of_int (int_of_nat n)
let to_nat (x : Sx.t) : Datatypes.nat = nat_of_int (to_int x)
let of_groups (gs : (Datatypes.nat * Datatypes.nat) list) : Sx.t =
  L (List.map (fun (a, b) -> L [of_nat a; of_nat b]) gs)
let to_groups (x : Sx.t) : (Datatypes.nat * Datatypes.nat) list =
  List.map (function L [a; b] -> (to_nat a, to_nat b) | _ -> bad "group") (lst x)

let of_agg_res (r : MergeKernels.agg_res) : Sx.t =
  match r with
  | MergeKernels.AOk vs -> L [A "ok"; of_list of_z vs]
  | MergeKernels.AOverflow -> A "overflow"
  | MergeKernels.APanic -> A "panic"

let to_cmpop = to_cmp

let run (entry : string) (inp : Sx.t) : Sx.t =
  match entry, inp with
  | "perform_checked", L [op; a; b] ->
      of_checked_res (CheckedArith.perform_checked (to_op op) (to_z a) (to_z b))
  | "checked_loop", L [op; pairs; present] ->
      of_vec_res
        (CheckedArith.checked_loop (to_op op) (to_list to_pair pairs)
           (to_opt (to_list to_bool) present) [] false)
  | "combine_i64", L [k; a; b] ->
      of_comb_res (CheckedArith.combine_i64 (to_agg k) (to_z a) (to_z b))
  | "sum_partition", xs -> of_opt of_z (CheckedArith.sum_partition (to_list to_z xs))
  | "sum_tree", t -> of_opt of_z (CheckedArith.sum_tree (to_mtree t))
  | "aexpr_column", L [rows; e] ->
      eval_column (to_list (to_list (to_opt to_z)) rows) (to_aexpr e)
  | "merge", L [c; l; r; limit] ->
      let (m, ops) = SortKernels.merge (cmp_eq_of c) (to_list to_z l) (to_list to_z r) (to_n limit) in
      L [of_list of_z m; of_ops ops]
  | "merge_keep", L [ops; l; r] ->
      of_opt (of_list of_z) (SortKernels.merge_keep (to_ops ops) (to_list to_z l) (to_list to_z r))
  | "merge_keep_nullable", L [ops; l; r; lp; rp] ->
      of_opt (fun (m, p) -> L [of_list of_z m; of_list of_bool p])
        (SortKernels.merge_keep_nullable (to_ops ops) (to_list to_z l) (to_list to_z r)
           (to_list to_bool lp) (to_list to_bool rp))
  | "partition", L [c; l; r; limit] ->
      of_groups (SortKernels.partition (cmp_eq_of c) BinInt.Z.eqb (to_list to_z l) (to_list to_z r) (to_n limit))
  | "subpartition", L [c; groups; l; r] ->
      of_groups (SortKernels.subpartition (cmp_eq_of c) BinInt.Z.eqb (to_groups groups) (to_list to_z l) (to_list to_z r))
  | "merge_partitioned", L [c; groups; l; r; limit] ->
      let (m, ops) = SortKernels.merge_partitioned (cmp_eq_of c) (to_groups groups) (to_list to_z l) (to_list to_z r) (to_n limit) in
      L [of_list of_z m; of_ops ops]
  | "heap_replace", L [c; keys; values; key; value] ->
      let ks = to_list to_z keys in
      let (k', v') = SortKernels.heap_replace (cmp_of c) (nat_of_int (List.length ks)) ks
          (List.map to_nat (lst values)) (to_z key) (to_nat value) Datatypes.O in
      L [of_list of_z k'; L (List.map of_nat v')]
  | "append_limit", L [limit; l; r] ->
      of_list of_z (SortKernels.append_limit (to_n limit) (to_list to_z l) (to_list to_z r))
  | "final_slice", L [limit; offset; rows] ->
      of_list of_z (SortKernels.final_slice (to_n limit) (to_n offset) (to_list to_z rows))
  | "merge_deduplicate", L [c; l; r] ->
      let (ks, ops) = MergeKernels.merge_deduplicate (cmp_eq_of c) BinInt.Z.eqb (to_list to_z l) (to_list to_z r) in
      L [of_list of_z ks; of_list of_mop ops]
  | "merge_deduplicate_partitioned", L [c; groups; l; r] ->
      let (ks, ops) = MergeKernels.merge_deduplicate_partitioned (cmp_eq_of c) BinInt.Z.eqb (to_groups groups) (to_list to_z l) (to_list to_z r) in
      L [of_list of_z ks; of_list of_mop ops]
  | "merge_drop", L [ops; l; r] ->
      of_opt (of_list of_z) (MergeKernels.merge_drop (to_list to_mop ops) (to_list to_z l) (to_list to_z r))
  | "merge_aggregate", L [k; ops; l; r] ->
      of_agg_res (MergeKernels.merge_aggregate (to_agg k) (to_list to_mop ops) (to_list to_z l) (to_list to_z r))
  | "encoded_cmp", L [c; offset; v; k] ->
      (* comparison of the stored value with the translated constant: (some bool) or none = the
         translation overflows *)
      (match EncodedCmp.encode_int (to_z offset) (to_z k) with
       | None -> A "none"
       | Some e -> L [A "some"; of_bool (EncodedCmp.cmp_enc (to_cmpop c) (BinInt.Z.sub (to_z v) (to_z offset)) e)])
  | "encoded_cmp_wrapping", L [c; offset; v; k] ->
      L [A "some"; of_bool (EncodedCmp.cmp_enc (to_cmpop c) (BinInt.Z.sub (to_z v) (to_z offset))
                             (EncodedCmp.encode_int_wrapping (to_z offset) (to_z k)))]
  | "inverse_dict_lookup", L [dict; c] ->
      of_z (EncodedCmp.inverse_dict_lookup (to_list to_bytes dict) (to_bytes c))
  | "q_valid", L [rows; q; out] ->
      of_bool (QuerySpec.valid (to_query q) (to_rows rows) (to_output out))
  | "q_eval", L [rows; q] -> of_output (QuerySpec.eval_query (to_query q) (to_rows rows))
  | _ -> raise (Conv ("unknown entry or bad input shape: " ^ entry))

let () = Loop.main run
