(* lvmodel (query cluster): evaluates the extracted Coq models on harness cases.
   stdin : one case per line   <entry> TAB <input sexp>
   stdout: one line per case   <output sexp>        (or "!ERR <msg>") *)
open Sx
open Conv

let bad what = raise (Conv ("bad " ^ what))

(* ---- C06: checked arithmetic ---------------------------------------------------------------- *)
let to_op (x : Sx.t) : CheckedArith.arith_op =
  match atom x with
  | "add" -> CheckedArith.OpAdd | "sub" -> CheckedArith.OpSub | "mul" -> CheckedArith.OpMul
  | "div" -> CheckedArith.OpDiv | "mod" -> CheckedArith.OpMod
  | _ -> bad "op"

let of_checked_res (r : CheckedArith.checked_res) : Sx.t =
  match r with
  | CheckedArith.RVal (v, o) -> L [A "val"; of_z v; of_bool o]
  | CheckedArith.RPanic -> A "panic"

let of_vec_res (r : CheckedArith.vec_res) : Sx.t =
  match r with
  | CheckedArith.VOk vs -> L [A "ok"; of_list of_z vs]
  | CheckedArith.VOverflow -> A "overflow"
  | CheckedArith.VPanic -> A "panic"

let to_pair (x : Sx.t) = match x with L [a; b] -> (to_z a, to_z b) | _ -> bad "pair"

let to_agg (x : Sx.t) : CheckedArith.agg_kind =
  match atom x with
  | "sum" -> CheckedArith.AggSum | "count" -> CheckedArith.AggCount
  | "max" -> CheckedArith.AggMax | "min" -> CheckedArith.AggMin
  | _ -> bad "agg"

let of_comb_res (r : CheckedArith.comb_res) : Sx.t =
  match r with
  | CheckedArith.CbOk v -> L [A "ok"; of_z v]
  | CheckedArith.CbOverflow -> A "overflow"
  | CheckedArith.CbPanic -> A "panic"

let rec to_mtree (x : Sx.t) : CheckedArith.mtree =
  match x with
  | L [A "leaf"; xs] -> CheckedArith.MLeaf (to_list to_z xs)
  | L [A "node"; l; r] -> CheckedArith.MNode (to_mtree l, to_mtree r)
  | _ -> bad "mtree"

let rec to_aexpr (x : Sx.t) : CheckedArith.aexpr =
  match x with
  | L [A "col"; i] -> CheckedArith.ACol (nat_of_int (to_int i))
  | L [A "const"; z] -> CheckedArith.AConst (to_z z)
  | L [A "bin"; op; l; r] -> CheckedArith.ABin (to_op op, to_aexpr l, to_aexpr r)
  | _ -> bad "aexpr"

(* whole-column evaluation of an expression: the query fails if any row overflows *)
let eval_column (rows : BinNums.coq_Z option list list) (e : CheckedArith.aexpr) : Sx.t =
  let res = List.map (fun row -> CheckedArith.eval_aexpr row e) rows in
  if List.exists (fun r -> r = CheckedArith.CPanic) res then A "panic"
  else if List.exists (fun r -> r = CheckedArith.COverflow) res then L [A "err"; A "overflow"]
  else
    L [A "ok";
       L (List.map (function CheckedArith.COk v -> of_opt of_z v | _ -> A "?") res)]

let run (entry : string) (inp : Sx.t) : Sx.t =
  match entry, inp with
  | "perform_checked", L [op; a; b] ->
      of_checked_res (CheckedArith.perform_checked (to_op op) (to_z a) (to_z b))
  | "checked_loop", L [op; pairs; present] ->
      of_vec_res
        (CheckedArith.checked_loop (to_op op) (to_list to_pair pairs)
           (to_opt (to_list to_bool) present) [] false)
  | "combine_i64", L [k; a; b] ->
      of_comb_res (CheckedArith.combine_i64 (to_agg k) (to_z a) (to_z b))
  | "sum_partition", xs -> of_opt of_z (CheckedArith.sum_partition (to_list to_z xs))
  | "sum_tree", t -> of_opt of_z (CheckedArith.sum_tree (to_mtree t))
  | "aexpr_column", L [rows; e] ->
      eval_column (to_list (to_list (to_opt to_z)) rows) (to_aexpr e)
  | _ -> raise (Conv ("unknown entry or bad input shape: " ^ entry))

let () = Loop.main run
