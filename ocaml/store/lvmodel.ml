(* lvmodel (store cluster): evaluates the extracted persistence state-machine models on harness cases.
   stdin : one case per line   <entry> TAB <input sexp>
   stdout: one line per case   <output sexp>        (or "!ERR <msg>")

   entry store_history:
     input  ((guard B) (factor N) (max_files N) (max_bytes N)) (hop...)
       hop = (ingest BYTES (<table>...)) | (flush BG ((xT BSIZE CSIZE)...)) | (evict) | (restart)
           | (observe ((xT (xCOL...))...))
       table = (xT NROWS ((xCOL (cell...))...))      cell = n | (i Z) | (s xHEX) | (f BITS)
     output (hout...)    hout = (obs ...) | (stop ...)
   The canonical forms (sorting of catalogue listings, of tables by name, of column sets) are produced
   here and, identically, by the harness from the implementation's dump. *)
open Sx
open Conv
open TableSM
open Catalogue
open WalSM
open CrashSM

let to_name = to_bytes
let of_name = of_bytes

let to_cell (x : Sx.t) : cell =
  match x with
  | A "n" -> CNull
  | L [A "i"; z] -> CInt (to_z z)
  | L [A "s"; s] -> CStr (to_bytes s)
  | L [A "f"; b] -> CFloat (to_n b)
  | _ -> raise (Conv "cell")

let of_cell (c : cell) : Sx.t =
  match c with
  | CNull -> A "n"
  | CInt z -> L [A "i"; of_z z]
  | CStr s -> L [A "s"; of_bytes s]
  | CFloat b -> L [A "f"; of_n b]

(* column-major table of the case input -> rows *)
let to_tbatch (x : Sx.t) : tbatch =
  match x with
  | L [n; nrows; L cols] ->
      let nrows = to_int nrows in
      let cols = List.map (function L [c; L cells] -> (to_name c, Array.of_list (List.map to_cell cells))
                                  | _ -> raise (Conv "column")) cols in
      List.iter (fun (_, a) -> if Array.length a <> nrows then raise (Conv "column length")) cols;
      { tb_name = to_name n; tb_cols = List.map fst cols;
        tb_rows = List.init nrows (fun i -> List.map (fun (c, a) -> (c, a.(i))) cols) }
  | _ -> raise (Conv "table")

let to_spec (x : Sx.t) = to_list (function L [t; L cols] -> (to_name t, List.map to_name cols)
                                          | _ -> raise (Conv "spec")) x

let to_hop (x : Sx.t) : hop =
  match x with
  | L [A "ingest"; bytes; L tables] -> HOp (OIngest (List.map to_tbatch tables, to_n bytes))
  | L [A "flush"; bg; L o] ->
      HOp (OFlush (to_bool bg, List.map (function L [t; b; c] -> (to_name t, (to_n b, to_n c))
                                                | _ -> raise (Conv "oracle")) o))
  | L [A "evict"] -> HOp OEvict
  | L [A "restart"] -> HOp ORestart
  | L [A "observe"; spec] -> HObserve (to_spec spec)
  | _ -> raise (Conv "hop")

let field k l =
  match List.find_opt (function L [A k'; _] -> k = k' | _ -> false) l with
  | Some (L [_; v]) -> v
  | _ -> raise (Conv ("missing " ^ k))

let sort_names (l : name list) : Sx.t list =
  List.sort compare (List.map (fun n -> Sx.to_string (of_name n)) l) |> List.map (fun s -> A s)

let of_quad (((a, b), c), d) = L [of_n a; of_n b; of_n c; of_n d]

let of_tobs (t : tobs) : Sx.t =
  L [of_name t.o_name;
     L (List.map of_quad t.o_parts);
     L [of_n (fst t.o_bufs); of_n (snd t.o_bufs)];
     L [of_n (fst t.o_next); of_n (snd t.o_next)];
     (match t.o_cols with None -> A "none" | Some l -> L [A "some"; L (sort_names l)]);
     L (A "meta" :: List.map of_quad t.o_meta);
     L (A "files" :: List.map (fun z -> A (Z.to_string z))
                       (List.sort Z.compare (List.map z_of_n t.o_files)))]

let of_obs (o : obs) : Sx.t =
  let ((e, nx), ws) = o.ob_mem in
  L [A "obs";
     L [A "content"; L (List.map (fun (t, rows) ->
          L [of_name t; L (List.map (fun r -> L (List.map of_cell r)) rows)]) o.ob_content)];
     L [A "tables"; (match o.ob_tables with None -> A "none" | Some l -> L [A "some"; L (sort_names l)])];
     L [A "columns"; L (List.map (fun (t, c) ->
          L [of_name t; (match c with None -> A "none" | Some l -> L [A "some"; L (sort_names l)])])
          o.ob_columns)];
     L [A "layout"; L (List.sort (fun a b ->
                            match a, b with
                            | L (A x :: _), L (A y :: _) -> compare x y
                            | _ -> 0) (List.map of_tobs o.ob_layout))];
     L [A "mem"; of_n e; of_n nx; of_n ws];
     L [A "cursor"; Conv.of_opt of_n o.ob_cursor];
     L [A "wal"; L (List.map (fun z -> A (Z.to_string z)) (List.sort Z.compare (List.map z_of_n o.ob_wal)))]]

let of_site (s : site) : string =
  match s with
  | SNonContiguous -> "non_contiguous" | SMissingFile -> "missing_file" | SCatalogue -> "catalogue"
  | SOverflow -> "overflow" | SColsNotInit -> "cols_not_init" | SFrozenNotEmpty -> "frozen_not_empty"
  | SDeleteMissing -> "delete_missing" | SPlanRange -> "plan_range" | SNoTable -> "no_table"

let of_hout (h : hout) : Sx.t =
  match h with
  | HObs o -> of_obs o
  | HStop (Val _) -> L [A "stop"; A "val"]
  | HStop (Known KF1) -> L [A "stop"; A "known"; A "F1"]
  | HStop (Known KF3) -> L [A "stop"; A "known"; A "colset-incomplete"]
  | HStop (Panic s) -> L [A "stop"; A "panic"; A (of_site s)]
  | HStop Blocked -> L [A "stop"; A "blocked"]
  | HStop NotEnabled -> L [A "stop"; A "not_enabled"]

let run (entry : string) (inp : Sx.t) : Sx.t =
  match entry, inp with
  | "store_history", L [L c; L hops] ->
      let cfg = { c_factor = to_n (field "factor" c); c_max_wal_files = to_n (field "max_files" c);
                  c_max_wal_bytes = to_n (field "max_bytes" c) } in
      let guard = to_bool (field "guard" c) in
      L (List.map of_hout (run_h guard cfg (List.map to_hop hops) (init cfg)))
  | "store_effects", L [L c; L hops] ->
      (* the primitive effects of every operation of the history, grouped and sorted within the
         groups whose internal order the code leaves to its thread pools *)
      let cfg = { c_factor = to_n (field "factor" c); c_max_wal_files = to_n (field "max_files" c);
                  c_max_wal_bytes = to_n (field "max_bytes" c) } in
      let ops = List.filter_map (fun h -> match to_hop h with HOp o -> Some o | HObserve _ -> None) hops in
      let zs n = Z.to_string (z_of_n n) in
      let of_eff = function
        | EWalTmpCreate id -> (0, L [A "waltmp-create"; A (zs id)])
        | EWalTmpWrite (id, _) -> (1, L [A "waltmp-write"; A (zs id)])
        | EWalRename (id, _) -> (2, L [A "wal-rename"; A (zs id)])
        | EPartStore (n, id, _) -> (3, L [A "store"; of_name n; A (zs id)])
        | EMetaStore (k, _) -> (4, L [A "meta"; A (zs k)])
        | EPartRemove (n, id) -> (5, L [A "rmpart"; of_name n; A (zs id)])
        | EWalTmpRemove -> (6, L [A "waltmp-remove"])
        | EWalRemove id -> (7, L [A "rmwal"; A (zs id)]) in
      let canon es =
        let tagged = List.map of_eff es in
        let sorted = List.stable_sort (fun (g1, x1) (g2, x2) ->
          if g1 <> g2 then compare g1 g2 else compare (Sx.to_string x1) (Sx.to_string x2)) tagged in
        L (List.map snd sorted) in
      L (List.map canon (run_effects cfg ops (init cfg)))
  | "plan_compaction", L [f; L sizes] ->
      let parts = List.mapi (fun i s -> { p_id = n_of_z (Z.of_int i); p_off = N0; p_size = to_n s; p_rows = [] })
                    sizes in
      (match plan_compaction (to_n f) parts with
       | PlanNone -> A "none"
       | PlanFrom i -> L [A "from"; of_int (int_of_nat i)]
       | PlanOverflow -> A "overflow")
  | _ -> raise (Conv ("unknown entry or bad input shape: " ^ entry))

let () = Loop.main run
