open BinNat
open BinNums
open Catalogue
open Datatypes
open List0
open TableSM
open WalSM

type eff =
| EWalTmpCreate of coq_N
| EWalTmpWrite of coq_N * segment
| EWalRename of coq_N * segment
| EWalTmpRemove
| EPartStore of name * coq_N * row list
| EMetaStore of coq_N * (name * pmeta list) list
| EPartRemove of name * coq_N
| EWalRemove of coq_N

val ingest_effects : coq_N -> coq_N -> batch -> eff list

val added_files : tstate -> (coq_N * row list) list

val part_stores : (name * tstate) list -> eff list

val new_metas : (name * tstate) list -> (name * pmeta list) list

val part_removes : (name * tstate) list -> eff list

val seq_ids : coq_N -> nat -> coq_N list

val wal_removes : coq_N -> coq_N -> eff list

val flush_effects : db -> (name * tstate) list -> eff list

val recover_effects : db -> eff list

val last_batch : db -> batch

val op_effects : cfg -> db -> op -> eff list

val run_effects : cfg -> op list -> db -> eff list list
