open BinNat
open BinNums
open Catalogue
open Datatypes
open List0
open TableSM

type cfg = { c_factor : coq_N; c_max_wal_files : coq_N;
             c_max_wal_bytes : coq_N }

type segment = { sg_bytes : coq_N; sg_data : batch }

type db = { tabs : (name * tstate) list; next_wal : coq_N; earliest : 
            coq_N; wal_size : coq_N; d_cursor : coq_N option;
            d_wal : (coq_N * segment) list; acked : batch list }

type site =
| SNonContiguous
| SMissingFile
| SCatalogue
| SOverflow
| SColsNotInit
| SFrozenNotEmpty
| SDeleteMissing
| SPlanRange
| SNoTable

type 'a res =
| Val of 'a
| Known of known
| Panic of site
| Blocked
| NotEnabled

(** val bind : 'a1 res -> ('a1 -> 'a2 res) -> 'a2 res **)

let bind r f =
  match r with
  | Val a -> f a
  | Known k -> Known k
  | Panic s -> Panic s
  | Blocked -> Blocked
  | NotEnabled -> NotEnabled

(** val of_opt : site -> 'a1 option -> 'a1 res **)

let of_opt s = function
| Some a -> Val a
| None -> Panic s

(** val lookup : name -> (name * tstate) list -> tstate option **)

let rec lookup n = function
| [] -> None
| p :: r -> let (k, v) = p in if name_eqb n k then Some v else lookup n r

(** val upd :
    name -> tstate -> (name * tstate) list -> (name * tstate) list **)

let rec upd n v = function
| [] -> []
| p :: r ->
  let (k, w) = p in
  if name_eqb n k then (k, v) :: r else (k, w) :: (upd n v r)

(** val create_if_empty :
    name -> name -> (name * tstate) list -> (name * tstate) list * bool **)

let create_if_empty seed n l =
  match lookup n l with
  | Some _ -> (l, false)
  | None ->
    ((app l ((n, (empty_table (seed_cols seed n (Some [])))) :: [])), true)

(** val content : db -> name -> row list **)

let content s n =
  match lookup n s.tabs with
  | Some t -> table_content t
  | None -> []

(** val ensure_cols :
    name -> (name * tstate) list -> (name * tstate) list res **)

let ensure_cols n l =
  match lookup n l with
  | Some t ->
    (match t.t_cols with
     | Some _ -> Val l
     | None ->
       (match lookup (meta_columns_of n) l with
        | Some mc ->
          (match string_column s_column_name (table_content mc) with
           | Some names ->
             Val (upd n (set_cols t (Some (add_names [] names))) l)
           | None -> Panic SCatalogue)
        | None -> Panic SCatalogue))
  | None -> Panic SNoTable

(** val prepare :
    name -> batch -> (name * tstate) list -> name list -> batch ->
    (((name * tstate) list * name list) * batch) res **)

let rec prepare seed b l created colrows =
  match b with
  | [] -> Val ((l, created), colrows)
  | tb :: rest ->
    let n = tb.tb_name in
    let (l1, c1) = create_if_empty seed n l in
    let (l2, c2) = create_if_empty seed (meta_columns_of n) l1 in
    let created' =
      app created
        (app (if c1 then n :: [] else [])
          (if c2 then (meta_columns_of n) :: [] else []))
    in
    bind (ensure_cols n l2) (fun l3 ->
      match lookup n l3 with
      | Some t ->
        (match t.t_cols with
         | Some s ->
           prepare seed rest l3 created'
             (app colrows (meta_columns_batch n (new_names s tb.tb_cols)))
         | None -> Panic SColsNotInit)
      | None -> Panic SNoTable)

(** val apply_batch :
    batch -> (name * tstate) list -> (name * tstate) list res **)

let rec apply_batch b l =
  match b with
  | [] -> Val l
  | tb :: rest ->
    (match lookup tb.tb_name l with
     | Some t ->
       (match ingest_rows t tb.tb_cols tb.tb_rows with
        | Some t' -> apply_batch rest (upd tb.tb_name t' l)
        | None -> Panic SColsNotInit)
     | None -> Panic SNoTable)

(** val ingest : cfg -> batch -> coq_N -> db -> db res **)

let ingest c b bytes s =
  if N.ltb c.c_max_wal_bytes s.wal_size
  then Blocked
  else bind (prepare code_seed b s.tabs [] []) (fun pat ->
         let (p, colrows) = pat in
         let (l1, created) = p in
         let full = app b (app (meta_tables_batch created) colrows) in
         bind (apply_batch full l1) (fun l2 -> Val { tabs = l2; next_wal =
           (N.add s.next_wal (Npos Coq_xH)); earliest = s.earliest;
           wal_size = (N.add s.wal_size bytes); d_cursor = s.d_cursor;
           d_wal =
           (app s.d_wal ((s.next_wal, { sg_bytes = bytes; sg_data =
             full }) :: [])); acked = (app s.acked (full :: [])) }))

type oracle = (name * (coq_N * coq_N)) list

(** val sizes_for : oracle -> name -> coq_N * coq_N **)

let rec sizes_for o n =
  match o with
  | [] -> (N0, N0)
  | p :: r -> let (k, v) = p in if name_eqb n k then v else sizes_for r n

(** val map_tabs :
    site -> (tstate -> tstate option) -> (name * tstate) list ->
    (name * tstate) list res **)

let rec map_tabs s f = function
| [] -> Val []
| p :: r ->
  let (n, t) = p in
  bind (of_opt s (f t)) (fun t' ->
    bind (map_tabs s f r) (fun r' -> Val ((n, t') :: r')))

(** val freeze_all : (name * tstate) list -> (name * tstate) list res **)

let freeze_all =
  map_tabs SFrozenNotEmpty freeze

(** val lift_t : 'a1 tres -> 'a1 res **)

let lift_t = function
| TVal a -> Val a
| TKnown k -> Known k
| TPanic -> Panic SPlanRange

(** val flush_table :
    bool -> cfg -> oracle -> name -> (name * tstate) list -> (name * tstate)
    list res **)

let flush_table guard c o n l =
  match lookup n l with
  | Some t ->
    let szs = sizes_for o n in
    let t1 = batch_table (fst szs) t in
    (match plan_compaction c.c_factor t1.t_parts with
     | PlanNone -> Val (upd n t1 l)
     | PlanFrom i ->
       bind (ensure_cols n (upd n t1 l)) (fun l1 ->
         match lookup n l1 with
         | Some t2 ->
           (match t2.t_cols with
            | Some cols ->
              bind (lift_t (compact guard (snd szs) i cols t2)) (fun t3 ->
                Val (upd n t3 l1))
            | None -> Panic SColsNotInit)
         | None -> Panic SNoTable)
     | PlanOverflow -> Panic SOverflow)
  | None -> Panic SNoTable

(** val flush_tables :
    bool -> cfg -> oracle -> name list -> (name * tstate) list ->
    (name * tstate) list res **)

let rec flush_tables guard c o names l =
  match names with
  | [] -> Val l
  | n :: rest ->
    bind (flush_table guard c o n l) (fun l1 ->
      flush_tables guard c o rest l1)

(** val delete_orphans : (name * tstate) list -> (name * tstate) list res **)

let delete_orphans =
  map_tabs SDeleteMissing delete_dead

(** val find_seg : coq_N -> (coq_N * segment) list -> bool **)

let rec find_seg id = function
| [] -> false
| p :: r -> let (k, _) = p in (||) (N.eqb k id) (find_seg id r)

(** val delete_segments :
    nat -> coq_N -> (coq_N * segment) list -> (coq_N * segment) list option **)

let rec delete_segments fuel id w =
  match fuel with
  | O -> Some w
  | S f ->
    if find_seg id w
    then delete_segments f (N.add id (Npos Coq_xH))
           (filter (fun x -> negb (N.eqb (fst x) id)) w)
    else None

(** val bg_enabled : cfg -> db -> bool **)

let bg_enabled c s =
  (||) (N.ltb c.c_max_wal_bytes s.wal_size)
    (N.ltb c.c_max_wal_files (N.sub s.next_wal s.earliest))

(** val flush_mid :
    bool -> cfg -> oracle -> db -> (name * tstate) list res **)

let flush_mid guard c o s =
  bind (freeze_all s.tabs) (fun l0 -> flush_tables guard c o (map fst l0) l0)

(** val flush : bool -> cfg -> oracle -> db -> db res **)

let flush guard c o s =
  let lo = s.earliest in
  let hi = s.next_wal in
  bind (flush_mid guard c o s) (fun l1 ->
    bind (map_tabs SNoTable (fun t -> Some (publish_meta t)) l1) (fun l2 ->
      bind (delete_orphans l2) (fun l3 ->
        bind
          (of_opt SDeleteMissing
            (delete_segments (N.to_nat (N.sub hi lo)) lo s.d_wal)) (fun w ->
          Val { tabs = l3; next_wal = hi; earliest = hi; wal_size = N0;
          d_cursor = (Some hi); d_wal = w; acked = s.acked }))))

(** val insert_seg :
    (coq_N * segment) -> (coq_N * segment) list -> (coq_N * segment) list **)

let rec insert_seg x = function
| [] -> x :: []
| y :: r ->
  if N.leb (fst x) (fst y) then x :: (y :: r) else y :: (insert_seg x r)

(** val sort_segs : (coq_N * segment) list -> (coq_N * segment) list **)

let sort_segs l =
  fold_right insert_seg [] l

(** val restore_tables :
    name -> (name * tstate) list -> (name * tstate) list res **)

let rec restore_tables seed = function
| [] -> Val []
| p :: r ->
  let (n, t) = p in
  bind (restore_tables seed r) (fun r' ->
    match t.t_meta with
    | [] -> Val r'
    | _ :: _ ->
      bind (of_opt SMissingFile (restore (seed_cols seed n None) t))
        (fun t' -> Val ((n, t') :: r')))

(** val replay_batch :
    name -> batch -> (name * tstate) list -> (name * tstate) list res **)

let rec replay_batch seed b l =
  match b with
  | [] -> Val l
  | tb :: rest ->
    let (l1, _) = create_if_empty seed tb.tb_name l in
    bind (ensure_cols tb.tb_name l1) (fun l2 ->
      match lookup tb.tb_name l2 with
      | Some t ->
        (match ingest_rows t tb.tb_cols tb.tb_rows with
         | Some t' -> replay_batch seed rest (upd tb.tb_name t' l2)
         | None -> Panic SColsNotInit)
      | None -> Panic SNoTable)

(** val replay :
    name -> (coq_N * segment) list -> coq_N option -> (name * tstate) list ->
    (name * tstate) list res **)

let rec replay seed w expect l =
  match w with
  | [] -> Val l
  | p :: rest ->
    let (id, sg) = p in
    let ok = match expect with
             | Some e -> N.eqb id e
             | None -> true in
    if ok
    then bind (replay_batch seed sg.sg_data l) (fun l1 ->
           replay seed rest (Some (N.add id (Npos Coq_xH))) l1)
    else Panic SNonContiguous

(** val recover : cfg -> db -> db res **)

let recover _ s =
  let cursor = match s.d_cursor with
               | Some k -> k
               | None -> N0 in
  let keep = sort_segs (filter (fun x -> N.leb cursor (fst x)) s.d_wal) in
  let next =
    fold_left (fun a x -> N.max a (N.add (fst x) (Npos Coq_xH))) keep cursor
  in
  let size = fold_left (fun a x -> N.add a (snd x).sg_bytes) keep N0 in
  bind (restore_tables code_seed s.tabs) (fun l0 ->
    let (l1, _) = create_if_empty code_seed s_meta_tables l0 in
    bind (replay code_seed keep None l1) (fun l2 -> Val { tabs = l2;
      next_wal = next; earliest = cursor; wal_size = size; d_cursor =
      s.d_cursor; d_wal = keep; acked = s.acked }))

type op =
| OIngest of batch * coq_N
| OFlush of bool * oracle
| OEvict
| ORestart

(** val step : bool -> cfg -> db -> op -> db res **)

let step guard c s = function
| OIngest (b, bytes) -> ingest c b bytes s
| OFlush (bg, orc) ->
  if (&&) bg (negb (bg_enabled c s)) then NotEnabled else flush guard c orc s
| OEvict -> Val s
| ORestart -> recover c s

(** val init : cfg -> db **)

let init _ =
  { tabs = ((s_meta_tables,
    (empty_table (seed_cols code_seed s_meta_tables (Some [])))) :: []);
    next_wal = N0; earliest = N0; wal_size = N0; d_cursor = None; d_wal = [];
    acked = [] }

type tobs = { o_name : name;
              o_parts : (((coq_N * coq_N) * coq_N) * coq_N) list;
              o_bufs : (coq_N * coq_N); o_next : (coq_N * coq_N);
              o_cols : name list option;
              o_meta : (((coq_N * coq_N) * coq_N) * coq_N) list;
              o_files : coq_N list }

(** val observe_table : (name * tstate) -> tobs **)

let observe_table nt =
  let t = snd nt in
  { o_name = (fst nt); o_parts =
  (map (fun p -> (((p.p_id, p.p_off), (N.add p.p_off (p_len p))), p.p_size))
    t.t_parts); o_bufs = ((N.of_nat (length t.t_buf)),
  (N.of_nat (length t.t_frozen))); o_next = (t.t_next_id, t.t_next_off);
  o_cols = t.t_cols; o_meta =
  (map (fun m -> (((m.pm_id, m.pm_off), m.pm_len), m.pm_size)) t.t_meta);
  o_files = (map fst t.t_files) }

type obs = { ob_content : (name * cell list list) list;
             ob_tables : name list option;
             ob_columns : (name * name list option) list;
             ob_layout : tobs list; ob_mem : ((coq_N * coq_N) * coq_N);
             ob_cursor : coq_N option; ob_wal : coq_N list }

(** val observe : db -> (name * name list) list -> obs **)

let observe s spec =
  { ob_content =
    (map (fun q -> ((fst q),
      (map (fun r -> map (get r) (snd q)) (content s (fst q))))) spec);
    ob_tables = (string_column s_name (content s s_meta_tables));
    ob_columns =
    (map (fun q -> ((fst q),
      (string_column s_column_name (content s (meta_columns_of (fst q))))))
      spec); ob_layout = (map observe_table s.tabs); ob_mem = ((s.earliest,
    s.next_wal), s.wal_size); ob_cursor = s.d_cursor; ob_wal =
    (map fst s.d_wal) }

type hop =
| HOp of op
| HObserve of (name * name list) list

type hout =
| HObs of obs
| HStop of unit res

(** val forget : 'a1 res -> unit res **)

let forget = function
| Val _ -> Val ()
| Known k -> Known k
| Panic s -> Panic s
| Blocked -> Blocked
| NotEnabled -> NotEnabled

(** val run_h : bool -> cfg -> hop list -> db -> hout list **)

let rec run_h guard c hs s =
  match hs with
  | [] -> []
  | h :: rest ->
    (match h with
     | HOp o ->
       (match step guard c s o with
        | Val s' -> run_h guard c rest s'
        | Known k -> (HStop (forget (Known k))) :: []
        | Panic s0 -> (HStop (forget (Panic s0))) :: []
        | Blocked -> (HStop (forget Blocked)) :: []
        | NotEnabled -> (HStop (forget NotEnabled)) :: [])
     | HObserve spec -> (HObs (observe s spec)) :: (run_h guard c rest s))
