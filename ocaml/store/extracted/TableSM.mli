open BinNat
open BinNums
open Datatypes
open List0

type name = coq_N list

val name_eqb : name -> name -> bool

val mem_name : name -> name list -> bool

val is_prefix : name -> name -> bool

type cell =
| CNull
| CInt of coq_Z
| CStr of coq_N list
| CFloat of coq_N

val is_null : cell -> bool

type row = (name * cell) list

val get : row -> name -> cell

val row_cols : row -> name list

type part = { p_id : coq_N; p_off : coq_N; p_size : coq_N; p_rows : row list }

val p_len : part -> coq_N

type pmeta = { pm_id : coq_N; pm_off : coq_N; pm_len : coq_N; pm_size : coq_N }

val pmeta_of : part -> pmeta

type tstate = { t_buf : row list; t_frozen : row list; t_parts : part list;
                t_next_id : coq_N; t_next_off : coq_N;
                t_cols : name list option; t_files : (coq_N * row list) list;
                t_meta : pmeta list; t_dead : coq_N list }

val set_buf : tstate -> row list -> tstate

val set_cols : tstate -> name list option -> tstate

val part_rows : part list -> row list

val table_content : tstate -> row list

val add_names : name list -> name list -> name list

val new_names : name list -> name list -> name list

val ingest_rows : tstate -> name list -> row list -> tstate option

val freeze : tstate -> tstate option

val find_file : coq_N -> (coq_N * row list) list -> row list option

val remove_file : coq_N -> (coq_N * row list) list -> (coq_N * row list) list

val store_file :
  coq_N -> row list -> (coq_N * row list) list -> (coq_N * row list) list

val delete_files :
  coq_N list -> (coq_N * row list) list -> (coq_N * row list) list option

val batch_table : coq_N -> tstate -> tstate

val u64_lim : coq_N

type plan_result =
| PlanNone
| PlanFrom of nat
| PlanOverflow

val plan_aux : coq_N -> part list -> coq_N * plan_result

val plan_compaction : coq_N -> part list -> plan_result

val restrict : name list -> row -> row

val cols_complete : name list -> row list -> bool

val col_nullable : row list -> name -> bool

val nullable_cols : name list -> row list -> name list

val filler : row list -> name -> cell

val fill_row : row list -> name list -> row -> row

val lossy_part_rows : name list -> row list -> row list

val f1_free : name list -> part list -> bool

val rebuild_rows : name list -> part list -> row list

type known =
| KF1
| KF3

type 'a tres =
| TVal of 'a
| TKnown of known
| TPanic

val compact : bool -> coq_N -> nat -> name list -> tstate -> tstate tres

val publish_meta : tstate -> tstate

val delete_dead : tstate -> tstate option

val restore_parts : pmeta list -> (coq_N * row list) list -> part list option

val max_next_id : pmeta list -> coq_N

val max_next_off : pmeta list -> coq_N

val restore : name list option -> tstate -> tstate option

val empty_table : name list option -> tstate
