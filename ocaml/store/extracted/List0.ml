open Datatypes

(** val rev : 'a1 list -> 'a1 list **)

let rec rev = function
| [] -> []
| x :: l' -> app (rev l') (x :: [])

(** val map : ('a1 -> 'a2) -> 'a1 list -> 'a2 list **)

let rec map f = function
| [] -> []
| a :: t -> (f a) :: (map f t)

(** val flat_map : ('a1 -> 'a2 list) -> 'a1 list -> 'a2 list **)

let rec flat_map f = function
| [] -> []
| x :: t -> app (f x) (flat_map f t)

(** val fold_left : ('a1 -> 'a2 -> 'a1) -> 'a2 list -> 'a1 -> 'a1 **)

let rec fold_left f l a0 =
  match l with
  | [] -> a0
  | b :: t -> fold_left f t (f a0 b)

(** val fold_right : ('a2 -> 'a1 -> 'a1) -> 'a1 -> 'a2 list -> 'a1 **)

let rec fold_right f a0 = function
| [] -> a0
| b :: t -> f b (fold_right f a0 t)

(** val existsb : ('a1 -> bool) -> 'a1 list -> bool **)

let rec existsb f = function
| [] -> false
| a :: l0 -> (||) (f a) (existsb f l0)

(** val forallb : ('a1 -> bool) -> 'a1 list -> bool **)

let rec forallb f = function
| [] -> true
| a :: l0 -> (&&) (f a) (forallb f l0)

(** val filter : ('a1 -> bool) -> 'a1 list -> 'a1 list **)

let rec filter f = function
| [] -> []
| x :: l0 -> if f x then x :: (filter f l0) else filter f l0

(** val firstn : nat -> 'a1 list -> 'a1 list **)

let rec firstn n l =
  match n with
  | O -> []
  | S n0 -> (match l with
             | [] -> []
             | a :: l0 -> a :: (firstn n0 l0))

(** val skipn : nat -> 'a1 list -> 'a1 list **)

let rec skipn n l =
  match n with
  | O -> l
  | S n0 -> (match l with
             | [] -> []
             | _ :: l0 -> skipn n0 l0)
