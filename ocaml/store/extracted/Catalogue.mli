open BinNums
open Datatypes
open List0
open TableSM

val s_meta_columns_ : name

val s_meta_tables : name

val s_column_name : name

val code_seed : name

val s_timestamp : name

val s_name : name

val meta_columns_of : name -> name

val is_meta_columns : name -> bool

val is_meta_tables : name -> bool

val seed_cols : name -> name -> name list option -> name list option

type tbatch = { tb_name : name; tb_cols : name list; tb_rows : row list }

type batch = tbatch list

val string_column : name -> row list -> name list option

val meta_tables_row : name -> row

val meta_tables_batch : name list -> batch

val meta_columns_batch : name -> name list -> batch
