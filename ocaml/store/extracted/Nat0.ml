open Datatypes

(** val add : nat -> nat -> nat **)

let rec add n m =
  match n with
  | O -> m
  | S p -> S (add p m)
