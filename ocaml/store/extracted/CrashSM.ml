open BinNat
open BinNums
open Catalogue
open Datatypes
open List0
open TableSM
open WalSM

type eff =
| EWalTmpCreate of coq_N
| EWalTmpWrite of coq_N * segment
| EWalRename of coq_N * segment
| EWalTmpRemove
| EPartStore of name * coq_N * row list
| EMetaStore of coq_N * (name * pmeta list) list
| EPartRemove of name * coq_N
| EWalRemove of coq_N

(** val ingest_effects : coq_N -> coq_N -> batch -> eff list **)

let ingest_effects id bytes full =
  let sg = { sg_bytes = bytes; sg_data = full } in
  (EWalTmpCreate id) :: ((EWalTmpWrite (id, sg)) :: ((EWalRename (id,
  sg)) :: []))

(** val added_files : tstate -> (coq_N * row list) list **)

let added_files t1 =
  skipn (length t1.t_meta) t1.t_files

(** val part_stores : (name * tstate) list -> eff list **)

let part_stores l1 =
  flat_map (fun nt ->
    map (fun f -> EPartStore ((fst nt), (fst f), (snd f)))
      (added_files (snd nt))) l1

(** val new_metas : (name * tstate) list -> (name * pmeta list) list **)

let new_metas l1 =
  map (fun nt -> ((fst nt), (map pmeta_of (snd nt).t_parts))) l1

(** val part_removes : (name * tstate) list -> eff list **)

let part_removes l1 =
  flat_map (fun nt ->
    map (fun x -> EPartRemove ((fst nt), x)) (snd nt).t_dead) l1

(** val seq_ids : coq_N -> nat -> coq_N list **)

let rec seq_ids a = function
| O -> []
| S k' -> a :: (seq_ids (N.add a (Npos Coq_xH)) k')

(** val wal_removes : coq_N -> coq_N -> eff list **)

let wal_removes lo hi =
  map (fun x -> EWalRemove x) (seq_ids lo (N.to_nat (N.sub hi lo)))

(** val flush_effects : db -> (name * tstate) list -> eff list **)

let flush_effects s l1 =
  app (part_stores l1)
    (app ((EMetaStore (s.next_wal, (new_metas l1))) :: [])
      (app (part_removes l1) (wal_removes s.earliest s.next_wal)))

(** val recover_effects : db -> eff list **)

let recover_effects s =
  let cursor = match s.d_cursor with
               | Some k -> k
               | None -> N0 in
  map (fun x -> EWalRemove (fst x))
    (filter (fun x -> N.ltb (fst x) cursor) s.d_wal)

(** val last_batch : db -> batch **)

let last_batch s =
  match rev s.acked with
  | [] -> []
  | x :: _ -> x

(** val op_effects : cfg -> db -> op -> eff list **)

let op_effects c s = function
| OIngest (b, bytes) ->
  (match ingest c b bytes s with
   | Val s' -> ingest_effects s.next_wal bytes (last_batch s')
   | _ -> [])
| OFlush (_, orc) ->
  (match flush_mid false c orc s with
   | Val l1 -> flush_effects s l1
   | _ -> [])
| OEvict -> []
| ORestart -> recover_effects s

(** val run_effects : cfg -> op list -> db -> eff list list **)

let rec run_effects c ops s =
  match ops with
  | [] -> []
  | o :: rest ->
    (op_effects c s o) :: (match step false c s o with
                           | Val s' -> run_effects c rest s'
                           | _ -> [])
