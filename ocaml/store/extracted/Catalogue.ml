open BinNums
open Datatypes
open List0
open TableSM

(** val s_meta_columns_ : name **)

let s_meta_columns_ =
  (Npos (Coq_xI (Coq_xI (Coq_xI (Coq_xI (Coq_xI (Coq_xO
    Coq_xH))))))) :: ((Npos (Coq_xI (Coq_xO (Coq_xI (Coq_xI (Coq_xO (Coq_xI
    Coq_xH))))))) :: ((Npos (Coq_xI (Coq_xO (Coq_xI (Coq_xO (Coq_xO (Coq_xI
    Coq_xH))))))) :: ((Npos (Coq_xO (Coq_xO (Coq_xI (Coq_xO (Coq_xI (Coq_xI
    Coq_xH))))))) :: ((Npos (Coq_xI (Coq_xO (Coq_xO (Coq_xO (Coq_xO (Coq_xI
    Coq_xH))))))) :: ((Npos (Coq_xI (Coq_xI (Coq_xI (Coq_xI (Coq_xI (Coq_xO
    Coq_xH))))))) :: ((Npos (Coq_xI (Coq_xI (Coq_xO (Coq_xO (Coq_xO (Coq_xI
    Coq_xH))))))) :: ((Npos (Coq_xI (Coq_xI (Coq_xI (Coq_xI (Coq_xO (Coq_xI
    Coq_xH))))))) :: ((Npos (Coq_xO (Coq_xO (Coq_xI (Coq_xI (Coq_xO (Coq_xI
    Coq_xH))))))) :: ((Npos (Coq_xI (Coq_xO (Coq_xI (Coq_xO (Coq_xI (Coq_xI
    Coq_xH))))))) :: ((Npos (Coq_xI (Coq_xO (Coq_xI (Coq_xI (Coq_xO (Coq_xI
    Coq_xH))))))) :: ((Npos (Coq_xO (Coq_xI (Coq_xI (Coq_xI (Coq_xO (Coq_xI
    Coq_xH))))))) :: ((Npos (Coq_xI (Coq_xI (Coq_xO (Coq_xO (Coq_xI (Coq_xI
    Coq_xH))))))) :: ((Npos (Coq_xI (Coq_xI (Coq_xI (Coq_xI (Coq_xI (Coq_xO
    Coq_xH))))))) :: [])))))))))))))

(** val s_meta_tables : name **)

let s_meta_tables =
  (Npos (Coq_xI (Coq_xI (Coq_xI (Coq_xI (Coq_xI (Coq_xO
    Coq_xH))))))) :: ((Npos (Coq_xI (Coq_xO (Coq_xI (Coq_xI (Coq_xO (Coq_xI
    Coq_xH))))))) :: ((Npos (Coq_xI (Coq_xO (Coq_xI (Coq_xO (Coq_xO (Coq_xI
    Coq_xH))))))) :: ((Npos (Coq_xO (Coq_xO (Coq_xI (Coq_xO (Coq_xI (Coq_xI
    Coq_xH))))))) :: ((Npos (Coq_xI (Coq_xO (Coq_xO (Coq_xO (Coq_xO (Coq_xI
    Coq_xH))))))) :: ((Npos (Coq_xI (Coq_xI (Coq_xI (Coq_xI (Coq_xI (Coq_xO
    Coq_xH))))))) :: ((Npos (Coq_xO (Coq_xO (Coq_xI (Coq_xO (Coq_xI (Coq_xI
    Coq_xH))))))) :: ((Npos (Coq_xI (Coq_xO (Coq_xO (Coq_xO (Coq_xO (Coq_xI
    Coq_xH))))))) :: ((Npos (Coq_xO (Coq_xI (Coq_xO (Coq_xO (Coq_xO (Coq_xI
    Coq_xH))))))) :: ((Npos (Coq_xO (Coq_xO (Coq_xI (Coq_xI (Coq_xO (Coq_xI
    Coq_xH))))))) :: ((Npos (Coq_xI (Coq_xO (Coq_xI (Coq_xO (Coq_xO (Coq_xI
    Coq_xH))))))) :: ((Npos (Coq_xI (Coq_xI (Coq_xO (Coq_xO (Coq_xI (Coq_xI
    Coq_xH))))))) :: [])))))))))))

(** val s_column_name : name **)

let s_column_name =
  (Npos (Coq_xI (Coq_xI (Coq_xO (Coq_xO (Coq_xO (Coq_xI
    Coq_xH))))))) :: ((Npos (Coq_xI (Coq_xI (Coq_xI (Coq_xI (Coq_xO (Coq_xI
    Coq_xH))))))) :: ((Npos (Coq_xO (Coq_xO (Coq_xI (Coq_xI (Coq_xO (Coq_xI
    Coq_xH))))))) :: ((Npos (Coq_xI (Coq_xO (Coq_xI (Coq_xO (Coq_xI (Coq_xI
    Coq_xH))))))) :: ((Npos (Coq_xI (Coq_xO (Coq_xI (Coq_xI (Coq_xO (Coq_xI
    Coq_xH))))))) :: ((Npos (Coq_xO (Coq_xI (Coq_xI (Coq_xI (Coq_xO (Coq_xI
    Coq_xH))))))) :: ((Npos (Coq_xI (Coq_xI (Coq_xI (Coq_xI (Coq_xI (Coq_xO
    Coq_xH))))))) :: ((Npos (Coq_xO (Coq_xI (Coq_xI (Coq_xI (Coq_xO (Coq_xI
    Coq_xH))))))) :: ((Npos (Coq_xI (Coq_xO (Coq_xO (Coq_xO (Coq_xO (Coq_xI
    Coq_xH))))))) :: ((Npos (Coq_xI (Coq_xO (Coq_xI (Coq_xI (Coq_xO (Coq_xI
    Coq_xH))))))) :: ((Npos (Coq_xI (Coq_xO (Coq_xI (Coq_xO (Coq_xO (Coq_xI
    Coq_xH))))))) :: []))))))))))

(** val code_seed : name **)

let code_seed =
  s_column_name

(** val s_timestamp : name **)

let s_timestamp =
  (Npos (Coq_xO (Coq_xO (Coq_xI (Coq_xO (Coq_xI (Coq_xI
    Coq_xH))))))) :: ((Npos (Coq_xI (Coq_xO (Coq_xO (Coq_xI (Coq_xO (Coq_xI
    Coq_xH))))))) :: ((Npos (Coq_xI (Coq_xO (Coq_xI (Coq_xI (Coq_xO (Coq_xI
    Coq_xH))))))) :: ((Npos (Coq_xI (Coq_xO (Coq_xI (Coq_xO (Coq_xO (Coq_xI
    Coq_xH))))))) :: ((Npos (Coq_xI (Coq_xI (Coq_xO (Coq_xO (Coq_xI (Coq_xI
    Coq_xH))))))) :: ((Npos (Coq_xO (Coq_xO (Coq_xI (Coq_xO (Coq_xI (Coq_xI
    Coq_xH))))))) :: ((Npos (Coq_xI (Coq_xO (Coq_xO (Coq_xO (Coq_xO (Coq_xI
    Coq_xH))))))) :: ((Npos (Coq_xI (Coq_xO (Coq_xI (Coq_xI (Coq_xO (Coq_xI
    Coq_xH))))))) :: ((Npos (Coq_xO (Coq_xO (Coq_xO (Coq_xO (Coq_xI (Coq_xI
    Coq_xH))))))) :: []))))))))

(** val s_name : name **)

let s_name =
  (Npos (Coq_xO (Coq_xI (Coq_xI (Coq_xI (Coq_xO (Coq_xI
    Coq_xH))))))) :: ((Npos (Coq_xI (Coq_xO (Coq_xO (Coq_xO (Coq_xO (Coq_xI
    Coq_xH))))))) :: ((Npos (Coq_xI (Coq_xO (Coq_xI (Coq_xI (Coq_xO (Coq_xI
    Coq_xH))))))) :: ((Npos (Coq_xI (Coq_xO (Coq_xI (Coq_xO (Coq_xO (Coq_xI
    Coq_xH))))))) :: [])))

(** val meta_columns_of : name -> name **)

let meta_columns_of t =
  app s_meta_columns_ t

(** val is_meta_columns : name -> bool **)

let is_meta_columns n =
  is_prefix s_meta_columns_ n

(** val is_meta_tables : name -> bool **)

let is_meta_tables n =
  is_prefix s_meta_tables n

(** val seed_cols : name -> name -> name list option -> name list option **)

let seed_cols seed n dflt =
  if is_meta_columns n
  then Some (seed :: [])
  else if is_meta_tables n then Some (s_timestamp :: (s_name :: [])) else dflt

type tbatch = { tb_name : name; tb_cols : name list; tb_rows : row list }

type batch = tbatch list

(** val string_column : name -> row list -> name list option **)

let rec string_column c = function
| [] -> Some []
| r :: rest ->
  (match get r c with
   | CStr s ->
     (match string_column c rest with
      | Some l -> Some (s :: l)
      | None -> None)
   | _ -> None)

(** val meta_tables_row : name -> row **)

let meta_tables_row n =
  (s_timestamp, (CInt Z0)) :: ((s_name, (CStr n)) :: [])

(** val meta_tables_batch : name list -> batch **)

let meta_tables_batch created = match created with
| [] -> []
| _ :: _ ->
  { tb_name = s_meta_tables; tb_cols = (s_timestamp :: (s_name :: []));
    tb_rows = (map meta_tables_row created) } :: []

(** val meta_columns_batch : name -> name list -> batch **)

let meta_columns_batch t fresh = match fresh with
| [] -> []
| _ :: _ ->
  { tb_name = (meta_columns_of t); tb_cols = (s_column_name :: []); tb_rows =
    (map (fun c -> (s_column_name, (CStr c)) :: []) fresh) } :: []
