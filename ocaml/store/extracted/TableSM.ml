open BinNat
open BinNums
open Datatypes
open List0

type name = coq_N list

(** val name_eqb : name -> name -> bool **)

let rec name_eqb a b =
  match a with
  | [] -> (match b with
           | [] -> true
           | _ :: _ -> false)
  | x :: a' ->
    (match b with
     | [] -> false
     | y :: b' -> (&&) (N.eqb x y) (name_eqb a' b'))

(** val mem_name : name -> name list -> bool **)

let rec mem_name n = function
| [] -> false
| x :: r -> (||) (name_eqb n x) (mem_name n r)

(** val is_prefix : name -> name -> bool **)

let rec is_prefix p n =
  match p with
  | [] -> true
  | x :: p' ->
    (match n with
     | [] -> false
     | y :: n' -> (&&) (N.eqb x y) (is_prefix p' n'))

type cell =
| CNull
| CInt of coq_Z
| CStr of coq_N list
| CFloat of coq_N

(** val is_null : cell -> bool **)

let is_null = function
| CNull -> true
| _ -> false

type row = (name * cell) list

(** val get : row -> name -> cell **)

let rec get r c =
  match r with
  | [] -> CNull
  | p :: r' -> let (k, v) = p in if name_eqb c k then v else get r' c

(** val row_cols : row -> name list **)

let row_cols r =
  map fst r

type part = { p_id : coq_N; p_off : coq_N; p_size : coq_N; p_rows : row list }

(** val p_len : part -> coq_N **)

let p_len p =
  N.of_nat (length p.p_rows)

type pmeta = { pm_id : coq_N; pm_off : coq_N; pm_len : coq_N; pm_size : coq_N }

(** val pmeta_of : part -> pmeta **)

let pmeta_of p =
  { pm_id = p.p_id; pm_off = p.p_off; pm_len = (p_len p); pm_size = p.p_size }

type tstate = { t_buf : row list; t_frozen : row list; t_parts : part list;
                t_next_id : coq_N; t_next_off : coq_N;
                t_cols : name list option; t_files : (coq_N * row list) list;
                t_meta : pmeta list; t_dead : coq_N list }

(** val set_buf : tstate -> row list -> tstate **)

let set_buf t b =
  { t_buf = b; t_frozen = t.t_frozen; t_parts = t.t_parts; t_next_id =
    t.t_next_id; t_next_off = t.t_next_off; t_cols = t.t_cols; t_files =
    t.t_files; t_meta = t.t_meta; t_dead = t.t_dead }

(** val set_cols : tstate -> name list option -> tstate **)

let set_cols t c =
  { t_buf = t.t_buf; t_frozen = t.t_frozen; t_parts = t.t_parts; t_next_id =
    t.t_next_id; t_next_off = t.t_next_off; t_cols = c; t_files = t.t_files;
    t_meta = t.t_meta; t_dead = t.t_dead }

(** val part_rows : part list -> row list **)

let part_rows ps =
  flat_map (fun p -> p.p_rows) ps

(** val table_content : tstate -> row list **)

let table_content t =
  app (part_rows t.t_parts) (app t.t_frozen t.t_buf)

(** val add_names : name list -> name list -> name list **)

let rec add_names s = function
| [] -> s
| c :: l' ->
  if mem_name c s then add_names s l' else add_names (app s (c :: [])) l'

(** val new_names : name list -> name list -> name list **)

let new_names s l =
  filter (fun c -> negb (mem_name c s)) l

(** val ingest_rows : tstate -> name list -> row list -> tstate option **)

let ingest_rows t cols rows =
  match t.t_cols with
  | Some s ->
    Some (set_cols (set_buf t (app t.t_buf rows)) (Some (add_names s cols)))
  | None -> None

(** val freeze : tstate -> tstate option **)

let freeze t =
  match t.t_frozen with
  | [] ->
    Some { t_buf = []; t_frozen = t.t_buf; t_parts = t.t_parts; t_next_id =
      t.t_next_id; t_next_off = t.t_next_off; t_cols = t.t_cols; t_files =
      t.t_files; t_meta = t.t_meta; t_dead = t.t_dead }
  | _ :: _ -> None

(** val find_file : coq_N -> (coq_N * row list) list -> row list option **)

let rec find_file id = function
| [] -> None
| p :: r -> let (k, v) = p in if N.eqb k id then Some v else find_file id r

(** val remove_file :
    coq_N -> (coq_N * row list) list -> (coq_N * row list) list **)

let remove_file id fs =
  filter (fun f -> negb (N.eqb (fst f) id)) fs

(** val store_file :
    coq_N -> row list -> (coq_N * row list) list -> (coq_N * row list) list **)

let store_file id rows fs =
  app (remove_file id fs) ((id, rows) :: [])

(** val delete_files :
    coq_N list -> (coq_N * row list) list -> (coq_N * row list) list option **)

let rec delete_files ids fs =
  match ids with
  | [] -> Some fs
  | id :: r ->
    (match find_file id fs with
     | Some _ -> delete_files r (remove_file id fs)
     | None -> None)

(** val batch_table : coq_N -> tstate -> tstate **)

let batch_table size t =
  match t.t_frozen with
  | [] -> t
  | r :: l ->
    let rows = r :: l in
    let p = { p_id = t.t_next_id; p_off = t.t_next_off; p_size = size;
      p_rows = rows }
    in
    { t_buf = t.t_buf; t_frozen = []; t_parts = (app t.t_parts (p :: []));
    t_next_id = (N.add t.t_next_id (Npos Coq_xH)); t_next_off =
    (N.add t.t_next_off (p_len p)); t_cols = t.t_cols; t_files =
    (store_file p.p_id rows t.t_files); t_meta = t.t_meta; t_dead = t.t_dead }

(** val u64_lim : coq_N **)

let u64_lim =
  Npos (Coq_xO (Coq_xO (Coq_xO (Coq_xO (Coq_xO (Coq_xO (Coq_xO (Coq_xO
    (Coq_xO (Coq_xO (Coq_xO (Coq_xO (Coq_xO (Coq_xO (Coq_xO (Coq_xO (Coq_xO
    (Coq_xO (Coq_xO (Coq_xO (Coq_xO (Coq_xO (Coq_xO (Coq_xO (Coq_xO (Coq_xO
    (Coq_xO (Coq_xO (Coq_xO (Coq_xO (Coq_xO (Coq_xO (Coq_xO (Coq_xO (Coq_xO
    (Coq_xO (Coq_xO (Coq_xO (Coq_xO (Coq_xO (Coq_xO (Coq_xO (Coq_xO (Coq_xO
    (Coq_xO (Coq_xO (Coq_xO (Coq_xO (Coq_xO (Coq_xO (Coq_xO (Coq_xO (Coq_xO
    (Coq_xO (Coq_xO (Coq_xO (Coq_xO (Coq_xO (Coq_xO (Coq_xO (Coq_xO (Coq_xO
    (Coq_xO (Coq_xO
    Coq_xH))))))))))))))))))))))))))))))))))))))))))))))))))))))))))))))))

type plan_result =
| PlanNone
| PlanFrom of nat
| PlanOverflow

(** val plan_aux : coq_N -> part list -> coq_N * plan_result **)

let rec plan_aux f = function
| [] -> (N0, PlanNone)
| p :: rest ->
  let (tot_rest, best) = plan_aux f rest in
  let tot = N.add p.p_size tot_rest in
  (match best with
   | PlanOverflow -> (tot, PlanOverflow)
   | _ ->
     if (||) (N.leb u64_lim tot) (N.leb u64_lim (N.mul p.p_size f))
     then (tot, PlanOverflow)
     else if N.ltb (N.mul p.p_size f) tot
          then (tot, (PlanFrom O))
          else (tot,
                 (match best with
                  | PlanFrom i -> PlanFrom (S i)
                  | _ -> best)))

(** val plan_compaction : coq_N -> part list -> plan_result **)

let plan_compaction f ps =
  snd (plan_aux f ps)

(** val restrict : name list -> row -> row **)

let restrict cols r =
  filter (fun kv -> mem_name (fst kv) cols) r

(** val cols_complete : name list -> row list -> bool **)

let cols_complete cols rows =
  forallb (fun r -> forallb (fun c -> mem_name c cols) (row_cols r)) rows

(** val col_nullable : row list -> name -> bool **)

let col_nullable rows c =
  (&&) (existsb (fun r -> is_null (get r c)) rows)
    (existsb (fun r -> negb (is_null (get r c))) rows)

(** val nullable_cols : name list -> row list -> name list **)

let nullable_cols cols rows =
  filter (col_nullable rows) cols

(** val filler : row list -> name -> cell **)

let rec filler rows c =
  match rows with
  | [] -> CNull
  | r :: rest ->
    (match get r c with
     | CNull -> filler rest c
     | CInt _ -> CInt Z0
     | CStr _ -> CStr []
     | CFloat _ -> CFloat N0)

(** val fill_row : row list -> name list -> row -> row **)

let fill_row rows cs r =
  fold_left (fun r0 c ->
    if is_null (get r0 c) then (c, (filler rows c)) :: r0 else r0) cs r

(** val lossy_part_rows : name list -> row list -> row list **)

let lossy_part_rows cols rows =
  match nullable_cols cols rows with
  | [] -> rows
  | n :: l -> map (fill_row rows (n :: l)) rows

(** val f1_free : name list -> part list -> bool **)

let f1_free cols ps =
  forallb (fun p ->
    match nullable_cols cols p.p_rows with
    | [] -> true
    | _ :: _ -> false) ps

(** val rebuild_rows : name list -> part list -> row list **)

let rebuild_rows cols ps =
  map (restrict cols) (flat_map (fun p -> lossy_part_rows cols p.p_rows) ps)

type known =
| KF1
| KF3

type 'a tres =
| TVal of 'a
| TKnown of known
| TPanic

(** val compact :
    bool -> coq_N -> nat -> name list -> tstate -> tstate tres **)

let compact guard size i cols t =
  let keep = firstn i t.t_parts in
  let merged = skipn i t.t_parts in
  (match merged with
   | [] -> TPanic
   | first :: _ ->
     if (&&) guard (negb (cols_complete cols (part_rows merged)))
     then TKnown KF3
     else if (&&) guard (negb (f1_free cols merged))
          then TKnown KF1
          else let rows = rebuild_rows cols merged in
               let p = { p_id = t.t_next_id; p_off = first.p_off; p_size =
                 size; p_rows = rows }
               in
               TVal { t_buf = t.t_buf; t_frozen = t.t_frozen; t_parts =
               (app keep (p :: [])); t_next_id =
               (N.add t.t_next_id (Npos Coq_xH)); t_next_off = t.t_next_off;
               t_cols = t.t_cols; t_files =
               (store_file p.p_id rows t.t_files); t_meta = t.t_meta;
               t_dead = (app t.t_dead (map (fun p0 -> p0.p_id) merged)) })

(** val publish_meta : tstate -> tstate **)

let publish_meta t =
  { t_buf = t.t_buf; t_frozen = t.t_frozen; t_parts = t.t_parts; t_next_id =
    t.t_next_id; t_next_off = t.t_next_off; t_cols = t.t_cols; t_files =
    t.t_files; t_meta = (map pmeta_of t.t_parts); t_dead = t.t_dead }

(** val delete_dead : tstate -> tstate option **)

let delete_dead t =
  match delete_files t.t_dead t.t_files with
  | Some fs ->
    Some { t_buf = t.t_buf; t_frozen = t.t_frozen; t_parts = t.t_parts;
      t_next_id = t.t_next_id; t_next_off = t.t_next_off; t_cols = t.t_cols;
      t_files = fs; t_meta = t.t_meta; t_dead = [] }
  | None -> None

(** val restore_parts :
    pmeta list -> (coq_N * row list) list -> part list option **)

let rec restore_parts ms fs =
  match ms with
  | [] -> Some []
  | m :: r ->
    (match find_file m.pm_id fs with
     | Some rows ->
       (match restore_parts r fs with
        | Some ps ->
          Some ({ p_id = m.pm_id; p_off = m.pm_off; p_size = m.pm_size;
            p_rows = rows } :: ps)
        | None -> None)
     | None -> None)

(** val max_next_id : pmeta list -> coq_N **)

let max_next_id ms =
  fold_left (fun a m -> N.max a (N.add m.pm_id (Npos Coq_xH))) ms N0

(** val max_next_off : pmeta list -> coq_N **)

let max_next_off ms =
  fold_left (fun a m -> N.max a (N.add m.pm_off m.pm_len)) ms N0

(** val restore : name list option -> tstate -> tstate option **)

let restore cols0 t =
  match restore_parts t.t_meta t.t_files with
  | Some ps ->
    Some { t_buf = []; t_frozen = []; t_parts = ps; t_next_id =
      (max_next_id t.t_meta); t_next_off = (max_next_off t.t_meta); t_cols =
      cols0; t_files = t.t_files; t_meta = t.t_meta; t_dead = t.t_dead }
  | None -> None

(** val empty_table : name list option -> tstate **)

let empty_table cols0 =
  { t_buf = []; t_frozen = []; t_parts = []; t_next_id = N0; t_next_off = N0;
    t_cols = cols0; t_files = []; t_meta = []; t_dead = [] }
