open BinNat
open BinNums
open Catalogue
open Datatypes
open List0
open TableSM

type cfg = { c_factor : coq_N; c_max_wal_files : coq_N;
             c_max_wal_bytes : coq_N }

type segment = { sg_bytes : coq_N; sg_data : batch }

type db = { tabs : (name * tstate) list; next_wal : coq_N; earliest : 
            coq_N; wal_size : coq_N; d_cursor : coq_N option;
            d_wal : (coq_N * segment) list; acked : batch list }

type site =
| SNonContiguous
| SMissingFile
| SCatalogue
| SOverflow
| SColsNotInit
| SFrozenNotEmpty
| SDeleteMissing
| SPlanRange
| SNoTable

type 'a res =
| Val of 'a
| Known of known
| Panic of site
| Blocked
| NotEnabled

val bind : 'a1 res -> ('a1 -> 'a2 res) -> 'a2 res

val of_opt : site -> 'a1 option -> 'a1 res

val lookup : name -> (name * tstate) list -> tstate option

val upd : name -> tstate -> (name * tstate) list -> (name * tstate) list

val create_if_empty :
  name -> name -> (name * tstate) list -> (name * tstate) list * bool

val content : db -> name -> row list

val ensure_cols : name -> (name * tstate) list -> (name * tstate) list res

val prepare :
  name -> batch -> (name * tstate) list -> name list -> batch ->
  (((name * tstate) list * name list) * batch) res

val apply_batch : batch -> (name * tstate) list -> (name * tstate) list res

val ingest : cfg -> batch -> coq_N -> db -> db res

type oracle = (name * (coq_N * coq_N)) list

val sizes_for : oracle -> name -> coq_N * coq_N

val map_tabs :
  site -> (tstate -> tstate option) -> (name * tstate) list ->
  (name * tstate) list res

val freeze_all : (name * tstate) list -> (name * tstate) list res

val lift_t : 'a1 tres -> 'a1 res

val flush_table :
  bool -> cfg -> oracle -> name -> (name * tstate) list -> (name * tstate)
  list res

val flush_tables :
  bool -> cfg -> oracle -> name list -> (name * tstate) list ->
  (name * tstate) list res

val delete_orphans : (name * tstate) list -> (name * tstate) list res

val find_seg : coq_N -> (coq_N * segment) list -> bool

val delete_segments :
  nat -> coq_N -> (coq_N * segment) list -> (coq_N * segment) list option

val bg_enabled : cfg -> db -> bool

val flush_mid : bool -> cfg -> oracle -> db -> (name * tstate) list res

val flush : bool -> cfg -> oracle -> db -> db res

val insert_seg :
  (coq_N * segment) -> (coq_N * segment) list -> (coq_N * segment) list

val sort_segs : (coq_N * segment) list -> (coq_N * segment) list

val restore_tables : name -> (name * tstate) list -> (name * tstate) list res

val replay_batch :
  name -> batch -> (name * tstate) list -> (name * tstate) list res

val replay :
  name -> (coq_N * segment) list -> coq_N option -> (name * tstate) list ->
  (name * tstate) list res

val recover : cfg -> db -> db res

type op =
| OIngest of batch * coq_N
| OFlush of bool * oracle
| OEvict
| ORestart

val step : bool -> cfg -> db -> op -> db res

val init : cfg -> db

type tobs = { o_name : name;
              o_parts : (((coq_N * coq_N) * coq_N) * coq_N) list;
              o_bufs : (coq_N * coq_N); o_next : (coq_N * coq_N);
              o_cols : name list option;
              o_meta : (((coq_N * coq_N) * coq_N) * coq_N) list;
              o_files : coq_N list }

val observe_table : (name * tstate) -> tobs

type obs = { ob_content : (name * cell list list) list;
             ob_tables : name list option;
             ob_columns : (name * name list option) list;
             ob_layout : tobs list; ob_mem : ((coq_N * coq_N) * coq_N);
             ob_cursor : coq_N option; ob_wal : coq_N list }

val observe : db -> (name * name list) list -> obs

type hop =
| HOp of op
| HObserve of (name * name list) list

type hout =
| HObs of obs
| HStop of unit res

val forget : 'a1 res -> unit res

val run_h : bool -> cfg -> hop list -> db -> hout list
