open Datatypes

val rev : 'a1 list -> 'a1 list

val map : ('a1 -> 'a2) -> 'a1 list -> 'a2 list

val flat_map : ('a1 -> 'a2 list) -> 'a1 list -> 'a2 list

val fold_left : ('a1 -> 'a2 -> 'a1) -> 'a2 list -> 'a1 -> 'a1

val fold_right : ('a2 -> 'a1 -> 'a1) -> 'a1 -> 'a2 list -> 'a1

val existsb : ('a1 -> bool) -> 'a1 list -> bool

val forallb : ('a1 -> bool) -> 'a1 list -> bool

val filter : ('a1 -> bool) -> 'a1 list -> 'a1 list

val firstn : nat -> 'a1 list -> 'a1 list

val skipn : nat -> 'a1 list -> 'a1 list
