open Datatypes

val add : nat -> nat -> nat
