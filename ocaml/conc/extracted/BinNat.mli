open BinNums
open BinPos

module N :
 sig
  val add : coq_N -> coq_N -> coq_N
 end
