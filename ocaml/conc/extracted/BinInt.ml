open BinNums
open BinPos
open Datatypes

module Z =
 struct
  (** val double : coq_Z -> coq_Z **)

  let double = function
  | Z0 -> Z0
  | Zpos p -> Zpos (Coq_xO p)
  | Zneg p -> Zneg (Coq_xO p)

  (** val succ_double : coq_Z -> coq_Z **)

  let succ_double = function
  | Z0 -> Zpos Coq_xH
  | Zpos p -> Zpos (Coq_xI p)
  | Zneg p -> Zneg (Pos.pred_double p)

  (** val pred_double : coq_Z -> coq_Z **)

  let pred_double = function
  | Z0 -> Zneg Coq_xH
  | Zpos p -> Zpos (Pos.pred_double p)
  | Zneg p -> Zneg (Coq_xI p)

  (** val pos_sub : positive -> positive -> coq_Z **)

  let rec pos_sub x y =
    match x with
    | Coq_xI p ->
      (match y with
       | Coq_xI q -> double (pos_sub p q)
       | Coq_xO q -> succ_double (pos_sub p q)
       | Coq_xH -> Zpos (Coq_xO p))
    | Coq_xO p ->
      (match y with
       | Coq_xI q -> pred_double (pos_sub p q)
       | Coq_xO q -> double (pos_sub p q)
       | Coq_xH -> Zpos (Pos.pred_double p))
    | Coq_xH ->
      (match y with
       | Coq_xI q -> Zneg (Coq_xO q)
       | Coq_xO q -> Zneg (Pos.pred_double q)
       | Coq_xH -> Z0)

  (** val add : coq_Z -> coq_Z -> coq_Z **)

  let add x y =
    match x with
    | Z0 -> y
    | Zpos x' ->
      (match y with
       | Z0 -> x
       | Zpos y' -> Zpos (Pos.add x' y')
       | Zneg y' -> pos_sub x' y')
    | Zneg x' ->
      (match y with
       | Z0 -> x
       | Zpos y' -> pos_sub y' x'
       | Zneg y' -> Zneg (Pos.add x' y'))

  (** val compare : coq_Z -> coq_Z -> comparison **)

  let compare x y =
    match x with
    | Z0 -> (match y with
             | Z0 -> Eq
             | Zpos _ -> Lt
             | Zneg _ -> Gt)
    | Zpos x' -> (match y with
                  | Zpos y' -> Pos.compare x' y'
                  | _ -> Gt)
    | Zneg x' ->
      (match y with
       | Zneg y' -> coq_CompOpp (Pos.compare x' y')
       | _ -> Lt)
 end
