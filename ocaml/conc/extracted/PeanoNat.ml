open Datatypes

module Nat =
 struct
  (** val eqb : nat -> nat -> bool **)

  let rec eqb n m =
    match n with
    | O -> (match m with
            | O -> true
            | S _ -> false)
    | S n' -> (match m with
               | O -> false
               | S m' -> eqb n' m')

  (** val leb : nat -> nat -> bool **)

  let rec leb n m =
    match n with
    | O -> true
    | S n' -> (match m with
               | O -> false
               | S m' -> leb n' m')

  (** val ltb : nat -> nat -> bool **)

  let ltb n m =
    leb (S n) m
 end
