open BinNums
open Datatypes
open List
open PeanoNat

type thr =
| TI of nat
| TF
| TQ of nat

(** val thr_eqb : thr -> thr -> bool **)

let thr_eqb a b =
  match a with
  | TI n -> (match b with
             | TI m -> Nat.eqb n m
             | _ -> false)
  | TF -> (match b with
           | TF -> true
           | _ -> false)
  | TQ n -> (match b with
             | TQ m -> Nat.eqb n m
             | _ -> false)

type lk =
| KWal
| KFrozen
| KPW
| KPR
| KBuffer

type lockop =
| LNone
| Acq of lk
| Rel of lk

type locks = { h_wal : thr list; h_frozen : thr list; h_pw : thr list;
               h_pr : thr list; h_buffer : thr list }

(** val holders : locks -> lk -> thr list **)

let holders ls = function
| KWal -> ls.h_wal
| KFrozen -> ls.h_frozen
| KPW -> ls.h_pw
| KPR -> ls.h_pr
| KBuffer -> ls.h_buffer

(** val set_holders : locks -> lk -> thr list -> locks **)

let set_holders ls k v =
  match k with
  | KWal ->
    { h_wal = v; h_frozen = ls.h_frozen; h_pw = ls.h_pw; h_pr = ls.h_pr;
      h_buffer = ls.h_buffer }
  | KFrozen ->
    { h_wal = ls.h_wal; h_frozen = v; h_pw = ls.h_pw; h_pr = ls.h_pr;
      h_buffer = ls.h_buffer }
  | KPW ->
    { h_wal = ls.h_wal; h_frozen = ls.h_frozen; h_pw = v; h_pr = ls.h_pr;
      h_buffer = ls.h_buffer }
  | KPR ->
    { h_wal = ls.h_wal; h_frozen = ls.h_frozen; h_pw = ls.h_pw; h_pr = v;
      h_buffer = ls.h_buffer }
  | KBuffer ->
    { h_wal = ls.h_wal; h_frozen = ls.h_frozen; h_pw = ls.h_pw; h_pr =
      ls.h_pr; h_buffer = v }

(** val is_nil : 'a1 list -> bool **)

let is_nil = function
| [] -> true
| _ :: _ -> false

(** val can_acquire : locks -> lk -> bool **)

let can_acquire ls k = match k with
| KPW -> (&&) (is_nil ls.h_pw) (is_nil ls.h_pr)
| KPR -> is_nil ls.h_pw
| _ -> is_nil (holders ls k)

(** val remove_thr : thr -> thr list -> thr list **)

let rec remove_thr t = function
| [] -> []
| x :: r -> if thr_eqb t x then remove_thr t r else x :: (remove_thr t r)

(** val mem_thr : thr -> thr list -> bool **)

let rec mem_thr t = function
| [] -> false
| x :: r -> (||) (thr_eqb t x) (mem_thr t r)

(** val apply_lockop : thr -> lockop -> locks -> locks option **)

let apply_lockop t lo ls =
  match lo with
  | LNone -> Some ls
  | Acq k ->
    if can_acquire ls k
    then Some (set_holders ls k (t :: (holders ls k)))
    else None
  | Rel k ->
    if mem_thr t (holders ls k)
    then Some (set_holders ls k (remove_thr t (holders ls k)))
    else None

type data = { log : coq_N list list; acked : nat; obuf : coq_N list list;
              fbuf : coq_N list list; parts : (nat * coq_N list list) list;
              next_pid : nat; swaps : (nat list * nat) list }

type snapshot = { s_pids : nat list; s_batches : coq_N list list }

(** val part_batches : (nat * coq_N list list) list -> coq_N list list **)

let part_batches ps =
  concat (map snd ps)

(** val view : data -> snapshot **)

let view d =
  { s_pids = (map fst d.parts); s_batches =
    (app (part_batches d.parts) (app d.fbuf d.obuf)) }

(** val snap_rows : snapshot -> coq_N list **)

let snap_rows s =
  concat s.s_batches

(** val mem_nat : nat -> nat list -> bool **)

let rec mem_nat x = function
| [] -> false
| y :: r -> (||) (Nat.eqb x y) (mem_nat x r)

(** val lookup_part :
    nat -> (nat * coq_N list list) list -> coq_N list list option **)

let rec lookup_part i = function
| [] -> None
| p :: r -> let (j, b) = p in if Nat.eqb i j then Some b else lookup_part i r

(** val lookup_all :
    nat list -> (nat * coq_N list list) list -> coq_N list list option **)

let rec lookup_all ids ps =
  match ids with
  | [] -> Some []
  | i :: r ->
    (match lookup_part i ps with
     | Some b ->
       (match lookup_all r ps with
        | Some rest -> Some (app b rest)
        | None -> None)
     | None -> None)

type ipc =
| I_idle
| I_wal of coq_N list
| I_buf of coq_N list
| I_pushed_l
| I_pushed

type fpc =
| F_idle
| F_wal
| F_fz1
| F_fz2
| F_fz3
| F_fz4
| F_fz5
| F_batch
| F_b1
| F_b_none
| F_b2 of coq_N list list * nat
| F_b3 of coq_N list list * nat
| F_b4
| F_b5
| F_plan
| F_p1
| F_c0 of nat list * nat
| F_cr of nat list * nat
| F_cb of nat list * nat * coq_N list list
| F_c1 of nat list * nat * coq_N list list
| F_c2
| F_panic

type qpc =
| Q_idle
| Q_start of nat
| Q_l1 of nat
| Q_l2 of nat
| Q_l3 of nat
| Q_c of nat * snapshot
| Q_r1 of nat * snapshot
| Q_r2 of nat * snapshot
| Q_done of nat * snapshot

type act =
| AIStart of coq_N list
| AILockBuf
| AIPush
| AIUnlockBuf
| AIAck
| AFStart
| AFzLockFrozen
| AFzLockBuf
| AFzSwap
| AFzUnlockBuf
| AFzUnlockFrozen
| AFUnlockWal
| ABLockFrozen
| ABTake
| ABReturnNone
| ABLockParts
| ABInsert
| ABUnlockParts
| ABUnlockFrozen
| APlanLock
| APlan of nat option
| ACRead
| ACReadDone
| ACWrite
| ACSwap
| ACUnlock
| AQStart
| AQLockFrozen
| AQLockParts
| AQLockBuf
| AQCopy
| AQUnlockBuf
| AQUnlockParts
| AQUnlockFrozen
| AQReset

(** val itrans : ipc -> act -> data -> ((lockop * ipc) * data) option **)

let itrans p a d =
  match p with
  | I_idle ->
    (match a with
     | AIStart b -> Some (((Acq KWal), (I_wal b)), d)
     | _ -> None)
  | I_wal b ->
    (match a with
     | AILockBuf -> Some (((Acq KBuffer), (I_buf b)), d)
     | _ -> None)
  | I_buf b ->
    (match a with
     | AIPush ->
       Some ((LNone, I_pushed_l), { log = (app d.log (b :: [])); acked =
         d.acked; obuf = (app d.obuf (b :: [])); fbuf = d.fbuf; parts =
         d.parts; next_pid = d.next_pid; swaps = d.swaps })
     | _ -> None)
  | I_pushed_l ->
    (match a with
     | AIUnlockBuf -> Some (((Rel KBuffer), I_pushed), d)
     | _ -> None)
  | I_pushed ->
    (match a with
     | AIAck ->
       Some (((Rel KWal), I_idle), { log = d.log; acked = (S d.acked); obuf =
         d.obuf; fbuf = d.fbuf; parts = d.parts; next_pid = d.next_pid;
         swaps = d.swaps })
     | _ -> None)

(** val ftrans : fpc -> act -> data -> ((lockop * fpc) * data) option **)

let ftrans p a d =
  match p with
  | F_idle ->
    (match a with
     | AFStart -> Some (((Acq KWal), F_wal), d)
     | _ -> None)
  | F_wal ->
    (match a with
     | AFzLockFrozen -> Some (((Acq KFrozen), F_fz1), d)
     | _ -> None)
  | F_fz1 ->
    (match a with
     | AFzLockBuf -> Some (((Acq KBuffer), F_fz2), d)
     | _ -> None)
  | F_fz2 ->
    (match a with
     | AFzSwap ->
       if is_nil d.fbuf
       then Some ((LNone, F_fz3), { log = d.log; acked = d.acked; obuf =
              d.fbuf; fbuf = d.obuf; parts = d.parts; next_pid = d.next_pid;
              swaps = d.swaps })
       else Some ((LNone, F_panic), d)
     | _ -> None)
  | F_fz3 ->
    (match a with
     | AFzUnlockBuf -> Some (((Rel KBuffer), F_fz4), d)
     | _ -> None)
  | F_fz4 ->
    (match a with
     | AFzUnlockFrozen -> Some (((Rel KFrozen), F_fz5), d)
     | _ -> None)
  | F_fz5 ->
    (match a with
     | AFUnlockWal -> Some (((Rel KWal), F_batch), d)
     | _ -> None)
  | F_batch ->
    (match a with
     | ABLockFrozen -> Some (((Acq KFrozen), F_b1), d)
     | _ -> None)
  | F_b1 ->
    (match a with
     | ABTake ->
       if is_nil d.fbuf
       then Some ((LNone, F_b_none), d)
       else Some ((LNone, (F_b2 (d.fbuf, d.next_pid))), { log = d.log;
              acked = d.acked; obuf = d.obuf; fbuf = []; parts = d.parts;
              next_pid = (S d.next_pid); swaps = d.swaps })
     | _ -> None)
  | F_b_none ->
    (match a with
     | ABReturnNone -> Some (((Rel KFrozen), F_plan), d)
     | _ -> None)
  | F_b2 (tk, i) ->
    (match a with
     | ABLockParts -> Some (((Acq KPW), (F_b3 (tk, i))), d)
     | _ -> None)
  | F_b3 (tk, i) ->
    (match a with
     | ABInsert ->
       Some ((LNone, F_b4), { log = d.log; acked = d.acked; obuf = d.obuf;
         fbuf = d.fbuf; parts = (app d.parts ((i, tk) :: [])); next_pid =
         d.next_pid; swaps = d.swaps })
     | _ -> None)
  | F_b4 ->
    (match a with
     | ABUnlockParts -> Some (((Rel KPW), F_b5), d)
     | _ -> None)
  | F_b5 ->
    (match a with
     | ABUnlockFrozen -> Some (((Rel KFrozen), F_plan), d)
     | _ -> None)
  | F_plan ->
    (match a with
     | APlanLock -> Some (((Acq KPR), F_p1), d)
     | _ -> None)
  | F_p1 ->
    (match a with
     | APlan choice ->
       (match choice with
        | Some i ->
          if Nat.ltb i (length d.parts)
          then Some (((Rel KPR), (F_c0 ((map fst (skipn i d.parts)),
                 d.next_pid))), { log = d.log; acked = d.acked; obuf =
                 d.obuf; fbuf = d.fbuf; parts = d.parts; next_pid = (S
                 d.next_pid); swaps = d.swaps })
          else None
        | None -> Some (((Rel KPR), F_idle), d))
     | _ -> None)
  | F_c0 (olds, n) ->
    (match a with
     | ACRead -> Some (((Acq KPR), (F_cr (olds, n))), d)
     | _ -> None)
  | F_cr (olds, n) ->
    (match a with
     | ACReadDone ->
       (match lookup_all olds d.parts with
        | Some m -> Some (((Rel KPR), (F_cb (olds, n, m))), d)
        | None -> Some (((Rel KPR), F_panic), d))
     | _ -> None)
  | F_cb (olds, n, m) ->
    (match a with
     | ACWrite -> Some (((Acq KPW), (F_c1 (olds, n, m))), d)
     | _ -> None)
  | F_c1 (olds, n, m) ->
    (match a with
     | ACSwap ->
       Some ((LNone, F_c2), { log = d.log; acked = d.acked; obuf = d.obuf;
         fbuf = d.fbuf; parts =
         (app (filter (fun p0 -> negb (mem_nat (fst p0) olds)) d.parts) ((n,
           m) :: [])); next_pid = d.next_pid; swaps = ((olds,
         n) :: d.swaps) })
     | _ -> None)
  | F_c2 ->
    (match a with
     | ACUnlock -> Some (((Rel KPW), F_idle), d)
     | _ -> None)
  | F_panic -> None

(** val qtrans : qpc -> act -> data -> ((lockop * qpc) * data) option **)

let qtrans p a d =
  match p with
  | Q_idle ->
    (match a with
     | AQStart -> Some ((LNone, (Q_start d.acked)), d)
     | _ -> None)
  | Q_start k ->
    (match a with
     | AQLockFrozen -> Some (((Acq KFrozen), (Q_l1 k)), d)
     | _ -> None)
  | Q_l1 k ->
    (match a with
     | AQLockParts -> Some (((Acq KPR), (Q_l2 k)), d)
     | _ -> None)
  | Q_l2 k ->
    (match a with
     | AQLockBuf -> Some (((Acq KBuffer), (Q_l3 k)), d)
     | _ -> None)
  | Q_l3 k ->
    (match a with
     | AQCopy -> Some ((LNone, (Q_c (k, (view d)))), d)
     | _ -> None)
  | Q_c (k, s) ->
    (match a with
     | AQUnlockBuf -> Some (((Rel KBuffer), (Q_r1 (k, s))), d)
     | _ -> None)
  | Q_r1 (k, s) ->
    (match a with
     | AQUnlockParts -> Some (((Rel KPR), (Q_r2 (k, s))), d)
     | _ -> None)
  | Q_r2 (k, s) ->
    (match a with
     | AQUnlockFrozen -> Some (((Rel KFrozen), (Q_done (k, s))), d)
     | _ -> None)
  | Q_done (_, _) ->
    (match a with
     | AQReset -> Some ((LNone, Q_idle), d)
     | _ -> None)

type state = { dat : data; lks : locks; ing : ipc list; fl : fpc;
               qs : qpc list }

(** val upd : nat -> 'a1 -> 'a1 list -> 'a1 list **)

let rec upd n x = function
| [] -> []
| y :: r -> (match n with
             | O -> x :: r
             | S m -> y :: (upd m x r))

(** val step : thr -> act -> state -> state option **)

let step t a st =
  match t with
  | TI n ->
    (match nth_error st.ing n with
     | Some p ->
       (match itrans p a st.dat with
        | Some p0 ->
          let (p1, d') = p0 in
          let (lo, p') = p1 in
          (match apply_lockop t lo st.lks with
           | Some l' ->
             Some { dat = d'; lks = l'; ing = (upd n p' st.ing); fl = st.fl;
               qs = st.qs }
           | None -> None)
        | None -> None)
     | None -> None)
  | TF ->
    (match ftrans st.fl a st.dat with
     | Some p ->
       let (p0, d') = p in
       let (lo, p') = p0 in
       (match apply_lockop t lo st.lks with
        | Some l' ->
          Some { dat = d'; lks = l'; ing = st.ing; fl = p'; qs = st.qs }
        | None -> None)
     | None -> None)
  | TQ n ->
    (match nth_error st.qs n with
     | Some p ->
       (match qtrans p a st.dat with
        | Some p0 ->
          let (p1, d') = p0 in
          let (lo, p') = p1 in
          (match apply_lockop t lo st.lks with
           | Some l' ->
             Some { dat = d'; lks = l'; ing = st.ing; fl = st.fl; qs =
               (upd n p' st.qs) }
           | None -> None)
        | None -> None)
     | None -> None)

(** val init_data : data **)

let init_data =
  { log = []; acked = O; obuf = []; fbuf = []; parts = []; next_pid = O;
    swaps = [] }

(** val init_locks : locks **)

let init_locks =
  { h_wal = []; h_frozen = []; h_pw = []; h_pr = []; h_buffer = [] }

(** val init : nat -> nat -> state **)

let init ni nq =
  { dat = init_data; lks = init_locks; ing = (repeat I_idle ni); fl = F_idle;
    qs = (repeat Q_idle nq) }

(** val run : (thr * act) list -> state -> state option **)

let rec run sched st =
  match sched with
  | [] -> Some st
  | p :: r ->
    let (t, a) = p in
    (match step t a st with
     | Some st' -> run r st'
     | None -> None)

(** val run_trace : (thr * act) list -> state -> nat -> state * nat option **)

let rec run_trace sched st done0 =
  match sched with
  | [] -> (st, None)
  | p :: r ->
    let (t, a) = p in
    (match step t a st with
     | Some st' -> run_trace r st' (S done0)
     | None -> (st, (Some done0)))
