open BinNums
open Datatypes

module Pos :
 sig
  val succ : positive -> positive

  val add : positive -> positive -> positive

  val add_carry : positive -> positive -> positive

  val pred_double : positive -> positive

  val compare_cont : comparison -> positive -> positive -> comparison

  val compare : positive -> positive -> comparison
 end
