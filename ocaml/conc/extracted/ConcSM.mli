open BinNums
open Datatypes
open List
open PeanoNat

type thr =
| TI of nat
| TF
| TQ of nat

val thr_eqb : thr -> thr -> bool

type lk =
| KWal
| KFrozen
| KPW
| KPR
| KBuffer

type lockop =
| LNone
| Acq of lk
| Rel of lk

type locks = { h_wal : thr list; h_frozen : thr list; h_pw : thr list;
               h_pr : thr list; h_buffer : thr list }

val holders : locks -> lk -> thr list

val set_holders : locks -> lk -> thr list -> locks

val is_nil : 'a1 list -> bool

val can_acquire : locks -> lk -> bool

val remove_thr : thr -> thr list -> thr list

val mem_thr : thr -> thr list -> bool

val apply_lockop : thr -> lockop -> locks -> locks option

type data = { log : coq_N list list; acked : nat; obuf : coq_N list list;
              fbuf : coq_N list list; parts : (nat * coq_N list list) list;
              next_pid : nat; swaps : (nat list * nat) list }

type snapshot = { s_pids : nat list; s_batches : coq_N list list }

val part_batches : (nat * coq_N list list) list -> coq_N list list

val view : data -> snapshot

val snap_rows : snapshot -> coq_N list

val mem_nat : nat -> nat list -> bool

val lookup_part :
  nat -> (nat * coq_N list list) list -> coq_N list list option

val lookup_all :
  nat list -> (nat * coq_N list list) list -> coq_N list list option

type ipc =
| I_idle
| I_wal of coq_N list
| I_buf of coq_N list
| I_pushed_l
| I_pushed

type fpc =
| F_idle
| F_wal
| F_fz1
| F_fz2
| F_fz3
| F_fz4
| F_fz5
| F_batch
| F_b1
| F_b_none
| F_b2 of coq_N list list * nat
| F_b3 of coq_N list list * nat
| F_b4
| F_b5
| F_plan
| F_p1
| F_c0 of nat list * nat
| F_cr of nat list * nat
| F_cb of nat list * nat * coq_N list list
| F_c1 of nat list * nat * coq_N list list
| F_c2
| F_panic

type qpc =
| Q_idle
| Q_start of nat
| Q_l1 of nat
| Q_l2 of nat
| Q_l3 of nat
| Q_c of nat * snapshot
| Q_r1 of nat * snapshot
| Q_r2 of nat * snapshot
| Q_done of nat * snapshot

type act =
| AIStart of coq_N list
| AILockBuf
| AIPush
| AIUnlockBuf
| AIAck
| AFStart
| AFzLockFrozen
| AFzLockBuf
| AFzSwap
| AFzUnlockBuf
| AFzUnlockFrozen
| AFUnlockWal
| ABLockFrozen
| ABTake
| ABReturnNone
| ABLockParts
| ABInsert
| ABUnlockParts
| ABUnlockFrozen
| APlanLock
| APlan of nat option
| ACRead
| ACReadDone
| ACWrite
| ACSwap
| ACUnlock
| AQStart
| AQLockFrozen
| AQLockParts
| AQLockBuf
| AQCopy
| AQUnlockBuf
| AQUnlockParts
| AQUnlockFrozen
| AQReset

val itrans : ipc -> act -> data -> ((lockop * ipc) * data) option

val ftrans : fpc -> act -> data -> ((lockop * fpc) * data) option

val qtrans : qpc -> act -> data -> ((lockop * qpc) * data) option

type state = { dat : data; lks : locks; ing : ipc list; fl : fpc;
               qs : qpc list }

val upd : nat -> 'a1 -> 'a1 list -> 'a1 list

val step : thr -> act -> state -> state option

val init_data : data

val init_locks : locks

val init : nat -> nat -> state

val run : (thr * act) list -> state -> state option

val run_trace : (thr * act) list -> state -> nat -> state * nat option
