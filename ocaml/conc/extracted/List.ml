open Datatypes

(** val nth_error : 'a1 list -> nat -> 'a1 option **)

let rec nth_error l = function
| O -> (match l with
        | [] -> None
        | x :: _ -> Some x)
| S n0 -> (match l with
           | [] -> None
           | _ :: l0 -> nth_error l0 n0)

(** val rev : 'a1 list -> 'a1 list **)

let rec rev = function
| [] -> []
| x :: l' -> app (rev l') (x :: [])

(** val concat : 'a1 list list -> 'a1 list **)

let rec concat = function
| [] -> []
| x :: l0 -> app x (concat l0)

(** val map : ('a1 -> 'a2) -> 'a1 list -> 'a2 list **)

let rec map f = function
| [] -> []
| a :: t -> (f a) :: (map f t)

(** val filter : ('a1 -> bool) -> 'a1 list -> 'a1 list **)

let rec filter f = function
| [] -> []
| x :: l0 -> if f x then x :: (filter f l0) else filter f l0

(** val skipn : nat -> 'a1 list -> 'a1 list **)

let rec skipn n l =
  match n with
  | O -> l
  | S n0 -> (match l with
             | [] -> []
             | _ :: l0 -> skipn n0 l0)

(** val repeat : 'a1 -> nat -> 'a1 list **)

let rec repeat x = function
| O -> []
| S k -> x :: (repeat x k)
