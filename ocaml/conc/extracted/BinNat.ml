open BinNums
open BinPos

module N =
 struct
  (** val add : coq_N -> coq_N -> coq_N **)

  let add n m =
    match n with
    | N0 -> m
    | Npos p -> (match m with
                 | N0 -> n
                 | Npos q -> Npos (Pos.add p q))
 end
