open BinNums
open BinPos
open Datatypes

module Z :
 sig
  val double : coq_Z -> coq_Z

  val succ_double : coq_Z -> coq_Z

  val pred_double : coq_Z -> coq_Z

  val pos_sub : positive -> positive -> coq_Z

  val add : coq_Z -> coq_Z -> coq_Z

  val compare : coq_Z -> coq_Z -> comparison
 end
