open BinNums
open ConcSM
open Datatypes
open List

type ev =
| EIWal of nat * coq_N list
| EILocked of nat
| EIPushed of nat
| EIAck of nat
| EFWal
| EFzFrozen
| EFzLocked
| EFzSwapped
| EFFrozenAll
| EBFrozen
| EBTaken
| EBWrite
| EBInserted
| EBRegistered
| EPlanned of nat option
| ECParts
| ECWrite
| ECSwapped
| EQStart of nat
| EQLocked of nat
| EQCopied of nat

val acts_of : ev -> state -> (thr * act) list

type replay_result =
| RDone of (nat * snapshot) list * state
| RStuck of nat

val replay : ev list -> state -> nat -> (nat * snapshot) list -> replay_result

val replay_from_init : nat -> nat -> ev list -> replay_result

val layout : state -> ((nat * nat) list * nat) * nat
