open BinNums
open Datatypes

module Pos =
 struct
  (** val succ : positive -> positive **)

  let rec succ = function
  | Coq_xI p -> Coq_xO (succ p)
  | Coq_xO p -> Coq_xI p
  | Coq_xH -> Coq_xO Coq_xH

  (** val add : positive -> positive -> positive **)

  let rec add x y =
    match x with
    | Coq_xI p ->
      (match y with
       | Coq_xI q -> Coq_xO (add_carry p q)
       | Coq_xO q -> Coq_xI (add p q)
       | Coq_xH -> Coq_xO (succ p))
    | Coq_xO p ->
      (match y with
       | Coq_xI q -> Coq_xI (add p q)
       | Coq_xO q -> Coq_xO (add p q)
       | Coq_xH -> Coq_xI p)
    | Coq_xH ->
      (match y with
       | Coq_xI q -> Coq_xO (succ q)
       | Coq_xO q -> Coq_xI q
       | Coq_xH -> Coq_xO Coq_xH)

  (** val add_carry : positive -> positive -> positive **)

  and add_carry x y =
    match x with
    | Coq_xI p ->
      (match y with
       | Coq_xI q -> Coq_xI (add_carry p q)
       | Coq_xO q -> Coq_xO (add_carry p q)
       | Coq_xH -> Coq_xI (succ p))
    | Coq_xO p ->
      (match y with
       | Coq_xI q -> Coq_xO (add_carry p q)
       | Coq_xO q -> Coq_xI (add p q)
       | Coq_xH -> Coq_xO (succ p))
    | Coq_xH ->
      (match y with
       | Coq_xI q -> Coq_xI (succ q)
       | Coq_xO q -> Coq_xO (succ q)
       | Coq_xH -> Coq_xI Coq_xH)

  (** val pred_double : positive -> positive **)

  let rec pred_double = function
  | Coq_xI p -> Coq_xI (Coq_xO p)
  | Coq_xO p -> Coq_xI (pred_double p)
  | Coq_xH -> Coq_xH

  (** val compare_cont : comparison -> positive -> positive -> comparison **)

  let rec compare_cont r x y =
    match x with
    | Coq_xI p ->
      (match y with
       | Coq_xI q -> compare_cont r p q
       | Coq_xO q -> compare_cont Gt p q
       | Coq_xH -> Gt)
    | Coq_xO p ->
      (match y with
       | Coq_xI q -> compare_cont Lt p q
       | Coq_xO q -> compare_cont r p q
       | Coq_xH -> Gt)
    | Coq_xH -> (match y with
                 | Coq_xH -> r
                 | _ -> Lt)

  (** val compare : positive -> positive -> comparison **)

  let compare =
    compare_cont Eq
 end
