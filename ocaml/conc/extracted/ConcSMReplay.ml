open BinNums
open ConcSM
open Datatypes
open List

type ev =
| EIWal of nat * coq_N list
| EILocked of nat
| EIPushed of nat
| EIAck of nat
| EFWal
| EFzFrozen
| EFzLocked
| EFzSwapped
| EFFrozenAll
| EBFrozen
| EBTaken
| EBWrite
| EBInserted
| EBRegistered
| EPlanned of nat option
| ECParts
| ECWrite
| ECSwapped
| EQStart of nat
| EQLocked of nat
| EQCopied of nat

(** val acts_of : ev -> state -> (thr * act) list **)

let acts_of e st =
  match e with
  | EIWal (n, b) -> ((TI n), (AIStart b)) :: []
  | EILocked n -> ((TI n), AILockBuf) :: []
  | EIPushed n -> ((TI n), AIPush) :: (((TI n), AIUnlockBuf) :: [])
  | EIAck n -> ((TI n), AIAck) :: []
  | EFWal -> (TF, AFStart) :: []
  | EFzFrozen -> (TF, AFzLockFrozen) :: []
  | EFzLocked -> (TF, AFzLockBuf) :: []
  | EFzSwapped ->
    (TF, AFzSwap) :: ((TF, AFzUnlockBuf) :: ((TF, AFzUnlockFrozen) :: []))
  | EFFrozenAll -> (TF, AFUnlockWal) :: []
  | EBFrozen ->
    if is_nil st.dat.fbuf
    then (TF, ABLockFrozen) :: ((TF, ABTake) :: ((TF, ABReturnNone) :: []))
    else (TF, ABLockFrozen) :: []
  | EBTaken -> (TF, ABTake) :: []
  | EBWrite -> (TF, ABLockParts) :: []
  | EBInserted -> (TF, ABInsert) :: ((TF, ABUnlockParts) :: [])
  | EBRegistered -> (TF, ABUnlockFrozen) :: []
  | EPlanned c -> (TF, APlanLock) :: ((TF, (APlan c)) :: [])
  | ECParts -> (TF, ACRead) :: ((TF, ACReadDone) :: [])
  | ECWrite -> (TF, ACWrite) :: []
  | ECSwapped -> (TF, ACSwap) :: ((TF, ACUnlock) :: [])
  | EQStart n ->
    (match nth_error st.qs n with
     | Some q ->
       (match q with
        | Q_done (_, _) -> ((TQ n), AQReset) :: (((TQ n), AQStart) :: [])
        | _ -> ((TQ n), AQStart) :: [])
     | None -> ((TQ n), AQStart) :: [])
  | EQLocked n ->
    ((TQ n), AQLockFrozen) :: (((TQ n), AQLockParts) :: (((TQ n),
      AQLockBuf) :: []))
  | EQCopied n ->
    ((TQ n), AQCopy) :: (((TQ n), AQUnlockBuf) :: (((TQ n),
      AQUnlockParts) :: (((TQ n), AQUnlockFrozen) :: [])))

type replay_result =
| RDone of (nat * snapshot) list * state
| RStuck of nat

(** val replay :
    ev list -> state -> nat -> (nat * snapshot) list -> replay_result **)

let rec replay evs st idx acc =
  match evs with
  | [] -> RDone ((rev acc), st)
  | e :: r ->
    (match run (acts_of e st) st with
     | Some st' ->
       let acc' =
         match e with
         | EQCopied n ->
           (match nth_error st'.qs n with
            | Some q ->
              (match q with
               | Q_done (_, s) -> (n, s) :: acc
               | _ -> acc)
            | None -> acc)
         | _ -> acc
       in
       replay r st' (S idx) acc'
     | None -> RStuck idx)

(** val replay_from_init : nat -> nat -> ev list -> replay_result **)

let replay_from_init ni nq evs =
  replay evs (init ni nq) O []

(** val layout : state -> ((nat * nat) list * nat) * nat **)

let layout st =
  (((map (fun p -> ((fst p), (length (concat (snd p))))) st.dat.parts),
    (length (concat st.dat.fbuf))), (length (concat st.dat.obuf)))
