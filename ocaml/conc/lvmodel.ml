(* lvmodel (conc cluster): replay of observed sync-point schedules on the interleaving model *)
open Sx
open Conv

let nat x = nat_of_int (to_int x)

let ev_of (x : Sx.t) : ConcSMReplay.ev =
  match x with
  | L [A "iwal"; n; rows] -> ConcSMReplay.EIWal (nat n, to_list to_n rows)
  | L [A "ilocked"; n] -> ConcSMReplay.EILocked (nat n)
  | L [A "ipushed"; n] -> ConcSMReplay.EIPushed (nat n)
  | L [A "iack"; n] -> ConcSMReplay.EIAck (nat n)
  | A "fwal" -> ConcSMReplay.EFWal
  | A "fzfrozen" -> ConcSMReplay.EFzFrozen
  | A "fzlocked" -> ConcSMReplay.EFzLocked
  | A "fzswapped" -> ConcSMReplay.EFzSwapped
  | A "ffrozenall" -> ConcSMReplay.EFFrozenAll
  | A "bfrozen" -> ConcSMReplay.EBFrozen
  | A "btaken" -> ConcSMReplay.EBTaken
  | A "bwrite" -> ConcSMReplay.EBWrite
  | A "binserted" -> ConcSMReplay.EBInserted
  | A "bregistered" -> ConcSMReplay.EBRegistered
  | L [A "planned"; c] -> ConcSMReplay.EPlanned (to_opt nat c)
  | A "cparts" -> ConcSMReplay.ECParts
  | A "cwrite" -> ConcSMReplay.ECWrite
  | A "cswapped" -> ConcSMReplay.ECSwapped
  | L [A "qstart"; n] -> ConcSMReplay.EQStart (nat n)
  | L [A "qlocked"; n] -> ConcSMReplay.EQLocked (nat n)
  | L [A "qcopied"; n; _] -> ConcSMReplay.EQCopied (nat n)
  | _ -> raise (Conv ("bad event " ^ Sx.to_string x))

let sorted_rows (s : ConcSM.snapshot) : Sx.t =
  let zs = Stdlib.List.map z_of_n (ConcSM.snap_rows s) in
  L (Stdlib.List.map (fun z -> A (Z.to_string z)) (Stdlib.List.sort Z.compare zs))

let run (entry : string) (inp : Sx.t) : Sx.t =
  match entry, inp with
  | "conc_replay", L [ni; nq; evs] ->
      (* how each completed snapshot is observed by the harness: its sorted row ids, or only their number *)
      let kinds = Stdlib.List.filter_map (fun e -> match e with
        | L [A "qcopied"; _; A k] -> Some k | _ -> None) (lst evs) in
      (match ConcSMReplay.replay_from_init (nat ni) (nat nq) (to_list ev_of evs) with
       | ConcSMReplay.RStuck i -> L [A "stuck"; of_int (int_of_nat i)]
       | ConcSMReplay.RDone (res, st) ->
           let ((ps, fz), op) = ConcSMReplay.layout st in
           let show (n, s) k =
             if k = "count" then L [of_int (int_of_nat n); of_int (Stdlib.List.length (ConcSM.snap_rows s))]
             else L [of_int (int_of_nat n); sorted_rows s] in
           L [A "ok";
              L (Stdlib.List.map2 show res kinds);
              L [A "layout";
                 L (Stdlib.List.map (fun (i, l) -> L [of_int (int_of_nat i); of_int (int_of_nat l)]) ps);
                 of_int (int_of_nat fz); of_int (int_of_nat op)]])
  | _ -> raise (Conv ("unknown entry or bad input shape: " ^ entry))

let () = Loop.main run
