open Datatypes

val add : nat -> nat -> nat

val sub : nat -> nat -> nat

val eqb : nat -> nat -> bool

val leb : nat -> nat -> bool

val ltb : nat -> nat -> bool
