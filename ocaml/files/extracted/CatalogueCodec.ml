open BinNat
open BinNums
open Datatypes
open List
open Routing

type sub_meta = { sm_size : coq_N; sm_key : str; sm_last : str }

type part_meta = { pm_id : coq_N; pm_table : str; pm_offset : coq_N;
                   pm_len : coq_N; pm_subs : sub_meta list;
                   pm_index : (str * coq_N) list }

type meta = { ms_next_wal : coq_N; ms_cursor : coq_N;
              ms_parts : part_meta list }

type sub_msg = { w_size : coq_N; w_key : str; w_last : str;
                 w_columns : str list; w_interned : coq_N list }

type part_msg = { w_id : coq_N; w_table : str; w_offset : coq_N;
                  w_len : coq_N; w_subs : sub_msg list }

type db_msg = { w_next_wal : coq_N; w_strings : str list;
                w_parts : part_msg list }

(** val ser_sub : sub_meta -> sub_msg **)

let ser_sub s =
  { w_size = s.sm_size; w_key = s.sm_key; w_last = s.sm_last; w_columns = [];
    w_interned = [] }

(** val ser_part : part_meta -> part_msg **)

let ser_part p =
  { w_id = p.pm_id; w_table = p.pm_table; w_offset = p.pm_offset; w_len =
    p.pm_len; w_subs = (map ser_sub p.pm_subs) }

(** val serialize : meta -> db_msg **)

let serialize m =
  { w_next_wal = m.ms_cursor; w_strings = []; w_parts =
    (map ser_part m.ms_parts) }

(** val max_str : str -> str -> str **)

let max_str acc c =
  if str_ltb acc c then c else acc

(** val interned_last : str list -> coq_N list -> str -> str option **)

let rec interned_last strings ids acc =
  match ids with
  | [] -> Some acc
  | i :: r ->
    (match nth_error strings (N.to_nat i) with
     | Some c -> interned_last strings r (max_str acc c)
     | None -> None)

(** val de_last : str list -> sub_msg -> str option **)

let de_last strings s =
  match interned_last strings s.w_interned (fold_left max_str s.w_columns []) with
  | Some legacy ->
    Some (match s.w_last with
          | [] -> legacy
          | _ :: _ -> s.w_last)
  | None -> None

(** val idx_insert :
    str -> coq_N -> (str * coq_N) list -> (str * coq_N) list **)

let rec idx_insert k v l = match l with
| [] -> (k, v) :: []
| p :: r ->
  let (k', v') = p in
  (match lex_cmp k k' with
   | Eq -> (k, v) :: r
   | Lt -> (k, v) :: l
   | Gt -> (k', v') :: (idx_insert k v r))

(** val build_index_from :
    coq_N -> sub_meta list -> (str * coq_N) list -> (str * coq_N) list **)

let rec build_index_from i subs acc =
  match subs with
  | [] -> acc
  | s :: r ->
    build_index_from (N.add i (Npos Coq_xH)) r (idx_insert s.sm_last i acc)

(** val build_index : sub_meta list -> (str * coq_N) list **)

let build_index subs =
  build_index_from N0 subs []

(** val de_subs : str list -> sub_msg list -> sub_meta list option **)

let rec de_subs strings = function
| [] -> Some []
| s :: r ->
  (match de_last strings s with
   | Some l ->
     (match de_subs strings r with
      | Some r' ->
        Some ({ sm_size = s.w_size; sm_key = s.w_key; sm_last = l } :: r')
      | None -> None)
   | None -> None)

(** val de_part : str list -> part_msg -> part_meta option **)

let de_part strings p =
  match de_subs strings p.w_subs with
  | Some subs ->
    Some { pm_id = p.w_id; pm_table = p.w_table; pm_offset = p.w_offset;
      pm_len = p.w_len; pm_subs = subs; pm_index = (build_index subs) }
  | None -> None

(** val same_key : part_meta -> part_meta -> bool **)

let same_key a b =
  (&&) (str_eqb a.pm_table b.pm_table) (N.eqb a.pm_id b.pm_id)

(** val put : part_meta -> part_meta list -> part_meta list **)

let rec put p = function
| [] -> p :: []
| q :: r -> if same_key p q then p :: r else q :: (put p r)

type de_result =
| DeOk of meta
| DePanic

(** val de_parts :
    str list -> part_msg list -> part_meta list -> part_meta list option **)

let rec de_parts strings ps acc =
  match ps with
  | [] -> Some acc
  | p :: r ->
    (match de_part strings p with
     | Some q -> de_parts strings r (put q acc)
     | None -> None)

(** val deserialize : db_msg -> de_result **)

let deserialize g =
  match de_parts g.w_strings g.w_parts [] with
  | Some ps ->
    DeOk { ms_next_wal = g.w_next_wal; ms_cursor = g.w_next_wal; ms_parts =
      ps }
  | None -> DePanic
