open BinNat
open BinNums
open Datatypes
open List
open Nat

val be : nat -> coq_N -> coq_N list

val be_decode : coq_N list -> coq_N

val u64_max : coq_N

type load_result =
| Loaded of coq_N list
| Rejected

val store : (coq_N list -> coq_N list) -> coq_N list -> coq_N list

val load : (coq_N list -> coq_N list) -> coq_N list -> load_result
