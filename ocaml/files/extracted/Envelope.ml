open BinNat
open BinNums
open Datatypes
open List
open Nat

(** val be : nat -> coq_N -> coq_N list **)

let rec be k n =
  match k with
  | O -> []
  | S k' ->
    app
      (be k'
        (N.div n (Npos (Coq_xO (Coq_xO (Coq_xO (Coq_xO (Coq_xO (Coq_xO
          (Coq_xO (Coq_xO Coq_xH)))))))))))
      ((N.modulo n (Npos (Coq_xO (Coq_xO (Coq_xO (Coq_xO (Coq_xO (Coq_xO
         (Coq_xO (Coq_xO Coq_xH)))))))))) :: [])

(** val be_decode : coq_N list -> coq_N **)

let be_decode l =
  fold_left (fun acc b ->
    N.add
      (N.mul acc (Npos (Coq_xO (Coq_xO (Coq_xO (Coq_xO (Coq_xO (Coq_xO
        (Coq_xO (Coq_xO Coq_xH)))))))))) b) l N0

(** val u64_max : coq_N **)

let u64_max =
  Npos (Coq_xI (Coq_xI (Coq_xI (Coq_xI (Coq_xI (Coq_xI (Coq_xI (Coq_xI
    (Coq_xI (Coq_xI (Coq_xI (Coq_xI (Coq_xI (Coq_xI (Coq_xI (Coq_xI (Coq_xI
    (Coq_xI (Coq_xI (Coq_xI (Coq_xI (Coq_xI (Coq_xI (Coq_xI (Coq_xI (Coq_xI
    (Coq_xI (Coq_xI (Coq_xI (Coq_xI (Coq_xI (Coq_xI (Coq_xI (Coq_xI (Coq_xI
    (Coq_xI (Coq_xI (Coq_xI (Coq_xI (Coq_xI (Coq_xI (Coq_xI (Coq_xI (Coq_xI
    (Coq_xI (Coq_xI (Coq_xI (Coq_xI (Coq_xI (Coq_xI (Coq_xI (Coq_xI (Coq_xI
    (Coq_xI (Coq_xI (Coq_xI (Coq_xI (Coq_xI (Coq_xI (Coq_xI (Coq_xI (Coq_xI
    (Coq_xI
    Coq_xH)))))))))))))))))))))))))))))))))))))))))))))))))))))))))))))))

type load_result =
| Loaded of coq_N list
| Rejected

(** val store : (coq_N list -> coq_N list) -> coq_N list -> coq_N list **)

let store h p =
  app (be (S (S (S (S (S (S (S (S O)))))))) N0)
    (app (be (S (S (S (S (S (S (S (S O)))))))) (N.of_nat (length p)))
      (app (h p) p))

(** val load : (coq_N list -> coq_N list) -> coq_N list -> load_result **)

let load h b =
  if N.ltb (N.of_nat (length b)) (Npos (Coq_xO (Coq_xO (Coq_xO (Coq_xO
       (Coq_xI Coq_xH))))))
  then Rejected
  else let version = be_decode (firstn (S (S (S (S (S (S (S (S O)))))))) b) in
       if negb (N.eqb version N0)
       then Rejected
       else let data_len =
              be_decode
                (firstn (S (S (S (S (S (S (S (S O))))))))
                  (skipn (S (S (S (S (S (S (S (S O)))))))) b))
            in
            if N.ltb u64_max
                 (N.add (Npos (Coq_xO (Coq_xO (Coq_xO (Coq_xO (Coq_xI
                   Coq_xH)))))) data_len)
            then Rejected
            else if negb
                      (N.eqb (N.of_nat (length b))
                        (N.add (Npos (Coq_xO (Coq_xO (Coq_xO (Coq_xO (Coq_xI
                          Coq_xH)))))) data_len))
                 then Rejected
                 else let checksum =
                        firstn (S (S (S (S (S (S (S (S (S (S (S (S (S (S (S
                          (S (S (S (S (S (S (S (S (S (S (S (S (S (S (S (S (S
                          O))))))))))))))))))))))))))))))))
                          (skipn (S (S (S (S (S (S (S (S (S (S (S (S (S (S (S
                            (S O)))))))))))))))) b)
                      in
                      let payload =
                        skipn (S (S (S (S (S (S (S (S (S (S (S (S (S (S (S (S
                          (S (S (S (S (S (S (S (S (S (S (S (S (S (S (S (S (S
                          (S (S (S (S (S (S (S (S (S (S (S (S (S (S (S
                          O)))))))))))))))))))))))))))))))))))))))))))))))) b
                      in
                      if (&&)
                           (forallb (fun xy -> N.eqb (fst xy) (snd xy))
                             (combine checksum (h payload)))
                           (eqb (length checksum) (length (h payload)))
                      then Loaded payload
                      else Rejected
