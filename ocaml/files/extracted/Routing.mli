open BinNat
open BinNums
open Datatypes
open List
open Nat

type str = coq_N list

val lex_cmp : str -> str -> comparison

val str_ltb : str -> str -> bool

val str_leb : str -> str -> bool

val str_eqb : str -> str -> bool

val c_dash : coq_N

val c_dot : coq_N

val c_underscore : coq_N

val is_ascii_alnum : coq_N -> bool

val hex_digit : coq_N -> coq_N

val hex : coq_N list -> str

val dec_digits : nat -> coq_N -> str -> str

val decimal : coq_N -> str

val pad0 : nat -> str -> str

val fmt05 : coq_N -> str

val partition_filename : coq_N -> str -> str

val is_filesystem_safe :
  (coq_N -> bool) -> (coq_N -> bool) -> (str -> coq_N) -> str -> bool

val trim_start : str -> str

val sanitize_table_name : (str -> str) -> (str -> coq_N list) -> str -> str

type col = str * coq_N

val insert_sorted : col -> col list -> col list

val sort_cols : col list -> col list

val group_loop :
  coq_N -> col list -> col list -> coq_N -> (col list * coq_N) list

type subpart = { sp_key : str; sp_last : str; sp_size : coq_N;
                 sp_cols : str list }

val last_name : col list -> str

val max_name : col list -> str

val subpartition :
  (coq_N -> bool) -> (coq_N -> bool) -> (str -> coq_N) -> (str -> coq_N list)
  -> coq_N -> col list -> subpart list

val route_scan :
  str -> subpart list -> coq_N -> (str * coq_N) option -> (str * coq_N) option

val route : subpart list -> str -> coq_N option

val route_key : subpart list -> str -> str option
