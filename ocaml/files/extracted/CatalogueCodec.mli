open BinNat
open BinNums
open Datatypes
open List
open Routing

type sub_meta = { sm_size : coq_N; sm_key : str; sm_last : str }

type part_meta = { pm_id : coq_N; pm_table : str; pm_offset : coq_N;
                   pm_len : coq_N; pm_subs : sub_meta list;
                   pm_index : (str * coq_N) list }

type meta = { ms_next_wal : coq_N; ms_cursor : coq_N;
              ms_parts : part_meta list }

type sub_msg = { w_size : coq_N; w_key : str; w_last : str;
                 w_columns : str list; w_interned : coq_N list }

type part_msg = { w_id : coq_N; w_table : str; w_offset : coq_N;
                  w_len : coq_N; w_subs : sub_msg list }

type db_msg = { w_next_wal : coq_N; w_strings : str list;
                w_parts : part_msg list }

val ser_sub : sub_meta -> sub_msg

val ser_part : part_meta -> part_msg

val serialize : meta -> db_msg

val max_str : str -> str -> str

val interned_last : str list -> coq_N list -> str -> str option

val de_last : str list -> sub_msg -> str option

val idx_insert : str -> coq_N -> (str * coq_N) list -> (str * coq_N) list

val build_index_from :
  coq_N -> sub_meta list -> (str * coq_N) list -> (str * coq_N) list

val build_index : sub_meta list -> (str * coq_N) list

val de_subs : str list -> sub_msg list -> sub_meta list option

val de_part : str list -> part_msg -> part_meta option

val same_key : part_meta -> part_meta -> bool

val put : part_meta -> part_meta list -> part_meta list

type de_result =
| DeOk of meta
| DePanic

val de_parts :
  str list -> part_msg list -> part_meta list -> part_meta list option

val deserialize : db_msg -> de_result
