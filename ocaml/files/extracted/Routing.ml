open BinNat
open BinNums
open Datatypes
open List
open Nat

type str = coq_N list

(** val lex_cmp : str -> str -> comparison **)

let rec lex_cmp a b =
  match a with
  | [] -> (match b with
           | [] -> Eq
           | _ :: _ -> Lt)
  | x :: a' ->
    (match b with
     | [] -> Gt
     | y :: b' -> (match N.compare x y with
                   | Eq -> lex_cmp a' b'
                   | x0 -> x0))

(** val str_ltb : str -> str -> bool **)

let str_ltb a b =
  match lex_cmp a b with
  | Lt -> true
  | _ -> false

(** val str_leb : str -> str -> bool **)

let str_leb a b =
  match lex_cmp a b with
  | Gt -> false
  | _ -> true

(** val str_eqb : str -> str -> bool **)

let str_eqb a b =
  match lex_cmp a b with
  | Eq -> true
  | _ -> false

(** val c_dash : coq_N **)

let c_dash =
  Npos (Coq_xI (Coq_xO (Coq_xI (Coq_xI (Coq_xO Coq_xH)))))

(** val c_dot : coq_N **)

let c_dot =
  Npos (Coq_xO (Coq_xI (Coq_xI (Coq_xI (Coq_xO Coq_xH)))))

(** val c_underscore : coq_N **)

let c_underscore =
  Npos (Coq_xI (Coq_xI (Coq_xI (Coq_xI (Coq_xI (Coq_xO Coq_xH))))))

(** val is_ascii_alnum : coq_N -> bool **)

let is_ascii_alnum c =
  (||)
    ((||)
      ((&&)
        (N.leb (Npos (Coq_xO (Coq_xO (Coq_xO (Coq_xO (Coq_xI Coq_xH)))))) c)
        (N.leb c (Npos (Coq_xI (Coq_xO (Coq_xO (Coq_xI (Coq_xI Coq_xH))))))))
      ((&&)
        (N.leb (Npos (Coq_xI (Coq_xO (Coq_xO (Coq_xO (Coq_xO (Coq_xO
          Coq_xH))))))) c)
        (N.leb c (Npos (Coq_xO (Coq_xI (Coq_xO (Coq_xI (Coq_xI (Coq_xO
          Coq_xH))))))))))
    ((&&)
      (N.leb (Npos (Coq_xI (Coq_xO (Coq_xO (Coq_xO (Coq_xO (Coq_xI
        Coq_xH))))))) c)
      (N.leb c (Npos (Coq_xO (Coq_xI (Coq_xO (Coq_xI (Coq_xI (Coq_xI
        Coq_xH)))))))))

(** val hex_digit : coq_N -> coq_N **)

let hex_digit n =
  if N.ltb n (Npos (Coq_xO (Coq_xI (Coq_xO Coq_xH))))
  then N.add (Npos (Coq_xO (Coq_xO (Coq_xO (Coq_xO (Coq_xI Coq_xH)))))) n
  else N.add (Npos (Coq_xI (Coq_xI (Coq_xI (Coq_xO (Coq_xI (Coq_xO
         Coq_xH))))))) n

(** val hex : coq_N list -> str **)

let rec hex = function
| [] -> []
| b :: r ->
  (hex_digit (N.div b (Npos (Coq_xO (Coq_xO (Coq_xO (Coq_xO Coq_xH))))))) :: (
    (hex_digit (N.modulo b (Npos (Coq_xO (Coq_xO (Coq_xO (Coq_xO Coq_xH))))))) :: 
    (hex r))

(** val dec_digits : nat -> coq_N -> str -> str **)

let rec dec_digits fuel n acc =
  match fuel with
  | O -> acc
  | S f ->
    if N.ltb n (Npos (Coq_xO (Coq_xI (Coq_xO Coq_xH))))
    then (N.add (Npos (Coq_xO (Coq_xO (Coq_xO (Coq_xO (Coq_xI Coq_xH)))))) n) :: acc
    else dec_digits f (N.div n (Npos (Coq_xO (Coq_xI (Coq_xO Coq_xH)))))
           ((N.add (Npos (Coq_xO (Coq_xO (Coq_xO (Coq_xO (Coq_xI Coq_xH))))))
              (N.modulo n (Npos (Coq_xO (Coq_xI (Coq_xO Coq_xH)))))) :: acc)

(** val decimal : coq_N -> str **)

let decimal n =
  dec_digits (S (S (S (S (S (S (S (S (S (S (S (S (S (S (S (S (S (S (S (S (S
    (S (S (S (S O))))))))))))))))))))))))) n []

(** val pad0 : nat -> str -> str **)

let rec pad0 k s =
  match k with
  | O -> s
  | S k' ->
    (Npos (Coq_xO (Coq_xO (Coq_xO (Coq_xO (Coq_xI Coq_xH)))))) :: (pad0 k' s)

(** val fmt05 : coq_N -> str **)

let fmt05 id =
  let d = decimal id in pad0 (sub (S (S (S (S (S O))))) (length d)) d

(** val partition_filename : coq_N -> str -> str **)

let partition_filename id key =
  app (fmt05 id)
    (app (c_underscore :: [])
      (app key ((Npos (Coq_xO (Coq_xI (Coq_xI (Coq_xI (Coq_xO
        Coq_xH)))))) :: ((Npos (Coq_xO (Coq_xO (Coq_xO (Coq_xO (Coq_xI
        (Coq_xI Coq_xH))))))) :: ((Npos (Coq_xI (Coq_xO (Coq_xO (Coq_xO
        (Coq_xO (Coq_xI Coq_xH))))))) :: ((Npos (Coq_xO (Coq_xI (Coq_xO
        (Coq_xO (Coq_xI (Coq_xI Coq_xH))))))) :: ((Npos (Coq_xO (Coq_xO
        (Coq_xI (Coq_xO (Coq_xI (Coq_xI Coq_xH))))))) :: [])))))))

(** val is_filesystem_safe :
    (coq_N -> bool) -> (coq_N -> bool) -> (str -> coq_N) -> str -> bool **)

let is_filesystem_safe u_alnum u_lower utf8_len name =
  (&&)
    (N.leb (utf8_len name) (Npos (Coq_xO (Coq_xO (Coq_xO (Coq_xO (Coq_xO
      (Coq_xO Coq_xH))))))))
    (forallb (fun c ->
      (||) ((&&) (u_alnum c) (u_lower c)) (N.eqb c c_underscore)) name)

(** val trim_start : str -> str **)

let rec trim_start s = match s with
| [] -> []
| c :: r -> if (||) (N.eqb c c_dash) (N.eqb c c_dot) then trim_start r else s

(** val sanitize_table_name :
    (str -> str) -> (str -> coq_N list) -> str -> str **)

let sanitize_table_name to_lowercase sha256 table =
  let name = to_lowercase table in
  let name0 =
    filter (fun c ->
      (||)
        ((||) ((||) (is_ascii_alnum c) (N.eqb c c_underscore))
          (N.eqb c c_dash)) (N.eqb c c_dot)) name
  in
  let name1 = trim_start name0 in
  let name2 =
    if ltb (S (S (S (S (S (S (S (S (S (S (S (S (S (S (S (S (S (S (S (S (S (S
         (S (S (S (S (S (S (S (S (S (S (S (S (S (S (S (S (S (S (S (S (S (S (S
         (S (S (S (S (S (S (S (S (S (S (S (S (S (S (S (S (S (S (S (S (S (S (S
         (S (S (S (S (S (S (S (S (S (S (S (S (S (S (S (S (S (S (S (S (S (S (S
         (S (S (S (S (S (S (S (S (S (S (S (S (S (S (S (S (S (S (S (S (S (S (S
         (S (S (S (S (S (S (S (S (S (S (S (S (S (S (S (S (S (S (S (S (S (S (S
         (S (S (S (S (S (S (S (S (S (S (S (S (S (S (S (S (S (S (S (S (S (S (S
         (S (S (S (S (S (S (S (S (S (S (S (S (S (S (S (S (S (S (S (S (S (S (S
         (S (S (S (S (S (S
         O)))))))))))))))))))))))))))))))))))))))))))))))))))))))))))))))))))))))))))))))))))))))))))))))))))))))))))))))))))))))))))))))))))))))))))))))))))))))))))))))))))))))))))))))))))))))))))))
         (length name1)
    then firstn (S (S (S (S (S (S (S (S (S (S (S (S (S (S (S (S (S (S (S (S
           (S (S (S (S (S (S (S (S (S (S (S (S (S (S (S (S (S (S (S (S (S (S
           (S (S (S (S (S (S (S (S (S (S (S (S (S (S (S (S (S (S (S (S (S (S
           (S (S (S (S (S (S (S (S (S (S (S (S (S (S (S (S (S (S (S (S (S (S
           (S (S (S (S (S (S (S (S (S (S (S (S (S (S (S (S (S (S (S (S (S (S
           (S (S (S (S (S (S (S (S (S (S (S (S (S (S (S (S (S (S (S (S (S (S
           (S (S (S (S (S (S (S (S (S (S (S (S (S (S (S (S (S (S (S (S (S (S
           (S (S (S (S (S (S (S (S (S (S (S (S (S (S (S (S (S (S (S (S (S (S
           (S (S (S (S (S (S (S (S (S (S (S (S (S (S (S
           O)))))))))))))))))))))))))))))))))))))))))))))))))))))))))))))))))))))))))))))))))))))))))))))))))))))))))))))))))))))))))))))))))))))))))))))))))))))))))))))))))))))))))))))))))))))))))))))
           name1
    else name1
  in
  if str_eqb name2 table
  then name2
  else app (c_dash :: [])
         (app name2 (app (c_dash :: []) (hex (sha256 table))))

type col = str * coq_N

(** val insert_sorted : col -> col list -> col list **)

let rec insert_sorted c l = match l with
| [] -> c :: []
| d :: r ->
  if str_leb (fst c) (fst d) then c :: l else d :: (insert_sorted c r)

(** val sort_cols : col list -> col list **)

let sort_cols l =
  fold_right insert_sorted [] l

(** val group_loop :
    coq_N -> col list -> col list -> coq_N -> (col list * coq_N) list **)

let rec group_loop max_bytes cols cur bytes =
  match cols with
  | [] -> ((rev cur), bytes) :: []
  | c :: r ->
    if (&&) (N.ltb max_bytes (N.add bytes (snd c)))
         (negb (match cur with
                | [] -> true
                | _ :: _ -> false))
    then ((rev cur), bytes) :: (group_loop max_bytes r (c :: []) (snd c))
    else group_loop max_bytes r (c :: cur) (N.add bytes (snd c))

type subpart = { sp_key : str; sp_last : str; sp_size : coq_N;
                 sp_cols : str list }

(** val last_name : col list -> str **)

let last_name g =
  fst (last g ([], N0))

(** val max_name : col list -> str **)

let max_name cols =
  fold_left (fun acc c -> if str_ltb acc (fst c) then fst c else acc) cols []

(** val subpartition :
    (coq_N -> bool) -> (coq_N -> bool) -> (str -> coq_N) -> (str -> coq_N
    list) -> coq_N -> col list -> subpart list **)

let subpartition u_alnum u_lower utf8_len sha256 max_bytes columns =
  let sorted = sort_cols columns in
  let groups = group_loop max_bytes sorted [] N0 in
  (match groups with
   | [] ->
     map (fun gs ->
       let last0 = last_name (fst gs) in
       { sp_key =
       (if is_filesystem_safe u_alnum u_lower utf8_len last0
        then last0
        else hex (sha256 last0)); sp_last = last0; sp_size = (snd gs);
       sp_cols = (map fst (fst gs)) }) groups
   | p :: l ->
     let (g, size) = p in
     (match l with
      | [] ->
        { sp_key = ((Npos (Coq_xI (Coq_xO (Coq_xO (Coq_xO (Coq_xO (Coq_xI
          Coq_xH))))))) :: ((Npos (Coq_xO (Coq_xO (Coq_xI (Coq_xI (Coq_xO
          (Coq_xI Coq_xH))))))) :: ((Npos (Coq_xO (Coq_xO (Coq_xI (Coq_xI
          (Coq_xO (Coq_xI Coq_xH))))))) :: []))); sp_last =
          (max_name sorted); sp_size = size; sp_cols = (map fst g) } :: []
      | _ :: _ ->
        map (fun gs ->
          let last0 = last_name (fst gs) in
          { sp_key =
          (if is_filesystem_safe u_alnum u_lower utf8_len last0
           then last0
           else hex (sha256 last0)); sp_last = last0; sp_size = (snd gs);
          sp_cols = (map fst (fst gs)) }) groups))

(** val route_scan :
    str -> subpart list -> coq_N -> (str * coq_N) option -> (str * coq_N)
    option **)

let rec route_scan name subs idx best =
  match subs with
  | [] -> best
  | s :: r ->
    let best' =
      if str_leb name s.sp_last
      then (match best with
            | Some p ->
              let (k, _) = p in
              if str_leb s.sp_last k then Some (s.sp_last, idx) else best
            | None -> Some (s.sp_last, idx))
      else best
    in
    route_scan name r (N.add idx (Npos Coq_xH)) best'

(** val route : subpart list -> str -> coq_N option **)

let route subs name =
  match route_scan name subs N0 None with
  | Some p -> let (_, i) = p in Some i
  | None -> None

(** val route_key : subpart list -> str -> str option **)

let route_key subs name =
  match route subs name with
  | Some i ->
    (match nth_error subs (N.to_nat i) with
     | Some s -> Some s.sp_key
     | None -> None)
  | None -> None
