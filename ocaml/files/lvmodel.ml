(* lvmodel (files cluster): envelope, naming, routing *)
open Sx
open Conv

let to_chars x = to_list to_n x
let of_chars l = of_list of_n l

(* UTF-8 length of a list of scalar values *)
let utf8_len (s : BinNums.coq_N list) : BinNums.coq_N =
  let n = Stdlib.List.fold_left (fun acc c ->
    let c = Z.to_int (z_of_n c) in
    acc + (if c < 0x80 then 1 else if c < 0x800 then 2 else if c < 0x10000 then 3 else 4)) 0 s in
  n_of_z (Z.of_int n)

let run (entry : string) (inp : Sx.t) : Sx.t =
  match entry, inp with
  | "envelope_store", L [payload; digest] ->
      let d = to_bytes digest in
      of_bytes (Envelope.store (fun _ -> d) (to_bytes payload))
  | "envelope_load", L [blob; digest] ->
      let d = to_bytes digest in
      (match Envelope.load (fun _ -> d) (to_bytes blob) with
       | Envelope.Loaded p -> L [A "loaded"; of_bytes p]
       | Envelope.Rejected -> A "rejected")
  | "sanitize", L [table; lowered; digest] ->
      let lw = to_chars lowered and d = to_bytes digest in
      of_chars (Routing.sanitize_table_name (fun _ -> lw) (fun _ -> d) (to_chars table))
  | "filename", L [id; key] -> of_chars (Routing.partition_filename (to_n id) (to_chars key))
  | "routing", L [limit; cols; queries; table; digests] ->
      let tbl = Stdlib.List.map (fun x -> match x with
        | L [c; a; l] -> (to_n c, (to_bool a, to_bool l))
        | _ -> raise (Conv "char table")) (lst table) in
      let flag f c = match Stdlib.List.assoc_opt c tbl with Some p -> f p | None -> false in
      let dg = Stdlib.List.map (fun x -> match x with
        | L [n; d] -> (to_chars n, to_bytes d)
        | _ -> raise (Conv "digests")) (lst digests) in
      let sha n = match Stdlib.List.assoc_opt n dg with Some d -> d | None -> raise (Conv "missing digest") in
      let columns = Stdlib.List.map (fun x -> match x with
        | L [n; s] -> (to_chars n, to_n s)
        | _ -> raise (Conv "cols")) (lst cols) in
      let subs = Routing.subpartition (flag fst) (flag snd) utf8_len sha (to_n limit) columns in
      L [ of_list (fun s -> L [of_chars s.Routing.sp_key; of_chars s.Routing.sp_last; of_n s.Routing.sp_size;
                              of_list of_chars s.Routing.sp_cols]) subs;
          of_list (fun q -> of_opt of_chars (Routing.route_key subs (to_chars q))) (lst queries) ]
  | _ -> raise (Conv ("unknown entry or bad input shape: " ^ entry))

let () = Loop.main run
