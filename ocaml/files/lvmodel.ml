(* lvmodel (files cluster): envelope, naming, routing *)
open Sx
open Conv

let to_chars x = to_list to_n x
let of_chars l = of_list of_n l

(* UTF-8 length of a list of scalar values *)
let utf8_len (s : BinNums.coq_N list) : BinNums.coq_N =
  let n = Stdlib.List.fold_left (fun acc c ->
    let c = Z.to_int (z_of_n c) in
    acc + (if c < 0x80 then 1 else if c < 0x800 then 2 else if c < 0x10000 then 3 else 4)) 0 s in
  n_of_z (Z.of_int n)

let run (entry : string) (inp : Sx.t) : Sx.t =
  match entry, inp with
  | "envelope_store", L [payload; digest] ->
      let d = to_bytes digest in
      of_bytes (Envelope.store (fun _ -> d) (to_bytes payload))
  | "envelope_load", L [blob; digest] ->
      let d = to_bytes digest in
      (match Envelope.load (fun _ -> d) (to_bytes blob) with
       | Envelope.Loaded p -> L [A "loaded"; of_bytes p]
       | Envelope.Rejected -> A "rejected")
  | "sanitize", L [table; lowered; digest] ->
      let lw = to_chars lowered and d = to_bytes digest in
      of_chars (Routing.sanitize_table_name (fun _ -> lw) (fun _ -> d) (to_chars table))
  | "filename", L [id; key] -> of_chars (Routing.partition_filename (to_n id) (to_chars key))
  | "routing", L [limit; cols; queries; table; digests] ->
      let tbl = Stdlib.List.map (fun x -> match x with
        | L [c; a; l] -> (to_n c, (to_bool a, to_bool l))
        | _ -> raise (Conv "char table")) (lst table) in
      let flag f c = match Stdlib.List.assoc_opt c tbl with Some p -> f p | None -> false in
      let dg = Stdlib.List.map (fun x -> match x with
        | L [n; d] -> (to_chars n, to_bytes d)
        | _ -> raise (Conv "digests")) (lst digests) in
      let sha n = match Stdlib.List.assoc_opt n dg with Some d -> d | None -> raise (Conv "missing digest") in
      let columns = Stdlib.List.map (fun x -> match x with
        | L [n; s] -> (to_chars n, to_n s)
        | _ -> raise (Conv "cols")) (lst cols) in
      let subs = Routing.subpartition (flag fst) (flag snd) utf8_len sha (to_n limit) columns in
      L [ of_list (fun s -> L [of_chars s.Routing.sp_key; of_chars s.Routing.sp_last; of_n s.Routing.sp_size;
                              of_list of_chars s.Routing.sp_cols]) subs;
          of_list (fun q -> of_opt of_chars (Routing.route_key subs (to_chars q))) (lst queries) ]
  | "cat_ser", L [next; cursor; parts] ->
      let sub x = match x with
        | L [size; key; last] -> { CatalogueCodec.sm_size = to_n size; sm_key = to_bytes key; sm_last = to_bytes last }
        | _ -> raise (Conv "sub_meta") in
      let part x = match x with
        | L [table; id; off; len; subs] ->
            { CatalogueCodec.pm_id = to_n id; pm_table = to_bytes table; pm_offset = to_n off; pm_len = to_n len;
              pm_subs = to_list sub subs; pm_index = [] }
        | _ -> raise (Conv "part_meta") in
      let m = { CatalogueCodec.ms_next_wal = to_n next; ms_cursor = to_n cursor; ms_parts = to_list part parts } in
      let g = CatalogueCodec.serialize m in
      L [ of_n g.CatalogueCodec.w_next_wal; of_list of_bytes g.CatalogueCodec.w_strings;
          of_list (fun p -> L [of_bytes p.CatalogueCodec.w_table; of_n p.CatalogueCodec.w_id; of_n p.CatalogueCodec.w_offset;
                               of_n p.CatalogueCodec.w_len;
                               of_list (fun s -> L [of_n s.CatalogueCodec.w_size; of_bytes s.CatalogueCodec.w_key;
                                                    of_bytes s.CatalogueCodec.w_last; of_list of_bytes s.CatalogueCodec.w_columns;
                                                    of_list of_n s.CatalogueCodec.w_interned]) p.CatalogueCodec.w_subs])
            g.CatalogueCodec.w_parts ]
  | "cat_de", L [next; strings; parts] ->
      let sub x = match x with
        | L [size; key; last; cols; interned] ->
            { CatalogueCodec.w_size = to_n size; w_key = to_bytes key; w_last = to_bytes last;
              w_columns = to_list to_bytes cols; w_interned = to_list to_n interned }
        | _ -> raise (Conv "sub_msg") in
      let part x = match x with
        | L [table; id; off; len; subs] ->
            { CatalogueCodec.w_id = to_n id; w_table = to_bytes table; w_offset = to_n off; w_len = to_n len;
              w_subs = to_list sub subs }
        | _ -> raise (Conv "part_msg") in
      let g = { CatalogueCodec.w_next_wal = to_n next; w_strings = to_list to_bytes strings; w_parts = to_list part parts } in
      (match CatalogueCodec.deserialize g with
       | CatalogueCodec.DePanic -> A "panic"
       | CatalogueCodec.DeOk m ->
           let part_sx p =
             L [of_bytes p.CatalogueCodec.pm_table; of_n p.CatalogueCodec.pm_id; of_n p.CatalogueCodec.pm_offset;
                of_n p.CatalogueCodec.pm_len;
                of_list (fun s -> L [of_n s.CatalogueCodec.sm_size; of_bytes s.CatalogueCodec.sm_key; of_bytes s.CatalogueCodec.sm_last])
                  p.CatalogueCodec.pm_subs;
                of_list (fun (k, v) -> L [of_bytes k; of_n v]) p.CatalogueCodec.pm_index] in
           (* canonical order for the comparison: by (table bytes, id), as the harness prints the HashMap *)
           let key p = (atom (of_bytes p.CatalogueCodec.pm_table), z_of_n p.CatalogueCodec.pm_id) in
           let sorted = Stdlib.List.sort (fun a b ->
             let (ta, ia) = key a and (tb, ib) = key b in
             let c = compare ta tb in if c <> 0 then c else Z.compare ia ib) m.CatalogueCodec.ms_parts in
           L [A "ok"; of_n m.CatalogueCodec.ms_next_wal; of_n m.CatalogueCodec.ms_cursor; of_list part_sx sorted])
  | _ -> raise (Conv ("unknown entry or bad input shape: " ^ entry))

let () = Loop.main run
