//! C14: the catalogue codec against its field-level model (Model/CatalogueCodec.v).
//!  * `c14_catalogue_ser`: a catalogue built through the real constructors is serialised by the real
//!    writer; the bytes are taken apart with the capnp reader into ALL message fields (the legacy ones
//!    too) and must equal what the model's `serialize` says the message contains.
//!  * `c14_catalogue_de`: messages assembled field by field with the capnp builder -- current format,
//!    v0 (column names), v1 (string table + interned ids), duplicated keys, ids outside the string
//!    table -- are read by the real `MetaStore::deserialize`; the resulting catalogue (or panic) must
//!    equal the model's `deserialize`.
use locustdb::verif::disk_store::meta_store::{MetaStore, PartitionMetadata, SubpartitionMetadata};
use locustdb_serialization::{dbmeta_capnp, default_reader_options};
use lvharness::rng::Rng;
use lvharness::suite::{panic_message, Case, Outcome, Suite};
use lvharness::sx::Sx;
use std::collections::BTreeMap;
use std::sync::atomic::AtomicBool;
use std::sync::Arc;

pub fn suites() -> Vec<Box<dyn Suite>> {
    vec![Box::new(CatSer), Box::new(CatDe)]
}

fn name(r: &mut Rng) -> String {
    let pool = ["", "a", "b", "ab", "aB", "B", "z", "col", "Ünï", "x_1", "名前", "UPPER", "with space", "é", "~"];
    if r.chance(1, 5) {
        let n = r.usize(1, 40);
        (0..n).map(|_| (b'a' + r.below(26) as u8) as char).collect()
    } else {
        r.pick(&pool).to_string()
    }
}

fn num(r: &mut Rng) -> u64 {
    match r.below(5) {
        0 => 0,
        1 => r.below(100),
        2 => u64::MAX,
        3 => r.next() >> r.below(60),
        _ => (1u64 << r.below(64)).wrapping_sub(r.below(2)),
    }
}

/// every field of the message, legacy ones included
fn message_sx(bytes: &[u8]) -> Result<Sx, String> {
    let reader = capnp::serialize_packed::read_message(&mut &bytes[..], default_reader_options()).map_err(|e| e.to_string())?;
    let db = reader.get_root::<dbmeta_capnp::d_b_meta::Reader>().map_err(|e| e.to_string())?;
    let mut strings = vec![];
    for s in db.get_strings().map_err(|e| e.to_string())? {
        strings.push(Sx::bytes(s.map_err(|e| e.to_string())?.as_bytes()));
    }
    if !db.get_compressed_strings().map_err(|e| e.to_string())?.is_empty() || db.get_lengths_compressed_strings().map_err(|e| e.to_string())?.len() > 0 {
        return Err("writer produced the v2 compressed string table (not modelled)".to_string());
    }
    let mut parts = vec![];
    for p in db.get_partitions().map_err(|e| e.to_string())? {
        let mut subs = vec![];
        for s in p.get_subpartitions().map_err(|e| e.to_string())?.iter() {
            if !s.get_compressed_interned_columns().map_err(|e| e.to_string())?.is_empty() {
                return Err("writer produced v2 compressed interned columns (not modelled)".to_string());
            }
            let mut cols = vec![];
            for c in s.get_columns().map_err(|e| e.to_string())? {
                cols.push(Sx::bytes(c.map_err(|e| e.to_string())?.as_bytes()));
            }
            let interned: Vec<Sx> = s.get_interned_columns().map_err(|e| e.to_string())?.iter().map(Sx::int).collect();
            subs.push(Sx::l(vec![
                Sx::int(s.get_size_bytes()),
                Sx::bytes(s.get_subpartition_key().map_err(|e| e.to_string())?.as_bytes()),
                Sx::bytes(s.get_last_column().map_err(|e| e.to_string())?.as_bytes()),
                Sx::L(cols),
                Sx::L(interned),
            ]));
        }
        parts.push(Sx::l(vec![
            Sx::bytes(p.get_tablename().map_err(|e| e.to_string())?.as_bytes()),
            Sx::int(p.get_id()),
            Sx::int(p.get_offset()),
            Sx::int(p.get_len()),
            Sx::L(subs),
        ]));
    }
    Ok(Sx::l(vec![Sx::int(db.get_next_wal_id()), Sx::L(strings), Sx::L(parts)]))
}

pub struct CatSer;

impl Suite for CatSer {
    fn name(&self) -> &'static str {
        "c14_catalogue_ser"
    }
    fn generate(&self, seed: u64, tier: &str) -> Vec<Case> {
        let n = if tier == "thorough" { 4000 } else { 400 };
        (0..n).map(|i| Case { class: format!("{}tables", i % 5), input: Sx::l(vec![Sx::int(seed), Sx::int(i)]) }).collect()
    }
    fn run(&self, input: &Sx) -> Vec<Outcome> {
        let seed = input.items()[0].as_u64();
        let i = input.items()[1].as_usize();
        let mut r = Rng::new(seed.wrapping_mul(0x5EED_CA7) ^ (i as u64) ^ 0xC0DEC);
        let res = std::panic::catch_unwind(move || {
            let mut m = MetaStore::default();
            // next WAL id and flush cursor are different things: segments exist beyond the cursor
            for _ in 0..r.below(4) {
                m.add_wal_segment();
            }
            let cursor = num(&mut r);
            m.advance_earliest_unflushed_wal_id(cursor);
            for _ in 0..r.below(3) {
                m.add_wal_segment();
            }
            for t in 0..(i % 5) {
                let table = if r.chance(1, 4) { name(&mut r) } else { format!("{}{}", name(&mut r), t) };
                for _ in 0..r.usize(0, 4) {
                    let nsub = r.usize(0, 5);
                    let mut subs = vec![];
                    let mut idx = BTreeMap::new();
                    for s in 0..nsub {
                        // last columns: empty, repeated and unordered ones included
                        let last = name(&mut r);
                        idx.insert(last.clone(), s);
                        subs.push(SubpartitionMetadata {
                            size_bytes: num(&mut r),
                            subpartition_key: name(&mut r),
                            last_column: last,
                            loaded: Arc::new(AtomicBool::new(r.chance(1, 2))),
                        });
                    }
                    m.insert_partition(PartitionMetadata {
                        id: if r.chance(1, 3) { r.below(3) } else { num(&mut r) },
                        tablename: table.clone(),
                        offset: num(&mut r) as usize,
                        len: num(&mut r) as usize,
                        subpartitions: subs,
                        subpartitions_by_last_column: idx,
                    });
                }
            }
            let parts: Vec<Sx> = m
                .partitions()
                .map(|p| {
                    Sx::l(vec![
                        Sx::bytes(p.tablename.as_bytes()),
                        Sx::int(p.id),
                        Sx::int(p.offset),
                        Sx::int(p.len),
                        Sx::L(p.subpartitions.iter().map(|s| Sx::l(vec![Sx::int(s.size_bytes), Sx::bytes(s.subpartition_key.as_bytes()), Sx::bytes(s.last_column.as_bytes())])).collect()),
                    ])
                })
                .collect();
            let nparts = parts.len();
            let model_input = Sx::l(vec![Sx::int(m.next_wal_id()), Sx::int(m.earliest_uncommited_wal_id()), Sx::L(parts)]);
            let distinct_cursor = m.next_wal_id() != m.earliest_uncommited_wal_id();
            let bytes = m.verif_serialize();
            (model_input, message_sx(&bytes), nparts, distinct_cursor)
        });
        match res {
            Err(e) => {
                let m = panic_message(e);
                vec![Outcome {
                    model: None,
                    model_input: None,
                    impl_out: Some(Sx::a("panic")),
                    oracle: Some(format!("catalogue writer panicked: {}", m)),
                    signature: Some(format!("catalogue-writer-panic:{}", m)),
                    nontrivial: true,
                }]
            }
            Ok((model_input, Err(e), _, _)) => vec![Outcome {
                model: Some("cat_ser".into()),
                model_input: Some(model_input),
                impl_out: Some(Sx::a("unreadable")),
                oracle: Some(format!("the writer's own message cannot be taken apart: {}", e)),
                signature: Some("catalogue-message-unreadable".to_string()),
                nontrivial: true,
            }],
            Ok((model_input, Ok(msg), nparts, distinct_cursor)) => vec![Outcome {
                model: Some("cat_ser".into()),
                model_input: Some(model_input),
                impl_out: Some(msg),
                oracle: None,
                signature: None,
                nontrivial: nparts > 0 || distinct_cursor,
            }],
        }
    }
}

pub struct CatDe;

struct SubSpec {
    size: u64,
    key: String,
    last: String,
    cols: Vec<String>,
    interned: Vec<u64>,
}
struct PartSpec {
    table: String,
    id: u64,
    offset: u64,
    len: u64,
    subs: Vec<SubSpec>,
}

fn catalogue_sx(m: &MetaStore) -> Sx {
    let mut parts: Vec<(String, u64, Sx)> = m
        .partitions()
        .map(|p| {
            let subs = Sx::L(
                p.subpartitions
                    .iter()
                    .map(|s| Sx::l(vec![Sx::int(s.size_bytes), Sx::bytes(s.subpartition_key.as_bytes()), Sx::bytes(s.last_column.as_bytes())]))
                    .collect(),
            );
            let idx = Sx::L(p.subpartitions_by_last_column.iter().map(|(k, v)| Sx::l(vec![Sx::bytes(k.as_bytes()), Sx::int(*v)])).collect());
            (p.tablename.clone(), p.id, Sx::l(vec![Sx::bytes(p.tablename.as_bytes()), Sx::int(p.id), Sx::int(p.offset), Sx::int(p.len), subs, idx]))
        })
        .collect();
    parts.sort_by(|a, b| (a.0.as_bytes(), a.1).cmp(&(b.0.as_bytes(), b.1)));
    Sx::l(vec![Sx::a("ok"), Sx::int(m.next_wal_id()), Sx::int(m.earliest_uncommited_wal_id()), Sx::L(parts.into_iter().map(|p| p.2).collect())])
}

impl Suite for CatDe {
    fn name(&self) -> &'static str {
        "c14_catalogue_de"
    }
    fn generate(&self, seed: u64, tier: &str) -> Vec<Case> {
        let n = if tier == "thorough" { 6000 } else { 600 };
        let classes = ["current", "v0", "v1", "mixed", "dupkeys", "badid"];
        (0..n).map(|i| Case { class: classes[i % classes.len()].to_string(), input: Sx::l(vec![Sx::int(seed), Sx::int(i)]) }).collect()
    }
    fn run(&self, input: &Sx) -> Vec<Outcome> {
        let seed = input.items()[0].as_u64();
        let i = input.items()[1].as_usize();
        let class = i % 6;
        let mut r = Rng::new(seed.wrapping_mul(0xDE5E_41A1) ^ (i as u64) ^ 0xDEC0);
        let next = num(&mut r);
        let nstrings = if class == 0 || class == 1 { 0 } else { r.usize(1, 6) };
        let strings: Vec<String> = (0..nstrings).map(|_| name(&mut r)).collect();
        let mut parts: Vec<PartSpec> = vec![];
        for t in 0..r.usize(0, 4) {
            let table = format!("{}{}", name(&mut r), t % 2);
            for _ in 0..r.usize(0, 4) {
                let mut subs = vec![];
                for _ in 0..r.usize(0, 5) {
                    let explicit = match class {
                        0 => true,
                        1 | 2 => false,
                        _ => r.chance(1, 2),
                    };
                    let ncols = if class == 1 || (class >= 3 && r.chance(1, 2)) { r.usize(0, 5) } else { 0 };
                    let nint = if class == 2 || (class >= 3 && r.chance(1, 2)) { r.usize(0, 5) } else { 0 };
                    let interned = (0..nint)
                        .map(|_| {
                            if class == 5 && r.chance(1, 6) {
                                nstrings as u64 + r.below(3)
                            } else {
                                r.below(nstrings.max(1) as u64)
                            }
                        })
                        .collect::<Vec<u64>>();
                    // a v1 entry needs a string table: without one every id is out of range
                    let interned = if nstrings == 0 && class != 5 { vec![] } else { interned };
                    subs.push(SubSpec {
                        size: num(&mut r),
                        key: name(&mut r),
                        last: if explicit { name(&mut r) } else { String::new() },
                        cols: (0..ncols).map(|_| name(&mut r)).collect(),
                        interned,
                    });
                }
                let id = if class == 4 || r.chance(1, 4) { r.below(2) } else { num(&mut r) };
                // offsets and lengths are usize in memory: keep them as they are (64-bit platform)
                parts.push(PartSpec { table: table.clone(), id, offset: num(&mut r), len: num(&mut r), subs });
            }
        }
        let mut builder = capnp::message::Builder::new_default();
        {
            let mut db = builder.init_root::<dbmeta_capnp::d_b_meta::Builder>();
            db.set_next_wal_id(next);
            {
                let mut sb = db.reborrow().init_strings(strings.len() as u32);
                for (k, s) in strings.iter().enumerate() {
                    sb.set(k as u32, s.as_str());
                }
            }
            let mut pb = db.reborrow().init_partitions(parts.len() as u32);
            for (k, p) in parts.iter().enumerate() {
                let mut b = pb.reborrow().get(k as u32);
                b.set_id(p.id);
                b.set_tablename(p.table.as_str());
                b.set_offset(p.offset);
                b.set_len(p.len);
                let mut sb = b.init_subpartitions(p.subs.len() as u32);
                for (j, s) in p.subs.iter().enumerate() {
                    let mut x = sb.reborrow().get(j as u32);
                    x.set_size_bytes(s.size);
                    x.set_subpartition_key(s.key.as_str());
                    x.set_last_column(s.last.as_str());
                    {
                        let mut cb = x.reborrow().init_columns(s.cols.len() as u32);
                        for (c, col) in s.cols.iter().enumerate() {
                            cb.set(c as u32, col.as_str());
                        }
                    }
                    let mut ib = x.reborrow().init_interned_columns(s.interned.len() as u32);
                    for (c, id) in s.interned.iter().enumerate() {
                        ib.set(c as u32, *id);
                    }
                }
            }
        }
        let mut bytes = Vec::new();
        capnp::serialize_packed::write_message(&mut bytes, &builder).unwrap();
        let model_input = Sx::l(vec![
            Sx::int(next),
            Sx::L(strings.iter().map(|s| Sx::bytes(s.as_bytes())).collect()),
            Sx::L(parts
                .iter()
                .map(|p| {
                    Sx::l(vec![
                        Sx::bytes(p.table.as_bytes()),
                        Sx::int(p.id),
                        Sx::int(p.offset),
                        Sx::int(p.len),
                        Sx::L(p.subs
                            .iter()
                            .map(|s| {
                                Sx::l(vec![
                                    Sx::int(s.size),
                                    Sx::bytes(s.key.as_bytes()),
                                    Sx::bytes(s.last.as_bytes()),
                                    Sx::L(s.cols.iter().map(|c| Sx::bytes(c.as_bytes())).collect()),
                                    Sx::L(s.interned.iter().map(Sx::int).collect()),
                                ])
                            })
                            .collect()),
                    ])
                })
                .collect()),
        ]);
        let res = std::panic::catch_unwind(move || MetaStore::deserialize(&bytes).map(|m| catalogue_sx(&m)).map_err(|e| e.to_string()));
        let nontrivial = !parts.is_empty();
        let (impl_out, oracle, signature) = match res {
            // an id outside the string table is the one panic the model predicts; the diff decides
            Err(_) => (Sx::a("panic"), None, None),
            Ok(Err(e)) => (Sx::a("error"), Some(format!("well-formed catalogue message rejected: {}", e)), Some("catalogue-message-rejected".to_string())),
            Ok(Ok(sx)) => (sx, None, None),
        };
        vec![Outcome { model: Some("cat_de".into()), model_input: Some(model_input), impl_out: Some(impl_out), oracle, signature, nontrivial }]
    }
}
