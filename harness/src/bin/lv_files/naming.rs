//! C15: file naming and column routing — differential against the Coq model of
//! sanitize_table_name / partition_filename / subpartition / subpartition_key, with the Unicode
//! tables and sha256 supplied as oracle leaves computed here (Rust std, sha2).
use crate::envelope::sha;
use locustdb::verif::disk_store::meta_store::PartitionMetadata;
use locustdb::verif::disk_store::storage::{verif_partition_filename, verif_sanitize_table_name};
use locustdb::verif::mem_store::column::{Column, DataSection};
use locustdb::verif::scheduler::verif_export::inner_locustdb::{verif_is_filesystem_safe, verif_subpartition};
use lvharness::rng::Rng;
use lvharness::suite::{panic_message, Case, Outcome, Suite};
use lvharness::sx::Sx;
use std::collections::{BTreeMap, BTreeSet};
use std::sync::Arc;

pub fn suites() -> Vec<Box<dyn Suite>> {
    vec![Box::new(Sanitize), Box::new(Routing)]
}

fn chars_sx(s: &str) -> Sx {
    Sx::L(s.chars().map(|c| Sx::int(c as u32)).collect())
}

fn sx_string(x: &Sx) -> String {
    x.items().iter().map(|c| char::from_u32(c.as_u64() as u32).unwrap()).collect()
}

const TABLE_POOL: [&str; 40] = [
    "", ".", "..", "...", "-", "--x", ".hidden", "a", "A", "Ab", "aB", "table_1", "Table_1", "a.b", "a/b", "../x",
    "../../etc/passwd", "a\\b", "a b", "ü", "Ü", "İ", "ß", "ǅ", "名前", "x\u{0}y", "CON", "-a-", "_meta_tables",
    "-foo-2c26b46b68ffc68ff99b453c1d30413413422d706483bfa0f98a5e886266e7ae", "foo", "FOO", "a-b", "a_b", "a.b.c",
    "ａ", "x.part", "wal", "meta", "tables",
];

pub fn gen_table_name(r: &mut Rng) -> String {
    match r.below(10) {
        0..=5 => r.pick(&TABLE_POOL).to_string(),
        6 => {
            let n = *r.pick(&[63usize, 64, 65, 188, 189, 190, 255, 300]);
            let base: String = (0..n).map(|_| (b'a' + r.below(26) as u8) as char).collect();
            if r.chance(1, 3) { base.to_uppercase() } else { base }
        }
        7 => {
            // long with removed characters so that truncation happens after filtering
            let n = r.usize(180, 260);
            (0..n).map(|i| if i % 7 == 3 { '/' } else { (b'a' + r.below(26) as u8) as char }).collect()
        }
        _ => {
            let alphabet: Vec<char> = "abzABZ019_-./\\ éÉßİ名".chars().collect();
            (0..r.usize(1, 12)).map(|_| *r.pick(&alphabet)).collect()
        }
    }
}

pub struct Sanitize;

impl Suite for Sanitize {
    fn name(&self) -> &'static str {
        "c15_naming"
    }
    fn generate(&self, seed: u64, tier: &str) -> Vec<Case> {
        let mut r = Rng::new(seed ^ 0xC15);
        let n = if tier == "thorough" { 20_000 } else { 1_500 };
        let mut cases = vec![];
        for t in TABLE_POOL.iter() {
            cases.push(Case { class: "pool".into(), input: Sx::l(vec![chars_sx(t), Sx::int(7), chars_sx("all")]) });
        }
        for _ in 0..n {
            let name = gen_table_name(&mut r);
            let id = match r.below(5) {
                0 => r.below(10),
                1 => 99_999 + r.below(3),
                2 => u64::MAX - r.below(2),
                _ => r.next() >> r.below(64),
            };
            let key = gen_col_name(&mut r);
            let class = if name.len() > 150 { "long" } else if name.is_ascii() { "ascii" } else { "unicode" };
            cases.push(Case { class: class.into(), input: Sx::l(vec![chars_sx(&name), Sx::int(id), chars_sx(&key)]) });
        }
        cases
    }
    fn run(&self, input: &Sx) -> Vec<Outcome> {
        let it = input.items();
        let table = sx_string(&it[0]);
        let id = it[1].as_u64();
        let key = sx_string(&it[2]);
        let mut outs = vec![];
        let res = std::panic::catch_unwind(|| verif_sanitize_table_name(&table));
        let lowered = table.to_lowercase();
        let model_input = Sx::l(vec![chars_sx(&table), chars_sx(&lowered), Sx::bytes(&sha(table.as_bytes()))]);
        match res {
            Err(e) => {
                let m = panic_message(e);
                outs.push(Outcome {
                    model: Some("sanitize".into()),
                    model_input: Some(model_input),
                    impl_out: Some(Sx::a("panic")),
                    oracle: Some(format!("sanitize_table_name panicked: {}", m)),
                    signature: Some(format!("sanitize-panic:{}", m)),
                    nontrivial: true,
                });
            }
            Ok(dir) => {
                let mut why = None;
                if dir.contains('/') || dir.contains('\0') || dir == "." || dir == ".." || dir.starts_with('.') || dir.len() > 255 {
                    why = Some(format!("directory component {:?} for table {:?} is not a safe single path component", dir, table));
                }
                // two-name oracle: a case-variant / separator-variant sibling must get a different directory
                for sib in [table.to_uppercase(), table.to_lowercase(), table.replace('/', ""), format!("-{}", table), format!("{}-", table)] {
                    if sib != table && verif_sanitize_table_name(&sib) == dir {
                        why = Some(format!("tables {:?} and {:?} share directory {:?}", table, sib, dir));
                    }
                }
                outs.push(Outcome {
                    model: Some("sanitize".into()),
                    model_input: Some(model_input),
                    impl_out: Some(chars_sx(&dir)),
                    signature: why.as_ref().map(|_| "sanitize-unsafe".to_string()),
                    oracle: why,
                    nontrivial: dir != table,
                });
            }
        }
        let fname = verif_partition_filename(id, &key);
        outs.push(Outcome {
            model: Some("filename".into()),
            model_input: Some(Sx::l(vec![Sx::int(id), chars_sx(&key)])),
            impl_out: Some(chars_sx(&fname)),
            oracle: None,
            signature: None,
            nontrivial: id > 99_999,
        });
        outs
    }
}

const COL_POOL: [&str; 30] = [
    "a", "b", "ab", "abc", "A", "B", "aB", "a1", "a_", "_", "é", "É", "ü", "名", "z", "zz", "", "0", "9", "col",
    "col_a", "col_b", "colA", "all", "timestamp", "x y", "a/b", "..", "ß", "ǆ",
];

pub fn gen_col_name(r: &mut Rng) -> String {
    match r.below(8) {
        0..=4 => format!("{}{}", r.pick(&COL_POOL), if r.chance(1, 3) { r.pick(&COL_POOL) } else { "" }),
        5 => {
            let n = *r.pick(&[63usize, 64, 65, 100]);
            (0..n).map(|_| (b'a' + r.below(3) as u8) as char).collect()
        }
        6 => {
            // 64 bytes but fewer chars / the other way round
            let n = *r.pick(&[31usize, 32, 33]);
            (0..n).map(|_| 'é').collect()
        }
        _ => (0..r.usize(1, 6)).map(|_| (b'a' + r.below(26) as u8) as char).collect(),
    }
}

pub struct Routing;

impl Suite for Routing {
    fn name(&self) -> &'static str {
        "c15_routing"
    }
    fn generate(&self, seed: u64, tier: &str) -> Vec<Case> {
        let mut r = Rng::new(seed ^ 0x0C15_0002);
        let n = if tier == "thorough" { 15_000 } else { 1_200 };
        let mut cases = vec![];
        for i in 0..n {
            let ncols = match i % 5 {
                0 => r.usize(0, 1),
                1 => 2,
                _ => r.usize(3, 14),
            };
            let mut names = BTreeSet::new();
            while names.len() < ncols {
                names.insert(gen_col_name(&mut r));
            }
            let mut cols: Vec<(String, usize)> = names.into_iter().map(|n| (n, r.usize(0, 40))).collect();
            // shuffle: the implementation sorts
            for k in (1..cols.len()).rev() {
                let j = r.below(k as u64 + 1) as usize;
                cols.swap(k, j);
            }
            let limit = match i % 4 {
                0 => 1,
                1 => r.below(400),
                2 => r.below(3000),
                _ => 8 * 1024 * 1024,
            };
            let mut queries: Vec<String> = cols.iter().map(|c| c.0.clone()).collect();
            for _ in 0..4 {
                queries.push(gen_col_name(&mut r));
            }
            queries.push("".into());
            queries.push("\u{10FFFF}".into());
            cases.push(Case {
                class: format!("{}cols/limit-{}", if ncols < 3 { "few" } else { "many" }, match i % 4 { 0 => "1byte", 1 => "small", 2 => "medium", _ => "default" }),
                input: Sx::l(vec![
                    Sx::int(limit),
                    Sx::L(cols.iter().map(|(n, l)| Sx::l(vec![chars_sx(n), Sx::int(*l)])).collect()),
                    Sx::L(queries.iter().map(|q| chars_sx(q)).collect()),
                ]),
            });
        }
        cases
    }
    fn run(&self, input: &Sx) -> Vec<Outcome> {
        let it = input.items();
        let limit = it[0].as_u64();
        let cols: Vec<(String, usize)> = it[1].items().iter().map(|c| (sx_string(&c.items()[0]), c.items()[1].as_usize())).collect();
        let queries: Vec<String> = it[2].items().iter().map(sx_string).collect();
        let res = std::panic::catch_unwind(|| {
            let columns: Vec<Arc<Column>> = cols
                .iter()
                .map(|(n, l)| Arc::new(Column::new(n, *l, None, vec![], vec![DataSection::I64(vec![0i64; *l])])))
                .collect();
            let sizes: Vec<u64> = columns.iter().map(|c| c.heap_size_of_children() as u64).collect();
            let opts = locustdb::Options { max_partition_size_bytes: limit, ..Default::default() };
            let (meta, groups) = verif_subpartition(&opts, columns);
            let mut by_last = BTreeMap::new();
            for (i, m) in meta.iter().enumerate() {
                by_last.insert(m.last_column.clone(), i);
            }
            let pm = PartitionMetadata {
                id: 1,
                tablename: "t".into(),
                offset: 0,
                len: 0,
                subpartitions: meta.clone(),
                subpartitions_by_last_column: by_last,
            };
            let routes: Vec<Option<String>> = queries.iter().map(|q| pm.subpartition_key(q)).collect();
            let groups: Vec<Vec<String>> = groups.iter().map(|g| g.iter().map(|c| c.name().to_string()).collect()).collect();
            (sizes, meta, groups, routes)
        });
        let (sizes, meta, groups, routes) = match res {
            Err(e) => {
                let m = panic_message(e);
                return vec![Outcome {
                    model: None,
                    model_input: None,
                    impl_out: Some(Sx::a("panic")),
                    oracle: Some(format!("subpartition panicked: {}", m)),
                    signature: Some(format!("subpartition-panic:{}", m)),
                    nontrivial: true,
                }];
            }
            Ok(x) => x,
        };
        // oracle leaves for the model: per-character Unicode flags and per-name digests
        let mut chars = BTreeSet::new();
        let mut all_names: BTreeSet<String> = cols.iter().map(|c| c.0.clone()).collect();
        for q in &queries {
            all_names.insert(q.clone());
        }
        for n in &all_names {
            for c in n.chars() {
                chars.insert(c);
            }
        }
        let table = Sx::L(chars.iter().map(|c| Sx::l(vec![Sx::int(*c as u32), Sx::boolean(c.is_alphanumeric()), Sx::boolean(c.is_lowercase())])).collect());
        let digests = Sx::L(all_names.iter().map(|n| Sx::l(vec![chars_sx(n), Sx::bytes(&sha(n.as_bytes()))])).collect());
        let model_input = Sx::l(vec![
            Sx::int(limit),
            Sx::L(cols.iter().zip(sizes.iter()).map(|((n, _), s)| Sx::l(vec![chars_sx(n), Sx::int(*s)])).collect()),
            Sx::L(queries.iter().map(|q| chars_sx(q)).collect()),
            table,
            digests,
        ]);
        let impl_out = Sx::l(vec![
            Sx::L(
                meta.iter()
                    .zip(groups.iter())
                    .map(|(m, g)| Sx::l(vec![chars_sx(&m.subpartition_key), chars_sx(&m.last_column), Sx::int(m.size_bytes), Sx::L(g.iter().map(|c| chars_sx(c)).collect())]))
                    .collect(),
            ),
            Sx::L(routes.iter().map(|r| Sx::opt(r.as_ref().map(|k| chars_sx(k)))).collect()),
        ]);
        // implementation-only oracle
        let mut why = None;
        let mut seen = BTreeSet::new();
        for (gi, g) in groups.iter().enumerate() {
            for c in g {
                if !seen.insert(c.clone()) {
                    why = Some(format!("column {:?} written to two files", c));
                }
                let qi = queries.iter().position(|q| q == c).unwrap();
                if routes[qi].as_deref() != Some(meta[gi].subpartition_key.as_str()) {
                    why = Some(format!("column {:?} is stored in file key {:?} but routed to {:?}", c, meta[gi].subpartition_key, routes[qi]));
                }
            }
        }
        for (n, _) in &cols {
            if !seen.contains(n) {
                why = Some(format!("column {:?} not written to any file", n));
            }
        }
        let keys: BTreeSet<&String> = meta.iter().map(|m| &m.subpartition_key).collect();
        if keys.len() != meta.len() {
            why = Some("two sub-partitions share a file key".to_string());
        }
        for m in &meta {
            if m.subpartition_key.contains('/') || m.subpartition_key.len() > 64 + 1 || m.subpartition_key.starts_with('.') {
                why = Some(format!("file key {:?} is not filesystem safe", m.subpartition_key));
            }
        }
        for (qi, q) in queries.iter().enumerate() {
            if !seen.contains(q) {
                if let Some(k) = &routes[qi] {
                    let gi = meta.iter().position(|m| &m.subpartition_key == k).unwrap();
                    if groups[gi].contains(q) {
                        why = Some("absent column found".into());
                    }
                }
            }
        }
        let _ = verif_is_filesystem_safe;
        vec![Outcome {
            model: Some("routing".into()),
            model_input: Some(model_input),
            impl_out: Some(impl_out),
            signature: why.as_ref().map(|_| "routing-mismatch".to_string()),
            oracle: why,
            nontrivial: meta.len() > 1,
        }]
    }
}
