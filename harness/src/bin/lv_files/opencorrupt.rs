//! C14 at the database level: a database directory in which ONE file (catalogue, log segment or
//! partition file) has been bit-flipped, truncated or extended must not yield different data — the
//! database may refuse to open or fail the query, it must not hang and must not decode other values.
use locustdb::{LocustDB, Options, Value};
use locustdb_serialization::event_buffer::{ColumnBuffer, ColumnData, EventBuffer, TableBuffer};
use lvharness::rng::Rng;
use lvharness::suite::{panic_message, Case, Outcome, Suite};
use lvharness::sx::Sx;
use std::collections::HashMap;
use std::path::{Path, PathBuf};
use std::sync::mpsc;
use std::time::Duration;

pub fn suites() -> Vec<Box<dyn Suite>> {
    vec![Box::new(OpenCorrupt)]
}

pub struct OpenCorrupt;

fn opts(path: &Path) -> Options {
    Options {
        db_path: Some(path.to_path_buf()),
        threads: 2,
        read_threads: 2,
        partition_combine_factor: 1_000_000_000,
        metrics_table_name: None,
        ..Default::default()
    }
}

fn batch(start: i64, rows: usize) -> EventBuffer {
    let mut cols = HashMap::new();
    cols.insert("id".to_string(), ColumnBuffer { data: ColumnData::I64((0..rows as i64).map(|i| start + i).collect()) });
    cols.insert("v".to_string(), ColumnBuffer { data: ColumnData::I64((0..rows as i64).map(|i| (start + i) * 37 % 1000).collect()) });
    cols.insert("s".to_string(), ColumnBuffer { data: ColumnData::String((0..rows as i64).map(|i| format!("row-{}", start + i)).collect()) });
    let mut tables = HashMap::new();
    tables.insert("t".to_string(), TableBuffer::new(cols));
    EventBuffer { tables }
}

type Rows = Vec<(i64, i64, String)>;

fn expected() -> Rows {
    (0..14).map(|i| (i, i * 37 % 1000, format!("row-{}", i))).collect()
}

fn build_db(dir: &Path) {
    let rt = tokio::runtime::Builder::new_multi_thread().worker_threads(2).enable_all().build().unwrap();
    rt.block_on(async {
        let db = LocustDB::new(&opts(dir));
        db.ingest_efficient(batch(0, 5)).await;
        db.ingest_efficient(batch(5, 4)).await;
        db.force_flush();
        db.ingest_efficient(batch(9, 5)).await; // stays in a log segment
        drop(db);
    });
    rt.shutdown_timeout(Duration::from_secs(2));
}

fn copy_dir(from: &Path, to: &Path) {
    std::fs::create_dir_all(to).unwrap();
    for e in std::fs::read_dir(from).unwrap().flatten() {
        let p = e.path();
        if p.is_dir() {
            copy_dir(&p, &to.join(e.file_name()));
        } else {
            std::fs::copy(&p, to.join(e.file_name())).unwrap();
        }
    }
}

fn files(dir: &Path) -> Vec<PathBuf> {
    let mut out = vec![];
    for e in std::fs::read_dir(dir).unwrap().flatten() {
        let p = e.path();
        if p.is_dir() {
            out.extend(files(&p));
        } else {
            out.push(p);
        }
    }
    out.sort();
    out
}

/// (open + query) in a thread with a deadline
fn open_and_read(dir: PathBuf) -> Result<Result<Rows, String>, &'static str> {
    let (tx, rx) = mpsc::channel();
    std::thread::spawn(move || {
        let r = std::panic::catch_unwind(|| {
            let rt = tokio::runtime::Builder::new_multi_thread().worker_threads(2).enable_all().build().unwrap();
            let out = rt.block_on(async {
                let db = LocustDB::new(&opts(&dir));
                let r = db.run_query("SELECT id, v, s FROM t ORDER BY id", false, true, vec![]).await;
                match r {
                    Err(e) => Err(format!("query error: {}", e)),
                    Ok(o) => Ok(o
                        .rows
                        .unwrap_or_default()
                        .iter()
                        .map(|r| {
                            (
                                match &r[0] { Value::Int(i) => *i, _ => i64::MIN },
                                match &r[1] { Value::Int(i) => *i, _ => i64::MIN },
                                match &r[2] { Value::Str(s) => s.clone(), other => format!("{:?}", other) },
                            )
                        })
                        .collect::<Rows>()),
                }
            });
            rt.shutdown_timeout(Duration::from_secs(1));
            out
        });
        let _ = tx.send(match r {
            Ok(x) => x,
            Err(e) => Err(format!("panic: {}", panic_message(e))),
        });
    });
    match rx.recv_timeout(Duration::from_secs(20)) {
        Ok(r) => Ok(r),
        Err(_) => Err("hang"),
    }
}

impl Suite for OpenCorrupt {
    fn name(&self) -> &'static str {
        "c14_open_corrupt"
    }
    fn generate(&self, seed: u64, tier: &str) -> Vec<Case> {
        let mut r = Rng::new(seed ^ 0xC14_0BE);
        let per_file = if tier == "thorough" { 40 } else { 7 };
        let mut cases = vec![Case { class: "intact".into(), input: Sx::l(vec![Sx::a("none"), Sx::int(0), Sx::int(0), Sx::int(0)]) }];
        for kind in ["meta", "wal", "part"] {
            for k in 0..per_file {
                let (c, a, b) = match k % 7 {
                    0 => ("flip", 3u64, r.below(8)),               // version
                    1 => ("flip", 8 + r.below(8), r.below(8)),     // length
                    2 => ("flip", 16 + r.below(32), r.below(8)),   // digest
                    3 | 4 => ("flip", 48 + r.below(4000), r.below(8)), // payload (mod file length)
                    5 => ("trunc", 1 + r.below(300), 0),
                    _ => ("extend", 1 + r.below(40), r.below(256)),
                };
                cases.push(Case { class: format!("{}/{}", kind, c), input: Sx::l(vec![Sx::a(kind), Sx::a(c), Sx::int(a), Sx::int(b)]) });
            }
        }
        cases
    }
    fn run(&self, input: &Sx) -> Vec<Outcome> {
        let it = input.items();
        let kind = it[0].atom().to_string();
        let base = tempfile::tempdir().unwrap();
        let pristine = base.path().join("pristine");
        build_db(&pristine);
        let victim_dir = base.path().join("victim");
        copy_dir(&pristine, &victim_dir);
        let mut what = "nothing".to_string();
        if kind != "none" {
            let c = it[1].atom();
            let (a, b) = (it[2].as_u64() as usize, it[3].as_u64());
            let all = files(&victim_dir);
            let target = all.iter().find(|p| {
                let s = p.to_string_lossy();
                match kind.as_str() {
                    "meta" => s.ends_with("/meta"),
                    "wal" => s.ends_with(".wal"),
                    _ => s.ends_with(".part") && s.contains("/tables/t/"),
                }
            });
            let target = match target {
                Some(t) => t.clone(),
                None => {
                    return vec![Outcome { model: None, model_input: None, impl_out: Some(Sx::a("no-such-file")), oracle: Some(format!("no {} file in {:?}", kind, all)), signature: Some("open-corrupt-setup".into()), nontrivial: false }]
                }
            };
            let mut bytes = std::fs::read(&target).unwrap();
            match c {
                "flip" => {
                    let pos = a % bytes.len();
                    bytes[pos] ^= 1u8 << (b % 8);
                }
                "trunc" => {
                    let cut = a.min(bytes.len());
                    bytes.truncate(bytes.len() - cut);
                }
                _ => bytes.extend(std::iter::repeat(b as u8).take(a)),
            }
            std::fs::write(&target, &bytes).unwrap();
            what = format!("{} of {}", c, target.strip_prefix(&victim_dir).unwrap().display());
        }
        let res = open_and_read(victim_dir.clone());
        let want = expected();
        let (out, oracle, signature) = match res {
            Err(_) => (Sx::a("hang"), Some(format!("database with {} never finished opening/answering (20 s)", what)), Some(format!("open-corrupt-hang:{}", kind))),
            Ok(Err(e)) => {
                if kind == "none" {
                    (Sx::a("error"), Some(format!("intact database failed: {}", e)), Some("open-intact-failed".to_string()))
                } else {
                    (Sx::a("rejected"), None, None)
                }
            }
            Ok(Ok(rows)) => {
                if rows == want {
                    if kind == "none" {
                        (Sx::a("same"), None, None)
                    } else {
                        // the damaged file was accepted (or not needed) and the data is still right
                        (Sx::a("same"), Some(format!("database with {} opened and answered as if nothing had happened: the damaged file was not reported", what)), Some(format!("open-corrupt-unreported:{}", kind)))
                    }
                } else {
                    (Sx::a("different"), Some(format!("database with {} returned different data: {:?}", what, &rows[..rows.len().min(4)])), Some(format!("open-corrupt-different-data:{}", kind)))
                }
            }
        };
        vec![Outcome { model: None, model_input: None, impl_out: Some(out), oracle, signature, nontrivial: kind != "none" }]
    }
}
