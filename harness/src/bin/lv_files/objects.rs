//! C14: object-level round trips through the real capnp codecs (oracle only: capnp is not modelled):
//! partition segments for every CodecOp / DataSection kind, catalogues of any shape, WAL segments
//! for every event-buffer arm.  Plus the envelope corruption sweep on real serialized objects.
use locustdb::verif::disk_store::meta_store::{MetaStore, PartitionMetadata, SubpartitionMetadata};
use locustdb::verif::disk_store::verif_export::partition_segment::PartitionSegment;
use locustdb::verif::disk_store::wal_segment::WalSegment;
use locustdb::verif::engine::data_types::verif_export::types::EncodingType;
use locustdb::verif::mem_store::codec::CodecOp;
use locustdb::verif::mem_store::column::{Column, DataSection, DataSource};
use locustdb_serialization::api::AnyVal;
use locustdb_serialization::event_buffer::{ColumnBuffer, ColumnData, EventBuffer, TableBuffer};
use lvharness::rng::Rng;
use lvharness::suite::{panic_message, Case, Outcome, Suite};
use lvharness::sx::Sx;
use ordered_float::OrderedFloat;
use std::borrow::Cow;
use std::collections::{BTreeMap, HashMap};
use std::sync::atomic::AtomicBool;
use std::sync::Arc;

pub fn suites() -> Vec<Box<dyn Suite>> {
    vec![Box::new(Segments), Box::new(Catalogue), Box::new(Wal)]
}

fn rand_name(r: &mut Rng) -> String {
    let pool = ["a", "b", "col", "Ünï", "x_1", "名前", "UPPER", "", "with space", "q/../r", "é"];
    if r.chance(1, 3) {
        let n = r.usize(1, 80);
        (0..n).map(|_| (b'a' + r.below(26) as u8) as char).collect()
    } else {
        format!("{}{}", r.pick(&pool), r.below(4))
    }
}

fn section_sx(d: &DataSection) -> Sx {
    match d {
        DataSection::U8(x) => Sx::tagged("u8", vec![Sx::bytes(x)]),
        DataSection::U16(x) => Sx::tagged("u16", vec![Sx::list(x, |v| Sx::int(*v))]),
        DataSection::U32(x) => Sx::tagged("u32", vec![Sx::list(x, |v| Sx::int(*v))]),
        DataSection::U64(x) => Sx::tagged("u64", vec![Sx::list(x, |v| Sx::int(*v))]),
        DataSection::I64(x) => Sx::tagged("i64", vec![Sx::list(x, |v| Sx::int(*v))]),
        DataSection::F64(x) => Sx::tagged("f64", vec![Sx::list(x, |v| Sx::int(v.0.to_bits()))]),
        DataSection::Null(n) => Sx::tagged("null", vec![Sx::int(*n)]),
        DataSection::Bitvec(x) => Sx::tagged("bitvec", vec![Sx::bytes(x)]),
        DataSection::LZ4 { decoded_bytes, bytes_per_element, data } => {
            Sx::tagged("lz4", vec![Sx::int(*decoded_bytes), Sx::int(*bytes_per_element), Sx::bytes(data)])
        }
        DataSection::Pco { decoded_bytes, bytes_per_element, data, is_fp32 } => Sx::tagged(
            "pco",
            vec![Sx::int(*decoded_bytes), Sx::int(*bytes_per_element), Sx::bytes(data), Sx::boolean(*is_fp32)],
        ),
    }
}

fn column_sx(c: &Column) -> Sx {
    Sx::l(vec![
        Sx::bytes(c.name().as_bytes()),
        Sx::int(c.len()),
        match c.range() {
            None => Sx::none(),
            Some((a, b)) => Sx::some(Sx::l(vec![Sx::int(a), Sx::int(b)])),
        },
        Sx::L(c.codec().ops().iter().map(|o| Sx::a(format!("{:?}", o).replace(' ', ""))).collect()),
        Sx::L(c.data().iter().map(section_sx).collect()),
    ])
}

fn int_type(r: &mut Rng) -> EncodingType {
    *r.pick(&[EncodingType::U8, EncodingType::U16, EncodingType::U32, EncodingType::I64])
}

fn int_section(r: &mut Rng, t: EncodingType, n: usize) -> DataSection {
    match t {
        EncodingType::U8 => DataSection::U8((0..n).map(|_| r.next() as u8).collect()),
        EncodingType::U16 => DataSection::U16((0..n).map(|_| r.next() as u16).collect()),
        EncodingType::U32 => DataSection::U32((0..n).map(|_| r.next() as u32).collect()),
        EncodingType::U64 => DataSection::U64((0..n).map(|_| r.next()).collect()),
        _ => DataSection::I64((0..n).map(|_| edge_i64(r)).collect()),
    }
}

fn edge_i64(r: &mut Rng) -> i64 {
    match r.below(6) {
        0 => i64::MIN,
        1 => i64::MAX,
        2 => -1,
        3 => 0,
        _ => r.next() as i64,
    }
}

/// a column with a codec shape the encoders can emit, filled with arbitrary payload
fn gen_column(r: &mut Rng, shape: usize) -> (String, usize, Option<(i64, i64)>, Vec<CodecOp>, Vec<DataSection>) {
    let n = match r.below(4) {
        0 => 0,
        1 => 1,
        _ => r.usize(2, 70),
    };
    let name = rand_name(r);
    let range = if r.chance(1, 2) { None } else { Some((edge_i64(r), edge_i64(r))) };
    let big = |r: &mut Rng| -> usize {
        match r.below(3) {
            0 => r.below(1000) as usize,
            1 => u32::MAX as usize + r.below(10) as usize,
            _ => (r.next() >> r.below(30)) as usize,
        }
    };
    let (ops, data) = match shape {
        0 => (vec![], vec![int_section(r, EncodingType::I64, n)]),
        1 => {
            let t = int_type(r);
            (vec![CodecOp::ToI64(t)], vec![int_section(r, t, n)])
        }
        2 => {
            let t = int_type(r);
            (vec![CodecOp::Add(t, edge_i64(r))], vec![int_section(r, t, n)])
        }
        3 => {
            let t = int_type(r);
            (vec![CodecOp::Add(t, edge_i64(r)), CodecOp::Delta(EncodingType::I64)], vec![int_section(r, t, n)])
        }
        4 => {
            let t = int_type(r);
            (
                vec![CodecOp::PushDataSection(1), CodecOp::Nullable, CodecOp::Add(t, edge_i64(r))],
                vec![int_section(r, t, n), DataSection::Bitvec((0..(n + 7) / 8).map(|_| r.next() as u8).collect())],
            )
        }
        5 => {
            let t = *r.pick(&[EncodingType::U8, EncodingType::U16, EncodingType::U32]);
            (
                vec![CodecOp::PushDataSection(1), CodecOp::PushDataSection(2), CodecOp::DictLookup(t)],
                vec![
                    int_section(r, t, n),
                    DataSection::U64((0..r.usize(0, 9)).map(|_| r.next()).collect()),
                    DataSection::U8((0..r.usize(0, 40)).map(|_| r.next() as u8).collect()),
                ],
            )
        }
        6 => (vec![CodecOp::UnpackStrings], vec![DataSection::U8((0..n * 3).map(|_| r.next() as u8).collect())]),
        7 => (
            vec![CodecOp::UnhexpackStrings(r.chance(1, 2), big(r))],
            vec![DataSection::U8((0..n * 2).map(|_| r.next() as u8).collect())],
        ),
        8 => (
            vec![],
            vec![DataSection::F64(
                (0..n)
                    .map(|_| {
                        OrderedFloat(f64::from_bits(*r.pick(&[
                            0u64,
                            0x8000_0000_0000_0000,
                            0x7ff0_0000_0000_0000,
                            0x7ffa_aaaa_aaaa_aaaa,
                            0x7ff8_0000_0000_0001,
                            0xfff8_0000_0000_0000,
                            1,
                            0x3ff0_0000_0000_0000,
                        ])))
                    })
                    .collect(),
            )],
        ),
        9 => (vec![], vec![DataSection::Null(big(r))]),
        10 => {
            let t = int_type(r);
            (
                vec![CodecOp::LZ4(t, big(r)), CodecOp::ToI64(t)],
                vec![DataSection::LZ4 {
                    decoded_bytes: big(r),
                    bytes_per_element: r.usize(1, 8),
                    data: (0..n).map(|_| r.next() as u8).collect(),
                }],
            )
        }
        11 => {
            let t = *r.pick(&[EncodingType::U32, EncodingType::U64, EncodingType::I64, EncodingType::F64]);
            let mut ops = vec![CodecOp::Pco(t, big(r), r.chance(1, 2))];
            if t != EncodingType::I64 && t != EncodingType::F64 {
                ops.push(CodecOp::ToI64(t));
            }
            (
                ops,
                vec![DataSection::Pco {
                    decoded_bytes: big(r),
                    bytes_per_element: r.usize(1, 8),
                    data: (0..n).map(|_| r.next() as u8).collect(),
                    is_fp32: r.chance(1, 2),
                }],
            )
        }
        12 => (
            vec![CodecOp::PushDataSection(1), CodecOp::Nullable],
            vec![
                DataSection::F64((0..n).map(|_| OrderedFloat(f64::from_bits(r.next()))).collect()),
                DataSection::Bitvec((0..(n + 7) / 8).map(|_| r.next() as u8).collect()),
            ],
        ),
        _ => (vec![CodecOp::ToI64(EncodingType::U64)], vec![int_section(r, EncodingType::U64, n)]),
    };
    (name, n, range, ops, data)
}

const SHAPES: [&str; 14] = [
    "i64-identity", "cast", "offset", "offset-delta", "nullable-offset", "dictionary", "packed-strings",
    "hex-strings", "f64", "null", "lz4", "pco", "nullable-f64", "u64-cast",
];

pub struct Segments;

impl Suite for Segments {
    fn name(&self) -> &'static str {
        "c14_segments"
    }
    fn generate(&self, seed: u64, tier: &str) -> Vec<Case> {
        let n = if tier == "thorough" { 6000 } else { 420 };
        (0..n)
            .map(|i| Case {
                class: format!("{}+{}cols", SHAPES[i % 14], 1 + (i / 14) % 3),
                input: Sx::l(vec![Sx::int(seed), Sx::int(i)]),
            })
            .collect()
    }
    fn run(&self, input: &Sx) -> Vec<Outcome> {
        let seed = input.items()[0].as_u64();
        let i = input.items()[1].as_usize();
        let mut r = Rng::new(seed.wrapping_mul(1_000_003) ^ (i as u64) ^ 0x5E6);
        let ncols = 1 + (i / 14) % 3;
        let mut specs = vec![];
        for k in 0..ncols {
            let shape = if k == 0 { i % 14 } else { r.below(14) as usize };
            specs.push(gen_column(&mut r, shape));
        }
        let res = std::panic::catch_unwind(std::panic::AssertUnwindSafe(move || {
            let cols: Vec<Column> = specs
                .into_iter()
                .map(|(name, n, range, ops, data)| Column::new(&name, n, range, ops, data))
                .collect();
            let refs: Vec<&Column> = cols.iter().collect();
            let bytes = PartitionSegment::serialize(&refs);
            let back = PartitionSegment::deserialize(&bytes).map_err(|e| e.to_string())?;
            let a = Sx::L(cols.iter().map(column_sx).collect());
            let b = Sx::L(back.columns.iter().map(column_sx).collect());
            Ok::<_, String>((a, b, bytes.len()))
        }));
        let (impl_out, oracle, signature) = match res {
            Err(e) => {
                let m = panic_message(e);
                (Sx::a("panic"), Some(format!("segment round trip panicked: {}", m)), Some(format!("segment-panic:{}", m)))
            }
            Ok(Err(e)) => (Sx::a("error"), Some(format!("own segment rejected: {}", e)), Some("segment-rejected".to_string())),
            Ok(Ok((a, b, _))) => {
                if a == b {
                    (b, None, None)
                } else {
                    (b.clone(), Some(format!("segment decodes to different columns: wrote {} read {}", a, b)), Some("segment-roundtrip-mismatch".to_string()))
                }
            }
        };
        vec![Outcome { model: None, model_input: None, impl_out: Some(impl_out), oracle, signature, nontrivial: true }]
    }
}

pub struct Catalogue;

fn meta_sx(m: &MetaStore) -> Sx {
    let mut parts: Vec<(String, u64, Sx)> = m
        .partitions()
        .map(|p| {
            let subs = Sx::L(
                p.subpartitions
                    .iter()
                    .map(|s| Sx::l(vec![Sx::int(s.size_bytes), Sx::bytes(s.subpartition_key.as_bytes()), Sx::bytes(s.last_column.as_bytes())]))
                    .collect(),
            );
            let idx = Sx::L(
                p.subpartitions_by_last_column
                    .iter()
                    .map(|(k, v)| Sx::l(vec![Sx::bytes(k.as_bytes()), Sx::int(*v)]))
                    .collect(),
            );
            (
                p.tablename.clone(),
                p.id,
                Sx::l(vec![Sx::bytes(p.tablename.as_bytes()), Sx::int(p.id), Sx::int(p.offset), Sx::int(p.len), subs, idx]),
            )
        })
        .collect();
    parts.sort_by(|a, b| (a.0.as_str(), a.1).cmp(&(b.0.as_str(), b.1)));
    Sx::l(vec![Sx::int(m.earliest_uncommited_wal_id()), Sx::L(parts.into_iter().map(|p| p.2).collect())])
}

impl Suite for Catalogue {
    fn name(&self) -> &'static str {
        "c14_catalogue"
    }
    fn generate(&self, seed: u64, tier: &str) -> Vec<Case> {
        let n = if tier == "thorough" { 3000 } else { 250 };
        (0..n)
            .map(|i| Case { class: format!("{}tables", i % 5), input: Sx::l(vec![Sx::int(seed), Sx::int(i)]) })
            .collect()
    }
    fn run(&self, input: &Sx) -> Vec<Outcome> {
        let seed = input.items()[0].as_u64();
        let i = input.items()[1].as_usize();
        let mut r = Rng::new(seed.wrapping_mul(77_777) ^ (i as u64) ^ 0xCA7);
        let res = std::panic::catch_unwind(move || {
            let mut m = MetaStore::default();
            let cursor = match r.below(4) {
                0 => 0,
                1 => r.below(100),
                2 => u64::MAX,
                _ => r.next(),
            };
            m.advance_earliest_unflushed_wal_id(cursor);
            let ntables = i % 5;
            for t in 0..ntables {
                let table = format!("{}{}", rand_name(&mut r), t);
                for _ in 0..r.usize(0, 4) {
                    let nsub = r.usize(1, 4);
                    let mut subs = vec![];
                    let mut idx = BTreeMap::new();
                    let mut last = String::new();
                    for s in 0..nsub {
                        last = format!("{}{}", last, rand_name(&mut r));
                        if last.is_empty() {
                            last = "a".to_string();
                        }
                        idx.insert(last.clone(), s);
                        subs.push(SubpartitionMetadata {
                            size_bytes: r.next(),
                            subpartition_key: if nsub == 1 { "all".to_string() } else { rand_name(&mut r) },
                            last_column: last.clone(),
                            loaded: Arc::new(AtomicBool::new(r.chance(1, 2))),
                        });
                    }
                    m.insert_partition(PartitionMetadata {
                        id: r.below(1 << 40),
                        tablename: table.clone(),
                        offset: (r.next() >> r.below(60)) as usize,
                        len: (r.next() >> r.below(60)) as usize,
                        subpartitions: subs,
                        subpartitions_by_last_column: idx,
                    });
                }
            }
            let bytes = m.verif_serialize();
            let back = MetaStore::deserialize(&bytes).map_err(|e| e.to_string())?;
            let fresh = back.partitions().all(|p| p.subpartitions.iter().all(|s| !s.loaded.load(std::sync::atomic::Ordering::SeqCst)));
            Ok::<_, String>((meta_sx(&m), meta_sx(&back), back.next_wal_id(), cursor, fresh))
        });
        let (impl_out, oracle, signature) = match res {
            Err(e) => {
                let m = panic_message(e);
                (Sx::a("panic"), Some(format!("catalogue round trip panicked: {}", m)), Some(format!("catalogue-panic:{}", m)))
            }
            Ok(Err(e)) => (Sx::a("error"), Some(format!("own catalogue rejected: {}", e)), Some("catalogue-rejected".to_string())),
            Ok(Ok((a, b, next, cursor, fresh))) => {
                if a != b {
                    (b.clone(), Some(format!("catalogue decodes differently: wrote {} read {}", a, b)), Some("catalogue-roundtrip-mismatch".to_string()))
                } else if next != cursor {
                    (b, Some(format!("next wal id {} after reload, cursor {}", next, cursor)), Some("catalogue-cursor".to_string()))
                } else if !fresh {
                    (b, Some("sub-partition marked loaded after reload".to_string()), Some("catalogue-loaded-flag".to_string()))
                } else {
                    (b, None, None)
                }
            }
        };
        vec![Outcome { model: None, model_input: None, impl_out: Some(impl_out), oracle, signature, nontrivial: true }]
    }
}

pub struct Wal;

fn anyval_sx(v: &AnyVal) -> Sx {
    match v {
        AnyVal::Int(i) => Sx::tagged("i", vec![Sx::int(*i)]),
        AnyVal::Float(f) => Sx::tagged("f", vec![Sx::int(f.to_bits())]),
        AnyVal::Str(s) => Sx::tagged("s", vec![Sx::bytes(s.as_bytes())]),
        AnyVal::Null => Sx::a("null"),
    }
}

pub fn coldata_sx(d: &ColumnData) -> Sx {
    match d {
        ColumnData::Empty => Sx::a("empty"),
        ColumnData::Dense(x) => Sx::tagged("dense", vec![Sx::list(x, |f| Sx::int(f.to_bits()))]),
        ColumnData::Sparse(x) => Sx::tagged("sparse", vec![Sx::list(x, |(i, f)| Sx::l(vec![Sx::int(*i), Sx::int(f.to_bits())]))]),
        ColumnData::I64(x) => Sx::tagged("i64", vec![Sx::list(x, |v| Sx::int(*v))]),
        ColumnData::SparseI64(x) => Sx::tagged("sparse-i64", vec![Sx::list(x, |(i, v)| Sx::l(vec![Sx::int(*i), Sx::int(*v)]))]),
        ColumnData::String(x) => Sx::tagged("string", vec![Sx::list(x, |s| Sx::bytes(s.as_bytes()))]),
        ColumnData::Mixed(x) => Sx::tagged("mixed", vec![Sx::list(x, anyval_sx)]),
    }
}

pub fn event_buffer_sx(e: &EventBuffer) -> Sx {
    let mut tables: Vec<(&String, &TableBuffer)> = e.tables.iter().collect();
    tables.sort_by(|a, b| a.0.cmp(b.0));
    Sx::L(
        tables
            .into_iter()
            .map(|(name, t)| {
                let mut cols: Vec<(&String, &ColumnBuffer)> = t.columns().collect();
                cols.sort_by(|a, b| a.0.cmp(b.0));
                Sx::l(vec![
                    Sx::bytes(name.as_bytes()),
                    Sx::int(t.len()),
                    Sx::L(cols.into_iter().map(|(n, c)| Sx::l(vec![Sx::bytes(n.as_bytes()), coldata_sx(&c.data)])).collect()),
                ])
            })
            .collect(),
    )
}

fn rand_f64(r: &mut Rng) -> f64 {
    f64::from_bits(match r.below(5) {
        0 => 0x7ff8_0000_0000_0000,
        1 => 0x8000_0000_0000_0000,
        2 => 0x7ffa_aaaa_aaaa_aaaa,
        _ => r.next(),
    })
}

pub fn gen_event_buffer(r: &mut Rng) -> EventBuffer {
    let mut tables = HashMap::new();
    for t in 0..r.usize(0, 3) {
        let len = r.usize(0, 12);
        let mut cols = HashMap::new();
        for c in 0..r.usize(0, 6) {
            let data = match r.below(7) {
                0 => ColumnData::Empty,
                1 => ColumnData::Dense((0..len).map(|_| rand_f64(r)).collect()),
                2 => {
                    let mut v = vec![];
                    for i in 0..len {
                        if r.chance(1, 2) {
                            v.push((i as u64, rand_f64(r)));
                        }
                    }
                    ColumnData::Sparse(v)
                }
                3 => ColumnData::I64((0..len).map(|_| edge_i64(r)).collect()),
                4 => {
                    let mut v = vec![];
                    for i in 0..len {
                        if r.chance(1, 2) {
                            v.push((i as u64, edge_i64(r)));
                        }
                    }
                    ColumnData::SparseI64(v)
                }
                5 => ColumnData::String((0..len).map(|_| rand_name(r)).collect()),
                _ => ColumnData::Mixed(
                    (0..len)
                        .map(|_| match r.below(4) {
                            0 => AnyVal::Int(edge_i64(r)),
                            1 => AnyVal::Float(rand_f64(r)),
                            2 => AnyVal::Str(rand_name(r)),
                            _ => AnyVal::Null,
                        })
                        .collect(),
                ),
            };
            // TableBuffer::new asserts dense columns share the table length; sparse ones may be shorter
            let data = match &data {
                ColumnData::Sparse(_) | ColumnData::SparseI64(_) | ColumnData::Empty => {
                    if len == 0 { ColumnData::Empty } else { data }
                }
                _ => data,
            };
            cols.insert(format!("{}{}", rand_name(r), c), ColumnBuffer { data });
        }
        // keep only columns consistent with TableBuffer::new's assertion
        let maxlen = cols.values().map(|c| c.data.len()).max().unwrap_or(0);
        cols.retain(|_, c| c.data.len() == maxlen || matches!(c.data, ColumnData::Empty));
        tables.insert(format!("{}{}", rand_name(r), t), TableBuffer::new(cols));
    }
    EventBuffer { tables }
}

impl Suite for Wal {
    fn name(&self) -> &'static str {
        "c14_wal"
    }
    fn generate(&self, seed: u64, tier: &str) -> Vec<Case> {
        let n = if tier == "thorough" { 4000 } else { 300 };
        (0..n).map(|i| Case { class: "event-buffer".to_string(), input: Sx::l(vec![Sx::int(seed), Sx::int(i)]) }).collect()
    }
    fn run(&self, input: &Sx) -> Vec<Outcome> {
        let seed = input.items()[0].as_u64();
        let i = input.items()[1].as_usize();
        let mut r = Rng::new(seed.wrapping_mul(31_337) ^ (i as u64) ^ 0x3A1);
        let res = std::panic::catch_unwind(move || {
            let eb = gen_event_buffer(&mut r);
            let id = if r.chance(1, 4) { u64::MAX } else { r.next() >> r.below(64) };
            let seg = WalSegment { id, data: Cow::Borrowed(&eb) };
            let bytes = seg.serialize();
            let back = WalSegment::deserialize(&bytes).map_err(|e| e.to_string())?;
            let wire = EventBuffer::deserialize(&eb.serialize()).map_err(|e| e.to_string())?;
            Ok::<_, String>((event_buffer_sx(&eb), event_buffer_sx(&back.data), event_buffer_sx(&wire), id, back.id))
        });
        let (impl_out, oracle, signature) = match res {
            Err(e) => {
                let m = panic_message(e);
                (Sx::a("panic"), Some(format!("wal round trip panicked: {}", m)), Some(format!("wal-panic:{}", m)))
            }
            Ok(Err(e)) => (Sx::a("error"), Some(format!("own wal segment rejected: {}", e)), Some("wal-rejected".to_string())),
            Ok(Ok((a, b, w, id, id2))) => {
                if a != b || id != id2 {
                    (b.clone(), Some(format!("wal segment decodes differently: wrote {} {} read {} {}", id, a, id2, b)), Some("wal-roundtrip-mismatch".to_string()))
                } else if a != w {
                    (w.clone(), Some(format!("wire event buffer decodes differently: wrote {} read {}", a, w)), Some("eventbuffer-roundtrip-mismatch".to_string()))
                } else {
                    (b, None, None)
                }
            }
        };
        vec![Outcome { model: None, model_input: None, impl_out: Some(impl_out), oracle, signature, nontrivial: true }]
    }
}
