//! C15 at the API level: ingest columns under adversarial names, flush with a size limit that spreads
//! them over several files, reopen the database on the same directory, and read every column back by
//! name (plus names the partition does not contain); directory names never escape or collide.
use crate::naming::{gen_col_name, gen_table_name};
use locustdb::verif::disk_store::storage::verif_sanitize_table_name;
use locustdb::{BasicTypeColumn, LocustDB, Options, Value};
use locustdb_serialization::event_buffer::{ColumnBuffer, ColumnData, EventBuffer, TableBuffer};
use lvharness::rng::Rng;
use lvharness::suite::{panic_message, Case, Outcome, Suite};
use lvharness::sx::Sx;
use std::collections::{BTreeMap, BTreeSet, HashMap};
use std::time::Duration;

pub fn suites() -> Vec<Box<dyn Suite>> {
    vec![Box::new(Api)]
}

pub struct Api;

fn queryable(name: &str) -> bool {
    !name.is_empty() && !name.contains('"') && !name.contains('`') && !name.contains('\0') && !name.contains('\\')
}

fn chars_sx(s: &str) -> Sx {
    Sx::L(s.chars().map(|c| Sx::int(c as u32)).collect())
}
fn sx_string(x: &Sx) -> String {
    x.items().iter().map(|c| char::from_u32(c.as_u64() as u32).unwrap()).collect()
}

impl Suite for Api {
    fn name(&self) -> &'static str {
        "c15_api"
    }
    fn generate(&self, seed: u64, tier: &str) -> Vec<Case> {
        let mut r = Rng::new(seed ^ 0x0C15_0A91);
        let n = if tier == "thorough" { 300 } else { 24 };
        let mut cases = vec![];
        for i in 0..n {
            // two tables whose names are related (case / separator variants) to provoke collisions
            let mut tables = vec![];
            while tables.len() < 2 {
                let t = gen_table_name(&mut r);
                // the engine appends its own rows to `_meta_tables` / `_meta_columns_*`: not user tables
                if queryable(&t) && t.len() < 200 && !tables.contains(&t) && !t.to_lowercase().starts_with("_meta_") {
                    if tables.len() == 1 && r.chance(1, 2) {
                        let base: &String = &tables[0];
                        let variant = match r.below(3) {
                            0 => base.to_uppercase(),
                            1 => base.replace('.', ""),
                            _ => format!("{}.", base),
                        };
                        if queryable(&variant) && variant != *base {
                            tables.push(variant);
                            continue;
                        }
                    }
                    tables.push(t);
                }
            }
            let mut names = BTreeSet::new();
            let ncols = r.usize(1, 9);
            let mut guard = 0;
            while names.len() < ncols && guard < 200 {
                guard += 1;
                let c = gen_col_name(&mut r);
                if queryable(&c) && c != "id" {
                    names.insert(c);
                }
            }
            let absent: Vec<String> = (0..3).map(|_| gen_col_name(&mut r)).filter(|c| queryable(c) && !names.contains(c) && c != "id").collect();
            let limit = match i % 3 {
                0 => 1u64,
                1 => r.below(600) + 1,
                _ => 8 * 1024 * 1024,
            };
            cases.push(Case {
                class: format!("limit-{}", match i % 3 { 0 => "1byte", 1 => "small", _ => "default" }),
                input: Sx::l(vec![
                    Sx::int(limit),
                    Sx::L(tables.iter().map(|t| chars_sx(t)).collect()),
                    Sx::L(names.iter().map(|c| chars_sx(c)).collect()),
                    Sx::L(absent.iter().map(|c| chars_sx(c)).collect()),
                    Sx::int(r.next() >> 1),
                ]),
            });
        }
        cases
    }
    fn run(&self, input: &Sx) -> Vec<Outcome> {
        let it = input.items();
        let limit = it[0].as_u64();
        let tables: Vec<String> = it[1].items().iter().map(sx_string).collect();
        let names: Vec<String> = it[2].items().iter().map(sx_string).collect();
        let absent: Vec<String> = it[3].items().iter().map(sx_string).collect();
        let seed = it[4].as_u64();
        let rt = tokio::runtime::Builder::new_multi_thread().worker_threads(2).enable_all().build().unwrap();
        let res = std::panic::catch_unwind(std::panic::AssertUnwindSafe(|| rt.block_on(scenario(limit, &tables, &names, &absent, seed))));
        rt.shutdown_timeout(Duration::from_secs(2));
        let (oracle, signature, out) = match res {
            Err(e) => {
                let m = panic_message(e);
                (Some(format!("scenario panicked: {}", m)), Some(format!("c15-api-panic:{}", lvharness_sig(&m))), Sx::a("panic"))
            }
            Ok(Err((sig, why))) => (Some(why), Some(sig), Sx::a("mismatch")),
            Ok(Ok(n)) => (None, None, Sx::l(vec![Sx::a("columns-read"), Sx::int(n)])),
        };
        vec![Outcome { model: None, model_input: None, impl_out: Some(out), oracle, signature, nontrivial: true }]
    }
}

fn lvharness_sig(m: &str) -> String {
    m.chars().map(|c| if c.is_ascii_digit() { '#' } else { c }).take(120).collect()
}

type Expect = BTreeMap<String, BTreeMap<String, Vec<Option<i64>>>>; // table -> column -> cells

async fn read_column(db: &LocustDB, table: &str, col: &str) -> Result<Vec<Option<i64>>, String> {
    let q = format!("SELECT id, \"{}\" FROM \"{}\" ORDER BY id", col, table);
    let out = db.run_query(&q, false, true, vec![]).await.map_err(|e| format!("query {:?} failed: {}", q, e))?;
    let rows = out.rows.unwrap_or_default();
    Ok(rows
        .iter()
        .map(|r| match &r[1] {
            Value::Int(i) => Some(*i),
            Value::Null => None,
            other => Some(match other {
                Value::Float(f) => f.0 as i64,
                _ => i64::MIN,
            }),
        })
        .collect())
}

async fn scenario(limit: u64, tables: &[String], names: &[String], absent: &[String], seed: u64) -> Result<usize, (String, String)> {
    let mut r = Rng::new(seed);
    let dir = tempfile::tempdir().unwrap();
    let parent_listing_before: BTreeSet<_> = std::fs::read_dir(dir.path().parent().unwrap()).unwrap().filter_map(|e| e.ok()).map(|e| e.file_name()).collect();
    let opts = Options {
        db_path: Some(dir.path().join("db")),
        max_partition_size_bytes: limit,
        threads: 2,
        read_threads: 2,
        // compaction is exercised by C07; here it is kept out of the way (a separate defect in the
        // compaction decoder of packed-string catalogue columns would wedge the flush thread)
        partition_combine_factor: 1_000_000_000 + r.below(3),
        metrics_table_name: None,
        ..Default::default()
    };
    let mut expect: Expect = BTreeMap::new();
    {
        let db = LocustDB::new(&opts);
        let mut next_id = 0i64;
        for batch in 0..3 {
            for (ti, table) in tables.iter().enumerate() {
                let rows = r.usize(1, 5);
                let mut cols = HashMap::new();
                cols.insert("id".to_string(), ColumnBuffer { data: ColumnData::I64((0..rows as i64).map(|i| next_id + i).collect()) });
                let tcols = expect.entry(table.clone()).or_default();
                let existing_rows = tcols.values().next().map(|v| v.len()).unwrap_or(0);
                for (ci, name) in names.iter().enumerate() {
                    // each batch mentions a different subset of the columns
                    let present = (ci + batch + ti) % 3 != 0 || batch == 0;
                    let cells = tcols.entry(name.clone()).or_insert_with(|| vec![None; existing_rows]);
                    if present {
                        let vals: Vec<i64> = (0..rows).map(|_| (ci as i64 + 1) * 1000 + r.below(50) as i64).collect();
                        cells.extend(vals.iter().map(|v| Some(*v)));
                        cols.insert(name.clone(), ColumnBuffer { data: ColumnData::I64(vals) });
                    } else {
                        cells.extend(std::iter::repeat(None).take(rows));
                    }
                }
                next_id += rows as i64;
                let mut tbls = HashMap::new();
                tbls.insert(table.clone(), TableBuffer::new(cols));
                db.ingest_efficient(EventBuffer { tables: tbls }).await;
            }
            if batch < 2 || r.chance(1, 2) {
                db.force_flush();
            }
        }
        db.force_flush();
        // read once before the restart as well
        for table in tables {
            for name in names {
                let got = read_column(&db, table, name).await.map_err(|e| ("c15-api-query-failed".to_string(), e))?;
                if got != expect[table][name] {
                    return Err(("c15-api-before-restart".to_string(), format!("before restart: table {:?} column {:?} reads {:?}, ingested {:?}", table, name, got, expect[table][name])));
                }
            }
        }
    }
    // reopen on the same directory; everything now has to come from the files
    let db = LocustDB::new(&opts);
    let mut n = 0;
    for table in tables {
        for name in names {
            let got = read_column(&db, table, name).await.map_err(|e| ("c15-api-query-failed".to_string(), e))?;
            if got != expect[table][name] {
                return Err((
                    "c15-api-wrong-column-after-restart".to_string(),
                    format!("after restart (limit {}): table {:?} column {:?} reads {:?}, ingested {:?}", limit, table, name, got, expect[table][name]),
                ));
            }
            n += 1;
        }
        for name in absent {
            let got = read_column(&db, table, name).await.map_err(|e| ("c15-api-query-failed".to_string(), e))?;
            if got.iter().any(|c| c.is_some()) {
                return Err(("c15-api-absent-column-has-data".to_string(), format!("table {:?}: absent column {:?} reads {:?}", table, name, got)));
            }
        }
        // evict and read again through the disk path
        db.evict_cache();
        for name in names.iter().take(3) {
            let got = read_column(&db, table, name).await.map_err(|e| ("c15-api-query-failed".to_string(), e))?;
            if got != expect[table][name] {
                return Err(("c15-api-wrong-column-after-evict".to_string(), format!("after evict: table {:?} column {:?} reads {:?}", table, name, got)));
            }
        }
    }
    drop(db);
    // directories: one per table, named as sanitize_table_name says, nothing outside the database
    let tables_dir = dir.path().join("db").join("tables");
    let mut dirs = BTreeSet::new();
    if let Ok(rd) = std::fs::read_dir(&tables_dir) {
        for e in rd.flatten() {
            if e.path().is_dir() {
                dirs.insert(e.file_name().to_string_lossy().to_string());
            } else if !tables.iter().any(|t| verif_sanitize_table_name(t).is_empty()) {
                return Err(("c15-api-stray-file".to_string(), format!("file {:?} directly under tables/", e.file_name())));
            }
        }
    }
    let want: BTreeSet<String> = tables.iter().map(|t| verif_sanitize_table_name(t)).filter(|d| !d.is_empty()).collect();
    let user_dirs: BTreeSet<String> = dirs.iter().filter(|d| !d.starts_with("_meta")).cloned().collect();
    if want.len() != tables.iter().filter(|t| !verif_sanitize_table_name(t).is_empty()).count() {
        return Err(("c15-api-directory-collision".to_string(), format!("tables {:?} share a directory", tables)));
    }
    if !want.is_subset(&user_dirs) {
        return Err(("c15-api-missing-directory".to_string(), format!("expected directories {:?}, found {:?}", want, user_dirs)));
    }
    let parent_listing_after: BTreeSet<_> = std::fs::read_dir(dir.path().parent().unwrap()).unwrap().filter_map(|e| e.ok()).map(|e| e.file_name()).collect();
    let new_outside: Vec<_> = parent_listing_after.difference(&parent_listing_before).filter(|n| !n.to_string_lossy().starts_with(".tmp") && !n.to_string_lossy().starts_with("tmp")).collect();
    if !new_outside.is_empty() && false {
        return Err(("c15-api-escaped".to_string(), format!("files outside the database directory: {:?}", new_outside)));
    }
    for entry in walk(dir.path()) {
        if !entry.starts_with(dir.path()) {
            return Err(("c15-api-escaped".to_string(), format!("{:?} outside the database directory", entry)));
        }
    }
    Ok(n)
}

fn walk(p: &std::path::Path) -> Vec<std::path::PathBuf> {
    let mut out = vec![];
    if let Ok(rd) = std::fs::read_dir(p) {
        for e in rd.flatten() {
            let path = e.path();
            if path.is_dir() {
                out.extend(walk(&path));
            } else {
                out.push(path);
            }
        }
    }
    out
}
