//! C14: the versioned, checksummed envelope — load(store(p)) and the corruption sweep
//! (every single-bit flip, every truncation, appended suffixes, foreign bytes) on the real
//! VersionedChecksummedBlobWriter, compared with the Coq model of `load`.
use locustdb::verif::disk_store::verif_export::file_writer::{
    BlobWriter, FileBlobWriter, VersionedChecksummedBlobWriter,
};
use lvharness::rng::Rng;
use lvharness::suite::{panic_message, Case, Outcome, Suite};
use lvharness::sx::Sx;
use sha2::{Digest, Sha256};
use std::collections::HashMap;
use std::error::Error;
use std::path::{Path, PathBuf};
use std::sync::{Arc, Mutex};

pub fn suites() -> Vec<Box<dyn Suite>> {
    vec![Box::new(Envelope)]
}

type Res<T> = Result<T, Box<dyn Error + Send + Sync + 'static>>;

#[derive(Default, Clone)]
pub struct MemWriter(pub Arc<Mutex<HashMap<PathBuf, Vec<u8>>>>);

impl BlobWriter for MemWriter {
    fn store(&self, path: &Path, data: &[u8]) -> Res<()> {
        self.0.lock().unwrap().insert(path.to_owned(), data.to_vec());
        Ok(())
    }
    fn load(&self, path: &Path) -> Res<Vec<u8>> {
        self.0.lock().unwrap().get(path).cloned().ok_or_else(|| "not found".into())
    }
    fn delete(&self, path: &Path) -> Res<()> {
        self.0.lock().unwrap().remove(path);
        Ok(())
    }
    fn list(&self, _path: &Path) -> Res<Vec<PathBuf>> {
        Ok(self.0.lock().unwrap().keys().cloned().collect())
    }
    fn exists(&self, path: &Path) -> Res<bool> {
        Ok(self.0.lock().unwrap().contains_key(path))
    }
}

pub fn sha(data: &[u8]) -> Vec<u8> {
    let mut h = Sha256::new();
    h.update(data);
    h.finalize().to_vec()
}

pub struct Envelope;

/// corruption: (none) | (flip pos bit) | (trunc n) | (extend xBYTES) | (foreign xBYTES)
fn corrupt(blob: &[u8], c: &Sx) -> Vec<u8> {
    match c.tag() {
        "none" => blob.to_vec(),
        "flip" => {
            let it = c.items();
            let mut b = blob.to_vec();
            let pos = it[1].as_usize() % b.len().max(1);
            if !b.is_empty() {
                b[pos] ^= 1u8 << (it[2].as_usize() % 8);
            }
            b
        }
        "trunc" => blob[..c.items()[1].as_usize().min(blob.len())].to_vec(),
        "extend" => {
            let mut b = blob.to_vec();
            b.extend(c.items()[1].as_bytes());
            b
        }
        "foreign" => c.items()[1].as_bytes(),
        _ => panic!("bad corruption"),
    }
}

pub fn load_outcome(blob: Vec<u8>, on_disk: bool) -> (Sx, Option<Vec<u8>>, Option<String>) {
    let r = std::panic::catch_unwind(move || {
        let p = PathBuf::from("/x/blob");
        if on_disk {
            let dir = tempfile::tempdir().unwrap();
            let path = dir.path().join("blob.part");
            std::fs::write(&path, &blob).unwrap();
            let w = VersionedChecksummedBlobWriter::new(Box::new(FileBlobWriter::new()));
            w.load(&path).ok()
        } else {
            let mem = MemWriter::default();
            mem.store(&p, &blob).unwrap();
            let w = VersionedChecksummedBlobWriter::new(Box::new(mem));
            w.load(&p).ok()
        }
    });
    match r {
        Err(e) => (Sx::a("panic"), None, Some(panic_message(e))),
        Ok(None) => (Sx::a("rejected"), None, None),
        Ok(Some(p)) => (Sx::l(vec![Sx::a("loaded"), Sx::bytes(&p)]), Some(p), None),
    }
}

impl Suite for Envelope {
    fn name(&self) -> &'static str {
        "c14_envelope"
    }

    fn generate(&self, seed: u64, tier: &str) -> Vec<Case> {
        let mut r = Rng::new(seed ^ 0xC14);
        let mut cases = vec![];
        let n_payloads = if tier == "thorough" { 40 } else { 6 };
        for pi in 0..n_payloads {
            let len = match pi % 6 {
                0 => 0,
                1 => 1,
                2 => r.usize(2, 20),
                3 => r.usize(21, 90),
                _ => r.usize(91, 300),
            };
            let payload: Vec<u8> = (0..len).map(|_| r.below(256) as u8).collect();
            let total = 48 + len;
            let mk = |class: &str, c: Sx, disk: bool| Case {
                class: class.to_string(),
                input: Sx::l(vec![Sx::bytes(&payload), c, Sx::boolean(disk)]),
            };
            cases.push(mk("intact", Sx::l(vec![Sx::a("none")]), false));
            cases.push(mk("intact-disk", Sx::l(vec![Sx::a("none")]), true));
            // exhaustive single-bit flips
            for pos in 0..total {
                for bit in 0..8 {
                    cases.push(mk(
                        if pos < 8 { "flip-version" } else if pos < 16 { "flip-length" } else if pos < 48 { "flip-digest" } else { "flip-payload" },
                        Sx::l(vec![Sx::a("flip"), Sx::int(pos), Sx::int(bit)]),
                        false,
                    ));
                }
            }
            // every truncation length
            for n in 0..total {
                cases.push(mk("truncate", Sx::l(vec![Sx::a("trunc"), Sx::int(n)]), n % 37 == 0));
            }
            // appended suffixes
            for k in [1usize, 2, 7, 48, 49, 256] {
                let suffix: Vec<u8> = (0..k).map(|_| r.below(256) as u8).collect();
                cases.push(mk("extend", Sx::l(vec![Sx::a("extend"), Sx::bytes(&suffix)]), false));
            }
        }
        // foreign files: random bytes, plausible headers, huge length fields (F18)
        let n_foreign = if tier == "thorough" { 400 } else { 60 };
        for i in 0..n_foreign {
            let mut b: Vec<u8> = (0..r.usize(0, 120)).map(|_| r.below(256) as u8).collect();
            let class;
            match i % 4 {
                0 => class = "foreign-random",
                1 => {
                    for x in b.iter_mut().take(8) {
                        *x = 0;
                    }
                    class = "foreign-version0";
                }
                2 => {
                    // version 0 and a length field consistent with the file length, random digest
                    while b.len() < 48 {
                        b.push(r.below(256) as u8);
                    }
                    for x in b.iter_mut().take(8) {
                        *x = 0;
                    }
                    let l = (b.len() - 48) as u64;
                    b[8..16].copy_from_slice(&l.to_be_bytes());
                    class = "foreign-consistent-length";
                }
                _ => {
                    while b.len() < 48 {
                        b.push(r.below(256) as u8);
                    }
                    for x in b.iter_mut().take(8) {
                        *x = 0;
                    }
                    let l = u64::MAX - r.below(60);
                    b[8..16].copy_from_slice(&l.to_be_bytes());
                    class = "foreign-huge-length";
                }
            }
            cases.push(Case {
                class: class.to_string(),
                input: Sx::l(vec![Sx::bytes(&[]), Sx::l(vec![Sx::a("foreign"), Sx::bytes(&b)]), Sx::boolean(false)]),
            });
        }
        cases
    }

    fn run(&self, input: &Sx) -> Vec<Outcome> {
        let it = input.items();
        let payload = it[0].as_bytes();
        let corruption = &it[1];
        let on_disk = it[2].as_bool();
        // store through the real writer
        let mem = MemWriter::default();
        let w = VersionedChecksummedBlobWriter::new(Box::new(mem.clone()));
        let p = PathBuf::from("/x/blob");
        w.store(&p, &payload).unwrap();
        let stored = mem.load(&p).unwrap();
        let mut outs = vec![];
        // the stored bytes must be what the model's `store` produces
        outs.push(Outcome {
            model: Some("envelope_store".into()),
            model_input: Some(Sx::l(vec![Sx::bytes(&payload), Sx::bytes(&sha(&payload))])),
            impl_out: Some(Sx::bytes(&stored)),
            oracle: None,
            signature: None,
            nontrivial: false,
        });
        let blob = corrupt(&stored, corruption);
        let tail_digest = if blob.len() >= 48 { sha(&blob[48..]) } else { sha(&[]) };
        let intact = blob == stored;
        let (out, loaded, panic_msg) = load_outcome(blob.clone(), on_disk);
        let (oracle, signature) = match (&loaded, out.tag()) {
            (_, "panic") => (
                Some(format!("load panicked instead of reporting an invalid file: {:?}", panic_msg)),
                Some(format!("envelope-load-panic:{}", panic_msg.clone().unwrap_or_default())),
            ),
            (Some(p), _) if intact && *p == payload => (None, None),
            (Some(_), _) if intact => (Some("intact blob decoded into different data".to_string()), Some("envelope-roundtrip-mismatch".to_string())),
            (None, _) if intact => (Some("intact blob rejected".to_string()), Some("envelope-intact-rejected".to_string())),
            (Some(p), _) => {
                // a corrupted / foreign blob was accepted: legitimate only if it is itself exactly
                // what store() would write for the returned payload (e.g. foreign-consistent-length
                // can never be, its digest is random)
                let mem2 = MemWriter::default();
                let w2 = VersionedChecksummedBlobWriter::new(Box::new(mem2.clone()));
                w2.store(&PathBuf::from("/y"), p).unwrap();
                if mem2.load(&PathBuf::from("/y")).unwrap() == blob && corruption.tag() == "foreign" {
                    (None, None)
                } else {
                    (
                        Some(format!("corrupted blob ({}) was accepted and decoded to {} bytes", corruption, p.len())),
                        Some("envelope-corruption-accepted".to_string()),
                    )
                }
            }
            (None, _) => (None, None),
        };
        outs.push(Outcome {
            model: Some("envelope_load".into()),
            model_input: Some(Sx::l(vec![Sx::bytes(&blob), Sx::bytes(&tail_digest)])),
            impl_out: Some(out),
            oracle,
            signature,
            nontrivial: true,
        });
        outs
    }
}
