//! lv_files: stored-file formats and naming (C14, C15).
mod api;
mod catcodec;
mod envelope;
mod naming;
mod objects;
mod opencorrupt;

fn main() {
    let mut v: Vec<Box<dyn lvharness::suite::Suite>> = vec![];
    v.extend(envelope::suites());
    v.extend(objects::suites());
    v.extend(catcodec::suites());
    v.extend(naming::suites());
    v.extend(api::suites());
    v.extend(opencorrupt::suites());
    lvharness::cli_main(v);
}
