//! Generators of the API-level suites c03_filter, c05_order, c04_group, c02_layout.
//!
//! Every suite is organised in *slices* (the generator class printed into the evidence). The
//! engine has many narrow gaps (DESIGN section 7); the query shapes known to hit one are confined
//! to small slices of their own so that the bulk of the budget explores the part of the space that
//! is expected to hold, while the known classes keep being generated (a fix is then noticed).
use crate::api::{case_sx, pair_sx};
use crate::db::{gen_layout, Layout};
use crate::pgen::{gen_leaf, gen_pred, PredOpts};
use crate::query::{Expr, OKey, Query, Sel};
use crate::refeval;
use crate::tgen::*;
use crate::val::{Kind, Table, V};
use lvharness::rng::Rng;
use lvharness::suite::Case;

fn nrows(r: &mut Rng, i: usize) -> usize {
    match i % 6 {
        0 => 1 + r.below(4) as usize,
        1 | 2 => 5 + r.below(20) as usize,
        3 | 4 => 20 + r.below(60) as usize,
        _ => 100 + r.below(200) as usize,
    }
}

/// (unused since fix 4a8ac11: a nullable column whose NULL tail inside one partition was at least
/// `batch_size` long made the streaming of its null map panic, finding Q4; the generators used to give
/// the last row of every partition a value)
#[allow(dead_code)]
fn fix_null_tails(t: &mut Table, layout: &Layout, cols: &[usize]) {
    let parts = layout.partitions();
    for &c in cols {
        let fill = t.cols[c].cells.iter().find(|v| !v.is_null()).cloned();
        if let Some(fill) = fill {
            let mut end = 0;
            for len in &parts {
                end += len;
                if *len > 0 && t.cols[c].cells[end - 1].is_null() {
                    t.cols[c].cells[end - 1] = fill.clone();
                }
            }
        }
    }
}

fn opts<'a>(cols: &'a [usize]) -> PredOpts<'a> {
    PredOpts {
        cols,
        allow_like: false,
        allow_not: false,
        allow_or: false,
        allow_colcol: false,
        allow_arith: false,
        allow_str_order: false,
        allow_huge_const: false,
        allow_is_null: false,
        allow_float_const_for_int: false,
    }
}

// ---- C03 ------------------------------------------------------------------------------------------

pub fn gen_c03(r: &mut Rng, tier: &str) -> Vec<Case> {
    let n_tables = if tier == "thorough" { 300 } else { 60 };
    let mut cases = vec![];
    for ti in 0..n_tables {
        let n = nrows(r, ti);
        let mut table = standard_table(r, n);
        let layout = gen_layout(r, n, 4, false);
        for qi in 0..20 {
            let nonnull = [A, F, S];
            let nullable = [A, B, F, G, S, U];
            let absent = [X, W, A];
            let all = [ID, A, B, F, G, S, U];
            let (o, depth, cls): (PredOpts, usize, &str) = match qi {
                // bulk: non-null columns, every connective, LIKE, column-column, arithmetic
                0..=7 => (
                    PredOpts { allow_like: true, allow_not: true, allow_or: true, allow_colcol: qi % 2 == 0, allow_arith: qi % 3 == 0, allow_float_const_for_int: true, ..opts(&nonnull) },
                    (qi % 4) as usize,
                    "nonnull",
                ),
                // nullable columns under AND (and IS [NOT] NULL)
                8..=11 => (PredOpts { allow_colcol: qi % 2 == 0, allow_is_null: true, allow_arith: qi == 9, allow_float_const_for_int: qi >= 10, ..opts(&nullable) }, (qi % 3) as usize, "nullable-and"),
                12 | 13 => (PredOpts { allow_is_null: true, ..opts(&all) }, 1, "is-null"),
                // slices aimed at known gaps
                14 => (PredOpts { allow_str_order: true, ..opts(&[S, U]) }, 0, "str-order"),
                15 => (PredOpts { allow_or: true, allow_is_null: true, ..opts(&nullable) }, 2, "nullable-or"),
                16 => (PredOpts { allow_not: true, ..opts(&[B, G, U]) }, 1, "nullable-not"),
                17 => (PredOpts { allow_like: true, ..opts(&[U, S]) }, 0, "nullable-like"),
                18 => (PredOpts { allow_is_null: true, ..opts(&absent) }, 1, "absent-col"),
                _ => (PredOpts { allow_huge_const: true, ..opts(&[A, B]) }, 0, "huge-const"),
            };
            let p = gen_pred(r, &table, &o, depth);
            let mut q = Query::select(vec![Sel::Plain(Expr::Col(ID))]);
            if r.chance(1, 4) {
                q.select.push(Sel::Plain(Expr::Col(*r.pick(o.cols))));
            }
            q.filter = Some(p);
            cases.push(Case { class: format!("{}:{}", cls, layout.shape()), input: case_sx(&table, &layout, &[q]) });
        }
        // integer column against a FLOAT literal (and float column against an integer literal): all six
        // operators, literal equal to / half-way between present values, both operand orders
        {
            let n = 6 + r.below(30) as usize;
            let lo = r.range(-3, 100);
            let t2 = Table {
                cols: vec![
                    id_col(n),
                    small_int_col(r, "a", n, lo, 5),
                    crate::val::Col {
                        name: "f".into(),
                        kind: Kind::Float,
                        omit_when_null: false,
                        cells: (0..n).map(|_| V::f((lo + r.below(5) as i64) as f64 + if r.chance(1, 3) { 0.5 } else { 0.0 })).collect(),
                    },
                ],
            };
            let l2 = gen_layout(r, n, 3, false);
            let mut qs = vec![];
            for op in ["eq", "ne", "lt", "le", "gt", "ge"] {
                let k = lo + r.below(5) as i64;
                let (col, lit) = match r.below(4) {
                    0 | 1 => (1, Expr::Const(V::f(k as f64))),
                    2 => (1, Expr::Const(V::f(k as f64 + 0.5))),
                    _ => (2, Expr::int(k)),
                };
                let p = if r.chance(1, 3) { Expr::cmp(op, lit, Expr::Col(col)) } else { Expr::cmp(op, Expr::Col(col), lit) };
                let mut q = Query::select(vec![Sel::Plain(Expr::Col(ID))]);
                q.filter = Some(p);
                qs.push(q);
            }
            cases.push(Case { class: format!("int-vs-float-literal:{}", l2.shape()), input: case_sx(&t2, &l2, &qs) });
        }
    }
    cases
}

// ---- C05 ------------------------------------------------------------------------------------------

fn simple_filter(r: &mut Rng, table: &Table) -> Option<Expr> {
    // filters that stay clear of the predicate gaps (C03's business): non-null columns only
    if r.chance(1, 2) {
        return None;
    }
    let cols = [A, F, S];
    Some(gen_leaf(r, table, &opts(&cols)))
}

fn limit_near(r: &mut Rng, n: usize, parts: &[usize]) -> u64 {
    // limits around half a partition (top-n switch), around the table size, and small ones
    let p = if parts.is_empty() { 1 } else { *r.pick(parts) as i64 };
    let v = match r.below(6) {
        0 => p / 2 + r.range(-2, 2),
        1 => p / 2 - 1,
        2 => n as i64 + r.range(-2, 2),
        3 => r.range(1, 3),
        4 => p + r.range(-1, 1),
        _ => r.range(1, n as i64 + 2),
    };
    v.max(1) as u64
}

fn filtered_count(q: &Query, t: &Table) -> usize {
    refeval::filter_rows(&q.filter, &t.rows()).map(|v| v.len()).unwrap_or(0)
}

pub fn gen_c05(r: &mut Rng, tier: &str) -> Vec<Case> {
    let n_tables = if tier == "thorough" { 300 } else { 50 };
    let mut cases = vec![];
    for ti in 0..n_tables {
        let n = nrows(r, ti);
        let mut table = standard_table(r, n);
        let layout = gen_layout(r, n, 4, false);
        let parts = layout.partitions();
        for qi in 0..20 {
            let mut q = Query::select(vec![Sel::Plain(Expr::Col(ID))]);
            let (keycols, cls): (Vec<usize>, &str) = match qi {
                0..=9 => (vec![A, F, S, ID], "nonnull-keys"),
                10..=12 => (vec![], "no-order"),
                13 | 14 => (vec![A, B, F, G, S, U], "nullable-keys"),
                15 => (vec![B, G, U], "topn-nullable"),
                16 => (vec![X, W, A], "absent-keys"),
                17 => (vec![B], "expr-key-nullable"),
                _ => (vec![A, F, S], if ti % 2 == 0 { "limit-offset-edges" } else { "nonnull-keys" }),
            };
            let qi = if qi >= 18 && ti % 2 == 1 { 0 } else { qi };
            let qi = if (qi == 15 || qi == 17) && ti % 2 == 1 { 13 } else { qi };
            if !keycols.is_empty() {
                let nk = if qi == 15 || qi == 17 { 1 } else { 1 + r.below(3) as usize };
                for _ in 0..nk {
                    let c = *r.pick(&keycols);
                    let key = if table.cols[c].kind == Kind::Int && (qi == 17 || (c == A && r.chance(1, 6))) {
                        Expr::arith("mod", Expr::Col(c), Expr::int(1 + r.range(1, 4)))
                    } else {
                        Expr::Col(c)
                    };
                    q.order.push((OKey::Expr(key), r.chance(1, 2)));
                }
            }
            // project some keys and some other columns (nullable columns only where the slice has them)
            let proj: &[usize] = if qi >= 13 && qi <= 17 { &[A, B, F, G, S, U] } else { &[A, F, S] };
            for c in proj {
                if r.chance(1, 4) {
                    q.select.push(Sel::Plain(Expr::Col(*c)));
                }
            }
            if !q.order.is_empty() && r.chance(1, 2) {
                if let OKey::Expr(e) = &q.order[0].0 {
                    q.select.push(Sel::Plain(e.clone()));
                }
            }
            q.filter = simple_filter(r, &table);
            let cnt = filtered_count(&q, &table) as u64;
            match qi {
                15 => {
                    // single nullable key with LIMIT below half a partition: top-n over a nullable key
                    let p = *parts.iter().max().unwrap_or(&1) as u64;
                    q.limit = Some((p / 2).saturating_sub(1).max(1));
                }
                18 => {
                    // LIMIT 0, OFFSET at / beyond the number of rows
                    match r.below(3) {
                        0 => q.limit = Some(0),
                        1 => {
                            q.limit = Some(limit_near(r, n, &parts));
                            q.offset = cnt + r.below(3);
                            q.explicit_offset = true;
                        }
                        _ => {
                            q.limit = Some(limit_near(r, n, &parts));
                            q.offset = cnt;
                            q.explicit_offset = true;
                        }
                    }
                }
                19 => {
                    // OFFSET without LIMIT
                    q.offset = r.below(cnt + 1);
                    q.explicit_offset = true;
                }
                _ => match r.below(12) {
                    0 => {}
                    1..=4 => q.limit = Some(limit_near(r, n, &parts)),
                    5..=7 => {
                        q.limit = Some(limit_near(r, n, &parts));
                        q.offset = r.below(cnt.max(1)); // strictly inside the result
                    }
                    8 => q.limit = Some(0),
                    9 => {
                        // OFFSET at / beyond the number of result rows
                        q.limit = Some(limit_near(r, n, &parts));
                        q.offset = cnt + r.below(3);
                        q.explicit_offset = true;
                    }
                    10 => {
                        // OFFSET without LIMIT
                        q.offset = r.below(cnt + 2);
                        q.explicit_offset = true;
                    }
                    _ => {
                        q.limit = Some(limit_near(r, n, &parts));
                        q.offset = r.below(cnt + 2);
                    }
                },
            }
            if qi == 13 || qi == 14 {
                // keep nullable keys out of the top-n path (that is slice 15): a single nullable key
                // gets no LIMIT, and no OFFSET either (a wrapped / saturated limit would select top-n)
                if q.order.len() == 1 {
                    q.limit = None;
                    q.offset = 0;
                    q.explicit_offset = false;
                }
            }
            cases.push(Case { class: format!("{}:{}", cls, layout.shape()), input: case_sx(&table, &layout, &[q]) });
        }
        // a sort key that is NULL throughout one of >= 3 partitions: that partition's result is typed
        // Null and the k-way merge compares the other partitions' keys as dynamically typed values
        {
            let nb = 3 + r.below(2) as usize;
            let per = 2 + r.below(4) as usize;
            let n = nb * per;
            let hole = r.below(nb as u64) as usize;
            let kind = *r.pick(&[Kind::Str, Kind::Str, Kind::Int, Kind::Float]);
            let omit = r.chance(1, 2);
            let words = ["alpha", "bravo", "charlie", "delta", "echo", "kilo", "mike", "yankee", "zulu", "a", "", "Zebra"];
            let cells: Vec<V> = (0..n)
                .map(|i| {
                    if i / per == hole {
                        V::Null
                    } else {
                        match kind {
                            Kind::Str => V::s(*r.pick(&words)),
                            Kind::Int => V::Int(r.range(-50, 50)),
                            Kind::Float => V::f(r.range(-50, 50) as f64 / 2.0),
                        }
                    }
                })
                .collect();
            let t2 = Table { cols: vec![id_col(n), crate::val::Col { name: "key".into(), kind, omit_when_null: omit, cells }] };
            let mut l2 = Layout::single(n);
            l2.batches = vec![per; nb];
            l2.flush = (0..nb).map(|i| i + 1 < nb || r.chance(1, 2)).collect();
            l2.threads = *r.pick(&[1usize, 2]);
            let mut qs = vec![];
            for desc in [true, false] {
                let mut q = Query::select(vec![Sel::Plain(Expr::Col(1))]);
                if r.chance(1, 2) {
                    q.select.push(Sel::Plain(Expr::Col(ID)));
                }
                q.order.push((OKey::Expr(Expr::Col(1)), desc));
                if r.chance(1, 3) {
                    q.limit = Some((n - r.below(3) as usize) as u64); // well above half a partition: no top-n
                }
                qs.push(q);
            }
            let cls = format!("null-partition-key-{}{}", match kind { Kind::Str => "str", Kind::Int => "int", Kind::Float => "float" }, if omit { "-absent" } else { "" });
            cases.push(Case { class: format!("{}:hole{}of{}", cls, hole, nb), input: case_sx(&t2, &l2, &qs) });
        }
        // top-n whose LIMIT + OFFSET exceeds the streaming batch size (but stays below half a partition):
        // the heap has to keep growing after the first batch
        if ti % 2 == 0 {
            let n = 60 + r.below(60) as usize;
            let t3 = Table {
                cols: vec![
                    id_col(n),
                    small_int_col(r, "k", n, -20, 1000),
                    crate::val::Col { name: "f".into(), kind: Kind::Float, omit_when_null: false, cells: (0..n).map(|_| V::f(r.range(-4000, 4000) as f64 / 8.0)).collect() },
                ],
            };
            let mut l3 = Layout::single(n);
            l3.flush = vec![r.chance(1, 2)];
            l3.bsize = 8;
            l3.threads = *r.pick(&[1usize, 2]);
            let mut qs = vec![];
            for _ in 0..2 {
                let key = *r.pick(&[1usize, 2, 0]);
                let mut q = Query::select(vec![Sel::Plain(Expr::Col(ID)), Sel::Plain(Expr::Col(key))]);
                q.order.push((OKey::Expr(Expr::Col(key)), r.chance(1, 2)));
                let total = 9 + r.below((n / 2 - 10) as u64); // 8 < LIMIT + OFFSET < n / 2
                q.offset = if r.chance(1, 2) { r.below(total) } else { 0 };
                q.limit = Some(total - q.offset);
                qs.push(q);
            }
            cases.push(Case { class: "topn-beyond-batch".into(), input: case_sx(&t3, &l3, &qs) });
        }
    }
    cases
}

// ---- C04 ------------------------------------------------------------------------------------------

/// a table geared to grouping: low / medium cardinality keys of every type, nullable and partially
/// absent, plus measure columns
pub fn group_table(r: &mut Rng, n: usize, card: usize) -> Table {
    let nb = *r.pick(&[3u64, 6]);
    let ca = r.below(N_INT_CLASSES as u64) as usize;
    let cm = *r.pick(&[0usize, 2, 3, 9, 12, 15]);
    Table {
        cols: vec![
            id_col(n),
            int_col(r, "a", n, ca, Some(card), Nulls::None),
            int_col(r, "b", n, 4, Some(card), Nulls::Some(nb)),
            int_col(r, "x", n, 0, Some(card), Nulls::Stretches),
            float_col(r, "f", n, 0, Some(card), Nulls::None),
            float_col(r, "g", n, 0, Some(card), Nulls::Some(nb)),
            str_col(r, "s", n, if card > 200 { 2 } else { 1 }, if card > 200 { None } else { Some(card) }, Nulls::None),
            str_col(r, "u", n, 0, Some(card), Nulls::Some(nb)),
            str_col(r, "w", n, 1, Some(card), Nulls::Stretches),
            // measures
            int_col(r, "m", n, cm, None, Nulls::None),
            int_col(r, "mn", n, cm, None, Nulls::Some(4)),
            float_col(r, "fm", n, 1, None, Nulls::None),
            float_col(r, "fn", n, 0, None, Nulls::Some(4)),
            int_col(r, "mx", n, cm, None, Nulls::Stretches),
        ],
    }
}

pub const M: usize = 9;
pub const MN: usize = 10;
pub const FM: usize = 11;
pub const FN: usize = 12;
pub const MX: usize = 13;

fn gen_agg(r: &mut Rng, table: &Table, measures: &[usize]) -> Sel {
    let c = *r.pick(measures);
    let is_float = table.cols[c].kind == Kind::Float;
    match r.below(8) {
        0 => Sel::Agg("count", Expr::int(1)),
        1 => Sel::Agg("count", Expr::Col(c)),
        2 | 3 => Sel::Agg("sum", Expr::Col(c)),
        4 => Sel::Agg("min", Expr::Col(c)),
        5 => Sel::Agg("max", Expr::Col(c)),
        6 if !is_float => Sel::Agg("sum", Expr::arith("add", Expr::Col(c), Expr::int(1))),
        _ => {
            if is_float {
                Sel::Agg("sum", Expr::Col(c))
            } else {
                Sel::Avg(Expr::Col(c))
            }
        }
    }
}

pub fn gen_c04(r: &mut Rng, tier: &str) -> Vec<Case> {
    let n_tables = if tier == "thorough" { 160 } else { 40 };
    let mut cases = vec![];
    for ti in 0..n_tables {
        let (n, card) = match ti % 8 {
            0 => (1 + r.below(5) as usize, 2),
            1 | 2 => (10 + r.below(40) as usize, 1 + r.below(4) as usize),
            3 | 4 => (30 + r.below(100) as usize, 3 + r.below(12) as usize),
            5 => (300 + r.below(150) as usize, 250 + r.below(10) as usize), // cardinality around 255/256
            6 => (100 + r.below(100) as usize, 40),
            _ => (20 + r.below(30) as usize, 1),
        };
        let mut table = group_table(r, n, card);
        let layout = gen_layout(r, n, 4, false);
        for qi in 0..20 {
            let qi = if qi >= 13 && (ti + qi) % 2 == 1 { 3 + qi % 8 } else { qi };
            let (keys, measures, cls): (Vec<usize>, Vec<usize>, &str) = match qi {
                0..=2 => (vec![], vec![M, FM], "global"),
                3..=11 => (vec![*r.pick(&[A, S, F])], vec![M, FM], "one-nonnull-key"),
                12 => (vec![*r.pick(&[A, S]), ID], vec![M, FM], "two-keys-with-id"),
                // slices aimed at known gaps
                13 => {
                    let k1 = *r.pick(&[A, S, F]);
                    let k2 = *r.pick(&[A, S, F]);
                    (if k1 == k2 { vec![k1, ID] } else { vec![k1, k2] }, vec![M, FM], "two-nonnull-keys")
                }
                14 => (vec![*r.pick(&[A, S]), *r.pick(&[B, U, G]), *r.pick(&[F, ID])], vec![M, FM], "three-keys-mixed"),
                15 => (vec![*r.pick(&[B, U])], vec![M, FM], "one-nullable-key"),
                16 => (vec![G], vec![M, FM], "nullable-float-key"),
                17 => (vec![*r.pick(&[X, W])], vec![M, FM], "absent-key"),
                18 => (vec![*r.pick(&[A, S])], vec![MN, FN], "nullable-measure"),
                _ => (vec![*r.pick(&[A, S])], vec![MX], "absent-measure"),
            };
            let mut q = Query::select(keys.iter().map(|c| Sel::Plain(Expr::Col(*c))).collect());
            let nagg = 1 + r.below(3) as usize;
            for _ in 0..nagg {
                q.select.push(gen_agg(r, &table, &measures));
            }
            if r.chance(1, 3) {
                q.filter = simple_filter(r, &table);
            }
            // ORDER BY an output column / LIMIT (>= 1) in a minority of the cases
            if qi <= 12 {
                if r.chance(1, 5) {
                    let i = r.below(q.select.len() as u64) as usize;
                    q.order.push((OKey::Out(i), r.chance(1, 2)));
                    if r.chance(1, 2) {
                        q.limit = Some(1 + r.below(card as u64 + 2));
                    }
                } else if r.chance(1, 8) {
                    q.limit = Some(1 + r.below(card as u64 + 2));
                }
            }
            cases.push(Case { class: format!("{}:{}", cls, layout.shape()), input: case_sx(&table, &layout, &[q]) });
        }
        for (cls, t2, l2, qs) in agg_shape_cases(r) {
            cases.push(Case { class: format!("{}:{}", cls, l2.shape()), input: case_sx(&t2, &l2, &qs) });
        }
    }
    cases
}

// ---- dedicated aggregate shapes (expected to hold on the engine; each guards a merge path) ----------

fn small_int_col(r: &mut Rng, name: &str, n: usize, lo: i64, distinct: i64) -> crate::val::Col {
    crate::val::Col {
        name: name.into(),
        kind: Kind::Int,
        omit_when_null: false,
        cells: (0..n).map(|_| V::Int(lo + r.below(distinct as u64) as i64)).collect(),
    }
}

/// (class, table, layout, queries): small tables built for one aggregate-merge shape each.
pub fn agg_shape_cases(r: &mut Rng) -> Vec<(&'static str, Table, Layout, Vec<Query>)> {
    let mut out = vec![];
    // 1. three narrow integer grouping keys, the middle one varying inside one value of the first, over
    //    several partitions (partition + subpartition + merge_deduplicate_partitioned + merge_drop)
    {
        let n = 12 + r.below(40) as usize;
        let table = Table {
            cols: vec![
                id_col(n),
                small_int_col(r, "k1", n, 0, 2),
                small_int_col(r, "k2", n, 10, 3),
                small_int_col(r, "k3", n, 100, 2),
                small_int_col(r, "m", n, -5, 50),
            ],
        };
        let mut layout = gen_layout(r, n, 4, false);
        if layout.batches.len() < 2 {
            layout = Layout::single(n);
            layout.batches = vec![n / 2, n - n / 2];
            layout.flush = vec![true, r.chance(1, 2)];
        }
        let mut q = Query::select(vec![Sel::Plain(Expr::Col(1)), Sel::Plain(Expr::Col(2)), Sel::Plain(Expr::Col(3))]);
        q.select.push(Sel::Agg("count", Expr::int(1)));
        q.select.push(Sel::Agg(*r.pick(&["sum", "min", "max"]), Expr::Col(4)));
        out.push(("three-small-keys", table, layout, vec![q]));
    }
    // 2. grouping by a column that no batch ever mentions, under a WHERE that removes rows, counting
    //    rows: the single NULL group must report the filtered count
    {
        let n = 6 + r.below(40) as usize;
        let table = Table {
            cols: vec![
                id_col(n),
                small_int_col(r, "a", n, 0, 6),
                crate::val::Col { name: "z".into(), kind: Kind::Int, omit_when_null: true, cells: vec![V::Null; n] },
                small_int_col(r, "m", n, 0, 100),
            ],
        };
        let layout = gen_layout(r, n, 3, false);
        let mut q = Query::select(vec![Sel::Plain(Expr::Col(2)), Sel::Agg("count", Expr::int(*r.pick(&[0i64, 1])))]);
        if r.chance(1, 2) {
            q.select.push(Sel::Agg("sum", Expr::Col(3)));
        }
        q.filter = Some(Expr::cmp(*r.pick(&["lt", "ge", "ne"]), Expr::Col(1), Expr::int(r.range(1, 4))));
        out.push(("never-present-key", table, layout, vec![q]));
    }
    // 3. nullable FLOAT measure: one group has values in the first partition and only NULLs in the later
    //    one(s) (f64 null coalescing in merge_aggregate, both operand orders)
    {
        let n = 8 + r.below(30) as usize;
        let cut = n / 2;
        let keys: Vec<i64> = (0..n).map(|_| r.below(3) as i64).collect();
        let g = keys[0];
        let early_null = r.chance(1, 3); // also the mirrored shape: NULL-only in the EARLIER partition
        let fm: Vec<V> = (0..n)
            .map(|i| {
                let in_null_part = if early_null { i < cut } else { i >= cut };
                if keys[i] == g && in_null_part {
                    V::Null
                } else {
                    V::f(r.range(-400, 400) as f64 / 4.0)
                }
            })
            .collect();
        let table = Table {
            cols: vec![
                id_col(n),
                crate::val::Col { name: "k".into(), kind: Kind::Int, omit_when_null: false, cells: keys.iter().map(|x| V::Int(*x)).collect() },
                crate::val::Col { name: "fv".into(), kind: Kind::Float, omit_when_null: false, cells: fm },
            ],
        };
        let mut layout = Layout::single(n);
        layout.batches = vec![cut, n - cut];
        layout.flush = vec![true, r.chance(1, 2)];
        layout.bsize = *r.pick(&[1024usize, 64]);
        let mut q = Query::select(vec![Sel::Plain(Expr::Col(1))]);
        for k in ["sum", "min", "max"] {
            if r.chance(2, 3) {
                q.select.push(Sel::Agg(k, Expr::Col(2)));
            }
        }
        if q.select.len() == 1 {
            q.select.push(Sel::Agg("max", Expr::Col(2)));
        }
        out.push(("float-measure-null-only-group", table, layout, vec![q]));
    }
    // 4. integer measure that is nullable in the first partition (one group NULL-only there) and absent
    //    from the second: the I64 partial aggregates are cast to F64 at the merge
    {
        let n = 8 + r.below(30) as usize;
        let cut = n / 2;
        let keys: Vec<i64> = (0..n).map(|_| r.below(3) as i64).collect();
        let g = keys[0];
        let v: Vec<V> = (0..n)
            .map(|i| if i >= cut || keys[i] == g { V::Null } else { V::Int(r.range(-1000, 1000)) })
            .collect();
        // the first partition must keep at least one value, otherwise the column is absent everywhere
        let has_value = v[..cut].iter().any(|x| !x.is_null());
        if has_value {
            let table = Table {
                cols: vec![
                    id_col(n),
                    crate::val::Col { name: "k".into(), kind: Kind::Int, omit_when_null: false, cells: keys.iter().map(|x| V::Int(*x)).collect() },
                    crate::val::Col { name: "v".into(), kind: Kind::Int, omit_when_null: true, cells: v },
                ],
            };
            let mut layout = Layout::single(n);
            layout.batches = vec![cut, n - cut];
            layout.flush = vec![true, r.chance(1, 2)];
            let mut q = Query::select(vec![Sel::Plain(Expr::Col(1))]);
            q.select.push(Sel::Agg(*r.pick(&["sum", "max", "min"]), Expr::Col(2)));
            out.push(("int-measure-absent-later", table, layout, vec![q]));
        }
    }
    out
}

// ---- C02 ------------------------------------------------------------------------------------------

pub fn gen_c02(r: &mut Rng, tier: &str) -> Vec<Case> {
    let n_tables = if tier == "thorough" { 250 } else { 60 };
    let mut cases = vec![];
    for ti in 0..n_tables {
        let n = match ti % 5 {
            0 => 2 + r.below(5) as usize,
            1 | 2 => 8 + r.below(40) as usize,
            _ => 40 + r.below(160) as usize,
        };
        let card = 1 + r.below(6) as usize;
        let mut table = group_table(r, n, card);
        // two physical realisations; compaction (factor 0/1/4) in one slice only: compaction has
        // defects of its own (C07)
        let compaction = ti % 10 == 9;
        let l1 = gen_layout(r, n, 5, compaction);
        let mut l2 = gen_layout(r, n, 5, false);
        if ti % 3 == 0 {
            l2 = Layout::single(n); // one buffer, default options
        }
        let mut qs = vec![];
        // 1. filter / select over non-null columns, nullable column projected
        let cols = [A, F, S, M];
        let o = PredOpts { allow_or: true, allow_not: true, allow_colcol: true, allow_arith: true, ..opts(&cols) };
        let mut q = Query::select(vec![Sel::Plain(Expr::Col(ID)), Sel::Plain(Expr::Col(*r.pick(&[A, B, S, U, G])))]);
        q.filter = Some(gen_pred(r, &table, &o, 2));
        if r.chance(1, 2) {
            q.limit = Some(1 + r.below(n as u64 + 2));
        }
        qs.push(q);
        // 2. filter over nullable columns (AND only)
        let cols2 = [A, B, G, U, S];
        let o2 = PredOpts { allow_is_null: true, ..opts(&cols2) };
        let mut q = Query::select(vec![Sel::Plain(Expr::Col(ID))]);
        q.filter = Some(gen_pred(r, &table, &o2, 1));
        qs.push(q);
        // 3. order by non-null keys with limit
        let mut q = Query::select(vec![Sel::Plain(Expr::Col(ID)), Sel::Plain(Expr::Col(M))]);
        for _ in 0..1 + r.below(2) {
            q.order.push((OKey::Expr(Expr::Col(*r.pick(&[A, M, F, S, FM]))), r.chance(1, 2)));
        }
        if r.chance(2, 3) {
            q.limit = Some(1 + r.below(n as u64 + 2));
        }
        qs.push(q);
        // 4. aggregate: global or one non-null key
        let keys: Vec<usize> = if r.chance(1, 3) { vec![] } else { vec![*r.pick(&[A, S, F])] };
        let mut q = Query::select(keys.iter().map(|c| Sel::Plain(Expr::Col(*c))).collect());
        q.select.push(Sel::Agg("count", Expr::int(1)));
        q.select.push(gen_agg(r, &table, &[M, FM]));
        qs.push(q);
        // 5. one query from the gap-prone part of the space (nullable / absent columns as sort key,
        //    grouping key or measure): the classes of C03-C05 seen through the layout oracle
        if ti % 4 == 0 {
            let mut q = match r.below(3) {
                0 => {
                    let mut q = Query::select(vec![Sel::Plain(Expr::Col(ID)), Sel::Plain(Expr::Col(*r.pick(&[X, W, MX, B])))]);
                    q.order.push((OKey::Expr(Expr::Col(*r.pick(&[B, U, G]))), r.chance(1, 2)));
                    q
                }
                1 => Query::select(vec![Sel::Plain(Expr::Col(*r.pick(&[B, U, X]))), Sel::Agg("count", Expr::int(1))]),
                _ => Query::select(vec![Sel::Plain(Expr::Col(A)), Sel::Agg("sum", Expr::Col(MX))]),
            };
            q.explicit_offset = false;
            qs.push(q);
        }
        cases.push(Case {
            class: format!("{}|{}{}", l1.shape(), l2.shape(), if compaction { ":compaction" } else { "" }),
            input: pair_sx(&table, &l1, &l2, &qs),
        });
        for (cls, t2, la, qs) in agg_shape_cases(r) {
            let lb = Layout::single(t2.nrows());
            cases.push(Case { class: format!("{}:{}|{}", cls, la.shape(), lb.shape()), input: pair_sx(&t2, &la, &lb, &qs) });
        }
        if ti % 2 == 0 {
            // rows in the FROZEN buffer (flush in progress) + rows in the open buffer, SELECT * and a
            // column-filtered query in that window
            let n = 4 + r.below(20) as usize;
            let t3 = Table {
                cols: vec![
                    id_col(n),
                    small_int_col(r, "a", n, 0, 50),
                    str_col(r, "s", n, 0, None, Nulls::None),
                ],
            };
            let a = r.below(n as u64 - 2) as usize; // 0: no flushed partition yet
            let b = a + 1 + r.below((n - a - 2) as u64 + 1) as usize; // a < b < n
            cases.push(Case {
                class: format!("mid-flush:{}", if a == 0 { "no-partition" } else { "partition" }),
                input: lvharness::sx::Sx::tagged("midflush", vec![t3.sx(), lvharness::sx::Sx::int(a), lvharness::sx::Sx::int(b)]),
            });
        }
    }
    cases
}

#[allow(dead_code)]
fn unused(_: V) {}
