//! Generators of the API-level suites c03_filter, c05_order, c04_group, c02_layout.
use crate::api::{case_sx, pair_sx};
use crate::db::{gen_layout, Layout};
use crate::pgen::{gen_pred, PredOpts};
use crate::query::{Expr, OKey, Query, Sel};
use crate::tgen::*;
use crate::val::{Kind, Table};
use lvharness::rng::Rng;
use lvharness::suite::Case;

fn nrows(r: &mut Rng, i: usize) -> usize {
    match i % 6 {
        0 => 1 + r.below(4) as usize,
        1 | 2 => 5 + r.below(20) as usize,
        3 | 4 => 20 + r.below(60) as usize,
        _ => 100 + r.below(200) as usize,
    }
}

// ---- C03 ------------------------------------------------------------------------------------------

pub fn gen_c03(r: &mut Rng, tier: &str) -> Vec<Case> {
    let n_tables = if tier == "thorough" { 1500 } else { 70 };
    let mut cases = vec![];
    for ti in 0..n_tables {
        let n = nrows(r, ti);
        let table = standard_table(r, n);
        let layout = gen_layout(r, n, 4, false);
        // classes of predicates, each with its own share of the budget; the classes that are known to
        // hit engine gaps (OR / NOT / LIKE over nullable columns, columns absent from a partition)
        // are confined to their own small slices
        let mut qs = vec![];
        let mut classes = vec![];
        for qi in 0..10 {
            let (cols, like, not, or, cls): (Vec<usize>, bool, bool, bool, &str) = match qi {
                0 | 1 | 2 => (vec![A, F, S], false, false, true, "nonnull"),          // no NULLs anywhere
                3 | 4 => (vec![A, B, F, G, S, U], false, false, false, "nullable-and"),
                5 => (vec![A, F, S], true, true, true, "nonnull-like-not"),
                6 => (vec![A, B, G, U, S], false, false, true, "nullable-or"),
                7 => (vec![B, G, U, A], true, true, false, "nullable-like-not"),
                8 => (vec![X, W, A], false, false, false, "absent-col"),
                _ => (vec![ID, A, B, F, G, S, U], false, false, true, "mixed"),
            };
            let o = PredOpts { cols: &cols, allow_like: like, allow_not: not, allow_or: or, allow_colcol: qi % 2 == 0, allow_arith: qi == 9 || qi == 1 };
            let depth = r.below(4) as usize;
            let p = gen_pred(r, &table, &o, depth);
            let mut q = Query::select(vec![Sel::Plain(Expr::Col(ID))]);
            if r.chance(1, 4) {
                q.select.push(Sel::Plain(Expr::Col(*r.pick(&cols))));
            }
            q.filter = Some(p);
            qs.push(q);
            classes.push(cls);
        }
        // one case per class slice so that the histogram shows the distribution
        for (q, cls) in qs.into_iter().zip(classes) {
            cases.push(Case { class: format!("{}:{}", cls, layout.shape()), input: case_sx(&table, &layout, &[q]) });
        }
    }
    cases
}
