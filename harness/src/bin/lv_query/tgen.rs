//! Table generators for the API-level suites: type-homogeneous int / float / string columns,
//! non-null, nullable, or absent from whole stretches of rows (hence from some partitions), with
//! values at encoding edges and controlled cardinalities.
use crate::gen::{clamp_i64, edge_in};
use crate::val::{Col, Kind, Table, V};
use lvharness::rng::Rng;

pub const WORDS: [&str; 24] = [
    "", "a", "aa", "ab", "b", "ba", "m", "mm", "n", "z", "zz", "A", "Zebra", "apple", "banana", "cherry",
    "date", "elder", "fig", "grape", "é", "日本", "a b", "x_y",
];

/// inclusive range of an integer column class: narrow ranges at the edges of the encodings
pub fn int_class_range(class: usize) -> (i128, i128) {
    match class {
        0 => (0, 255),
        1 => (0, 256),
        2 => (1000, 1255),
        3 => (0, 65535),
        4 => (-40000, 25535),
        5 => (0, (1 << 32) - 1),
        6 => ((1 << 32) - 5, (1 << 32) + 5),
        7 => ((i64::MAX - 300) as i128, (i64::MAX - 1) as i128),
        8 => ((i64::MIN + 1) as i128, (i64::MIN + 300) as i128),
        9 => (-3, 3),
        10 => ((1 << 31) - 3, (1 << 31) + 3),
        11 => (0, 1),
        12 => (-128, 127),
        13 => (0, 65536),                                     // one past u16: grouping switches from array to hash at 65 536
        14 => (100, 65637),
        _ => (-(1 << 40), 1 << 40),
    }
}

pub const N_INT_CLASSES: usize = 16;

pub fn gen_ints(r: &mut Rng, n: usize, class: usize, distinct: Option<usize>) -> Vec<i64> {
    let (lo, hi) = int_class_range(class);
    match distinct {
        Some(k) => {
            let pool: Vec<i64> = (0..k.max(1)).map(|_| clamp_i64(edge_in(r, lo, hi))).collect();
            (0..n).map(|_| *r.pick(&pool)).collect()
        }
        None => (0..n).map(|_| clamp_i64(edge_in(r, lo, hi))).collect(),
    }
}

pub fn gen_float(r: &mut Rng, class: usize) -> f64 {
    match class {
        0 => r.range(-40, 40) as f64 / 4.0,                         // short decimals, many ties
        1 => r.range(-1_000_000, 1_000_000) as f64 / 16.0,
        2 => *r.pick(&[0.0, 1.0, -1.0, 0.5, 1e-300, -1e-300, 1e300, -1e300, f64::INFINITY, f64::NEG_INFINITY, 5e-324]),
        _ => (r.range(-1000, 1000) as f64) * 1e10 + r.range(0, 9) as f64,
    }
}

pub fn gen_str(r: &mut Rng, class: usize) -> String {
    match class {
        0 => r.pick(&WORDS[..12]).to_string(),                       // low cardinality, short
        1 => r.pick(&WORDS).to_string(),
        2 => format!("k{:03}", r.below(300)),                        // cardinality around 255/256
        3 => {
            let n = r.below(6) as usize;
            (0..n).map(|_| *r.pick(&['a', 'b', 'c', 'z', 'M', ' ', 'é'])).collect()
        }
        _ => format!("row-{}-{}", r.below(1000), "x".repeat(r.below(40) as usize)),
    }
}

#[derive(Clone, Copy, Debug, PartialEq)]
pub enum Nulls {
    None,
    /// each cell NULL with probability 1/k
    Some(u64),
    /// NULL over whole stretches of rows; the column is omitted from batches where it is all NULL
    Stretches,
    /// every cell NULL and never mentioned (the column does not exist in the table at all)
    All,
}

pub fn apply_nulls(r: &mut Rng, cells: Vec<V>, nulls: Nulls) -> Vec<V> {
    let n = cells.len();
    match nulls {
        Nulls::None => cells,
        Nulls::Some(k) => cells.into_iter().map(|v| if r.chance(1, k) { V::Null } else { v }).collect(),
        Nulls::All => vec![V::Null; n],
        Nulls::Stretches => {
            let mut out = cells;
            let pieces = 1 + r.below(2);
            for _ in 0..pieces {
                let start = r.below(n.max(1) as u64) as usize;
                let len = r.below((n as u64 / 2).max(1) + 1) as usize;
                for c in out.iter_mut().skip(start).take(len) {
                    *c = V::Null;
                }
            }
            out
        }
    }
}

pub fn id_col(n: usize) -> Col {
    Col { name: "id".into(), kind: Kind::Int, omit_when_null: false, cells: (0..n as i64).map(V::Int).collect() }
}

pub fn int_col(r: &mut Rng, name: &str, n: usize, class: usize, distinct: Option<usize>, nulls: Nulls) -> Col {
    let mut vals = gen_ints(r, n, class, distinct);
    if nulls != Nulls::None {
        // a nullable column holding i64::MIN is C01's F19
        for v in vals.iter_mut() {
            if *v == i64::MIN {
                *v += 1;
            }
        }
    }
    let cells = apply_nulls(r, vals.into_iter().map(V::Int).collect(), nulls);
    Col { name: name.into(), kind: Kind::Int, omit_when_null: matches!(nulls, Nulls::Stretches | Nulls::All), cells }
}

pub fn float_col(r: &mut Rng, name: &str, n: usize, class: usize, distinct: Option<usize>, nulls: Nulls) -> Col {
    let vals: Vec<f64> = match distinct {
        Some(k) => {
            let pool: Vec<f64> = (0..k.max(1)).map(|_| gen_float(r, class)).collect();
            (0..n).map(|_| *r.pick(&pool)).collect()
        }
        None => (0..n).map(|_| gen_float(r, class)).collect(),
    };
    let cells = apply_nulls(r, vals.into_iter().map(V::f).collect(), nulls);
    Col { name: name.into(), kind: Kind::Float, omit_when_null: matches!(nulls, Nulls::Stretches | Nulls::All), cells }
}

pub fn str_col(r: &mut Rng, name: &str, n: usize, class: usize, distinct: Option<usize>, nulls: Nulls) -> Col {
    let vals: Vec<String> = match distinct {
        Some(k) => {
            let pool: Vec<String> = (0..k.max(1)).map(|_| gen_str(r, class)).collect();
            (0..n).map(|_| r.pick(&pool).clone()).collect()
        }
        None => (0..n).map(|_| gen_str(r, class)).collect(),
    };
    let cells = apply_nulls(r, vals.iter().map(|s| V::s(s)).collect(), nulls);
    Col { name: name.into(), kind: Kind::Str, omit_when_null: matches!(nulls, Nulls::Stretches | Nulls::All), cells }
}

/// The standard mixed table:
///   id  int dense            a  int non-null        b  int nullable       x  int absent in stretches
///   f   float non-null       g  float nullable
///   s   string non-null      u  string nullable     w  string absent in stretches
pub fn standard_table(r: &mut Rng, n: usize) -> Table {
    let card = |r: &mut Rng| match r.below(4) {
        0 => Some(1 + r.below(3) as usize),
        1 => Some(2 + r.below(8) as usize),
        _ => None,
    };
    let ca = r.below(N_INT_CLASSES as u64) as usize;
    let cb = r.below(N_INT_CLASSES as u64) as usize;
    let cx = r.below(N_INT_CLASSES as u64) as usize;
    let (da, db, dx, df, dg, ds, du, dw) = (card(r), card(r), card(r), card(r), card(r), card(r), card(r), card(r));
    let fc = r.below(4) as usize;
    let gc = r.below(2) as usize;
    let sc = r.below(5) as usize;
    let uc = r.below(4) as usize;
    let nb = *r.pick(&[2u64, 4, 8]);
    let ng = *r.pick(&[2u64, 4, 8]);
    let nu = *r.pick(&[2u64, 4, 8]);
    Table {
        cols: vec![
            id_col(n),
            int_col(r, "a", n, ca, da, Nulls::None),
            int_col(r, "b", n, cb, db, Nulls::Some(nb)),
            int_col(r, "x", n, cx, dx, Nulls::Stretches),
            float_col(r, "f", n, fc, df, Nulls::None),
            float_col(r, "g", n, gc, dg, Nulls::Some(ng)),
            str_col(r, "s", n, sc, ds, Nulls::None),
            str_col(r, "u", n, uc, du, Nulls::Some(nu)),
            str_col(r, "w", n, 1, dw, Nulls::Stretches),
        ],
    }
}

pub const ID: usize = 0;
pub const A: usize = 1;
pub const B: usize = 2;
pub const X: usize = 3;
pub const F: usize = 4;
pub const G: usize = 5;
pub const S: usize = 6;
pub const U: usize = 7;
pub const W: usize = 8;

/// does column `c` hold only NULLs in some ingestion batch (so that a partition may lack it / see it
/// as a Null-typed column)?
pub fn all_null_in_some_batch(t: &Table, c: usize, batches: &[usize]) -> bool {
    let mut start = 0;
    for len in batches {
        if *len > 0 && t.cols[c].cells[start..start + len].iter().all(|v| v.is_null()) {
            return true;
        }
        start += len;
    }
    false
}

pub fn has_nulls(t: &Table, c: usize) -> bool {
    t.cols[c].cells.iter().any(|v| v.is_null())
}
