//! Row-at-a-time reference evaluator and result checker in Rust: the implementation-only oracle of
//! the API-level suites. It follows the property texts (and Model/QuerySpec.v, with which it is
//! cross-checked on every case): three-valued predicates, exact-or-overflow i64 arithmetic, implicit
//! grouping, NULL last / first when DESC, ties in any order.
use crate::query::{Expr, OKey, Query, Sel};
use crate::val::{canon_float, V};
use std::cmp::Ordering;

/// expected cell: a value, a boolean (intermediate), or a float sum known only approximately
#[derive(Clone, Debug, PartialEq)]
pub enum E {
    V(V),
    Bool(bool),
    FloatSum(f64),
}

#[derive(Clone, Debug, PartialEq)]
pub enum Fail {
    Overflow,
    Type,
}

pub fn float_key(bits: u64) -> i128 {
    let f = f64::from_bits(bits);
    if f.is_nan() {
        1i128 << 63
    } else if bits < (1u64 << 63) {
        bits as i128
    } else {
        -((bits - (1u64 << 63)) as i128)
    }
}

fn rank(v: &E) -> i32 {
    match v {
        E::Bool(_) => 0,
        E::V(V::Int(_)) => 1,
        E::V(V::Str(_)) => 2,
        E::V(V::Float(_)) => 3,
        E::FloatSum(_) => 4,
        E::V(V::Null) => 5,
    }
}

/// total order: NULL greatest
pub fn val_cmp(a: &E, b: &E) -> Ordering {
    match (a, b) {
        (E::V(V::Int(x)), E::V(V::Int(y))) => x.cmp(y),
        (E::V(V::Float(x)), E::V(V::Float(y))) => float_key(*x).cmp(&float_key(*y)),
        (E::V(V::Str(x)), E::V(V::Str(y))) => x.cmp(y),
        (E::Bool(x), E::Bool(y)) => x.cmp(y),
        _ => rank(a).cmp(&rank(b)),
    }
}

/// exact comparison of an integer with a double (bit pattern); NaN is greatest
pub fn cmp_int_float(z: i64, bits: u64) -> Ordering {
    let f = f64::from_bits(bits);
    if f.is_nan() {
        return Ordering::Less;
    }
    if f.is_infinite() || f.abs() >= 9.3e18 {
        return if f > 0.0 { Ordering::Less } else { Ordering::Greater };
    }
    let t = f.trunc();
    let ti = t as i128; // exact: |t| < 2^64
    match (z as i128).cmp(&ti) {
        Ordering::Equal => {
            let fr = f - t;
            if fr > 0.0 {
                Ordering::Less
            } else if fr < 0.0 {
                Ordering::Greater
            } else {
                Ordering::Equal
            }
        }
        o => o,
    }
}

pub fn spec_arith(op: &str, a: i64, b: i64) -> Result<E, Fail> {
    match crate::c06_kernel::exact(op, a, b) {
        None => Err(Fail::Overflow),
        Some(z) => {
            let guard = op == "div" && a <= -i64::MAX && b == -1;
            if z >= i64::MIN as i128 && z <= i64::MAX as i128 && !guard {
                Ok(E::V(V::Int(z as i64)))
            } else {
                Err(Fail::Overflow)
            }
        }
    }
}

pub fn like_match(p: &[u8], s: &[u8]) -> bool {
    match p {
        [] => s.is_empty(),
        [b'%', b'%', rest @ ..] => !s.is_empty() && s[0] == b'%' && like_match(rest, &s[1..]),
        [b'%', rest @ ..] => like_match(rest, s) || (!s.is_empty() && like_match(p, &s[1..])),
        [b'\\', b'_', rest @ ..] => !s.is_empty() && s[0] == b'_' && like_match(rest, &s[1..]),
        [b'_', rest @ ..] => !s.is_empty() && like_match(rest, &s[1..]),
        [c, rest @ ..] => !s.is_empty() && s[0] == *c && like_match(rest, &s[1..]),
    }
}

pub fn eval_expr(row: &[V], e: &Expr) -> Result<E, Fail> {
    Ok(match e {
        Expr::Col(i) => E::V(row.get(*i).cloned().unwrap_or(V::Null)),
        Expr::Const(v) => E::V(v.clone()),
        Expr::Arith(op, l, r) => {
            let a = eval_expr(row, l)?;
            let b = eval_expr(row, r)?;
            match (&a, &b) {
                (E::V(V::Int(x)), E::V(V::Int(y))) => spec_arith(op, *x, *y)?,
                (E::V(V::Null), E::V(V::Int(_) | V::Null)) | (E::V(V::Int(_)), E::V(V::Null)) => E::V(V::Null),
                _ => return Err(Fail::Type),
            }
        }
        Expr::Cmp(op, l, r) => {
            let a = eval_expr(row, l)?;
            let b = eval_expr(row, r)?;
            if a == E::V(V::Null) || b == E::V(V::Null) {
                E::V(V::Null)
            } else {
                let same = matches!(
                    (&a, &b),
                    (E::V(V::Int(_)), E::V(V::Int(_))) | (E::V(V::Float(_)), E::V(V::Float(_))) | (E::V(V::Str(_)), E::V(V::Str(_)))
                );
                let c = match (&a, &b) {
                    (E::V(V::Int(x)), E::V(V::Float(y))) => cmp_int_float(*x, *y),
                    (E::V(V::Float(x)), E::V(V::Int(y))) => cmp_int_float(*y, *x).reverse(),
                    _ if same => val_cmp(&a, &b),
                    _ => return Err(Fail::Type),
                };
                E::Bool(match *op {
                    "eq" => c == Ordering::Equal,
                    "ne" => c != Ordering::Equal,
                    "lt" => c == Ordering::Less,
                    "le" => c != Ordering::Greater,
                    "gt" => c == Ordering::Greater,
                    _ => c != Ordering::Less,
                })
            }
        }
        Expr::And(l, r) => {
            let a = eval_expr(row, l)?;
            let b = eval_expr(row, r)?;
            match (tv(&a)?, tv(&b)?) {
                (Some(false), _) | (_, Some(false)) => E::Bool(false),
                (Some(true), Some(true)) => E::Bool(true),
                _ => E::V(V::Null),
            }
        }
        Expr::Or(l, r) => {
            let a = eval_expr(row, l)?;
            let b = eval_expr(row, r)?;
            match (tv(&a)?, tv(&b)?) {
                (Some(true), _) | (_, Some(true)) => E::Bool(true),
                (Some(false), Some(false)) => E::Bool(false),
                _ => E::V(V::Null),
            }
        }
        Expr::Not(x) => match tv(&eval_expr(row, x)?)? {
            Some(b) => E::Bool(!b),
            None => E::V(V::Null),
        },
        Expr::IsNull(x) => E::Bool(eval_expr(row, x)? == E::V(V::Null)),
        Expr::IsNotNull(x) => E::Bool(eval_expr(row, x)? != E::V(V::Null)),
        Expr::Like(x, p) => match eval_expr(row, x)? {
            E::V(V::Str(s)) => E::Bool(like_match(p, &s)),
            E::V(V::Null) => E::V(V::Null),
            _ => return Err(Fail::Type),
        },
    })
}

/// truth value: Some(b) / None = NULL
fn tv(e: &E) -> Result<Option<bool>, Fail> {
    match e {
        E::Bool(b) => Ok(Some(*b)),
        E::V(V::Null) => Ok(None),
        _ => Err(Fail::Type),
    }
}

pub fn filter_rows(w: &Option<Expr>, rows: &[Vec<V>]) -> Result<Vec<Vec<V>>, Fail> {
    let mut out = vec![];
    for row in rows {
        match w {
            None => out.push(row.clone()),
            Some(e) => {
                if tv(&eval_expr(row, e)?)? == Some(true) {
                    out.push(row.clone())
                }
            }
        }
    }
    Ok(out)
}

fn keys_cmp(dirs: &[bool], a: &[E], b: &[E]) -> Ordering {
    for ((d, x), y) in dirs.iter().zip(a).zip(b) {
        let c = val_cmp(x, y);
        if c != Ordering::Equal {
            return if *d { c.reverse() } else { c };
        }
    }
    Ordering::Equal
}

fn eval_agg(k: &str, args: &[E]) -> Result<E, Fail> {
    let vs: Vec<&E> = args.iter().filter(|v| **v != E::V(V::Null)).collect();
    match k {
        "count" => Ok(E::V(V::Int(vs.len() as i64))),
        "sum" => {
            if vs.is_empty() {
                return Ok(E::V(V::Null));
            }
            if vs.iter().all(|v| matches!(v, E::V(V::Int(_)))) {
                let s: i128 = vs.iter().map(|v| if let E::V(V::Int(x)) = v { *x as i128 } else { 0 }).sum();
                if s >= i64::MIN as i128 && s <= i64::MAX as i128 {
                    Ok(E::V(V::Int(s as i64)))
                } else {
                    Err(Fail::Overflow)
                }
            } else if vs.iter().all(|v| matches!(v, E::V(V::Float(_)))) {
                Ok(E::FloatSum(vs.iter().map(|v| if let E::V(V::Float(b)) = v { f64::from_bits(*b) } else { 0.0 }).sum()))
            } else {
                Err(Fail::Type)
            }
        }
        _ => {
            if vs.is_empty() {
                return Ok(E::V(V::Null));
            }
            let ints = vs.iter().all(|v| matches!(v, E::V(V::Int(_))));
            let floats = vs.iter().all(|v| matches!(v, E::V(V::Float(_))));
            if !ints && !floats {
                return Err(Fail::Type);
            }
            let mut cur = vs[0];
            for v in &vs[1..] {
                let c = val_cmp(v, cur);
                if (k == "min" && c == Ordering::Less) || (k == "max" && c == Ordering::Greater) {
                    cur = v;
                }
            }
            Ok(cur.clone())
        }
    }
}

fn eval_avg(args: &[E]) -> Result<E, Fail> {
    let s = eval_agg("sum", args)?;
    let c = eval_agg("count", args)?;
    match (s, c) {
        (E::V(V::Int(x)), E::V(V::Int(y))) => spec_arith("div", x, y),
        (E::V(V::Null), E::V(V::Int(_))) => Ok(E::V(V::Null)),
        _ => Err(Fail::Type),
    }
}

pub type PRow = Vec<E>;

/// the answer as ordered tie classes
pub fn eval_classes(q: &Query, table: &[Vec<V>]) -> Result<Vec<Vec<PRow>>, Fail> {
    let rows = filter_rows(&q.filter, table)?;
    let dirs: Vec<bool> = q.order.iter().map(|(_, d)| *d).collect();
    let classes_of = |mut keyed: Vec<(Vec<E>, PRow)>| -> Vec<Vec<PRow>> {
        keyed.sort_by(|a, b| keys_cmp(&dirs, &a.0, &b.0)); // stable
        let mut classes: Vec<Vec<PRow>> = vec![];
        let mut last: Option<Vec<E>> = None;
        for (k, p) in keyed {
            if last.as_ref().map_or(false, |l| keys_cmp(&dirs, l, &k) == Ordering::Equal) {
                classes.last_mut().unwrap().push(p);
            } else {
                classes.push(vec![p]);
                last = Some(k);
            }
        }
        classes
    };
    if q.is_agg() {
        let kes: Vec<&Expr> = q.select.iter().filter_map(|s| if let Sel::Plain(e) = s { Some(e) } else { None }).collect();
        let mut groups: Vec<(Vec<E>, Vec<Vec<V>>)> = vec![];
        for row in &rows {
            let k: Vec<E> = kes.iter().map(|e| eval_expr(row, e)).collect::<Result<_, _>>()?;
            match groups.iter_mut().find(|g| g.0.len() == k.len() && g.0.iter().zip(&k).all(|(a, b)| val_cmp(a, b) == Ordering::Equal)) {
                Some(g) => g.1.push(row.clone()),
                None => groups.push((k, vec![row.clone()])),
            }
        }
        let mut out: Vec<PRow> = vec![];
        for (_, grows) in &groups {
            let mut prow = vec![];
            for s in &q.select {
                prow.push(match s {
                    Sel::Plain(e) => eval_expr(&grows[0], e)?,
                    Sel::Agg(k, e) => {
                        let args: Vec<E> = grows.iter().map(|r| eval_expr(r, e)).collect::<Result<_, _>>()?;
                        eval_agg(k, &args)?
                    }
                    Sel::Avg(e) => {
                        let args: Vec<E> = grows.iter().map(|r| eval_expr(r, e)).collect::<Result<_, _>>()?;
                        eval_avg(&args)?
                    }
                });
            }
            out.push(prow);
        }
        if q.order.is_empty() {
            return Ok(if out.is_empty() { vec![] } else { vec![out] });
        }
        let mut keyed = vec![];
        for p in out {
            let mut k = vec![];
            for (ok, _) in &q.order {
                match ok {
                    OKey::Out(i) => k.push(p.get(*i).cloned().unwrap_or(E::V(V::Null))),
                    OKey::Expr(_) => return Err(Fail::Type),
                }
            }
            keyed.push((k, p));
        }
        Ok(classes_of(keyed))
    } else {
        let mut keyed = vec![];
        for row in &rows {
            let mut p = vec![];
            for s in &q.select {
                match s {
                    Sel::Plain(e) => p.push(eval_expr(row, e)?),
                    _ => return Err(Fail::Type),
                }
            }
            let mut k = vec![];
            for (ok, _) in &q.order {
                k.push(match ok {
                    OKey::Out(i) => p.get(*i).cloned().unwrap_or(E::V(V::Null)),
                    OKey::Expr(e) => eval_expr(row, e)?,
                });
            }
            keyed.push((k, p));
        }
        if q.order.is_empty() {
            Ok(keyed.into_iter().map(|(_, p)| vec![p]).collect())
        } else {
            Ok(classes_of(keyed))
        }
    }
}

thread_local! {
    /// when false a float SUM matches any float (the Coq checker's wildcard); when true it is compared
    /// numerically with a relative tolerance (the harness-side part of the tie, see DESIGN section 3)
    pub static STRICT_FLOAT_SUM: std::cell::Cell<bool> = const { std::cell::Cell::new(true) };
}

pub fn cell_match(exp: &E, act: &V) -> bool {
    match (exp, act) {
        (E::FloatSum(_), V::Float(_)) if !STRICT_FLOAT_SUM.with(|c| c.get()) => true,
        (E::FloatSum(s), V::Float(b)) => {
            let a = f64::from_bits(*b);
            if s.is_nan() || a.is_nan() {
                s.is_nan() == a.is_nan()
            } else if s.is_infinite() || a.is_infinite() {
                *s == a
            } else {
                (s - a).abs() <= 1e-9 * (s.abs().max(a.abs())) + 1e-300
            }
        }
        (E::V(V::Float(x)), V::Float(y)) => float_key(*x) == float_key(canon_float(*y)),
        (E::V(v), a) => v == a,
        _ => false,
    }
}

fn row_match(exp: &PRow, act: &[V]) -> bool {
    exp.len() == act.len() && exp.iter().zip(act).all(|(e, a)| cell_match(e, a))
}

/// why `out` is not rows skip+1..skip+take of an order that lists the classes in sequence
pub fn chk(classes: &[Vec<PRow>], mut skip: usize, mut take: Option<usize>, out: &[Vec<V>]) -> Result<(), String> {
    let mut pos = 0usize;
    for (ci, c) in classes.iter().enumerate() {
        let len = c.len();
        if len <= skip {
            skip -= len;
            continue;
        }
        let avail = len - skip;
        let k = take.map_or(avail, |n| avail.min(n));
        if out.len() < pos + k {
            return Err(format!("rows-missing: {} rows returned, class {} needs rows up to {}", out.len(), ci, pos + k));
        }
        let mut pool: Vec<&PRow> = c.iter().collect();
        for a in &out[pos..pos + k] {
            match pool.iter().position(|e| row_match(e, a)) {
                Some(i) => {
                    pool.remove(i);
                }
                None => {
                    return Err(format!("row-not-in-class: output row {:?} at position {} is not one of the {} rows allowed there", a, pos, len));
                }
            }
            pos += 1;
        }
        skip = 0;
        take = take.map(|n| n - k);
    }
    if pos != out.len() {
        return Err(format!("rows-extra: {} rows returned, {} expected", out.len(), pos));
    }
    Ok(())
}

pub fn may_fail(q: &Query, table: &[Vec<V>]) -> bool {
    for row in table {
        for e in q.exprs() {
            if eval_expr(row, e) == Err(Fail::Overflow) {
                return true;
            }
        }
    }
    if let Ok(rows) = filter_rows(&q.filter, table) {
        let kes: Vec<&Expr> = q.select.iter().filter_map(|s| if let Sel::Plain(e) = s { Some(e) } else { None }).collect();
        let mut groups: Vec<(Vec<E>, Vec<Vec<V>>)> = vec![];
        for row in &rows {
            let k: Result<Vec<E>, Fail> = kes.iter().map(|e| eval_expr(row, e)).collect();
            let k = match k {
                Ok(k) => k,
                Err(_) => return false,
            };
            match groups.iter_mut().find(|g| g.0.iter().zip(&k).all(|(a, b)| val_cmp(a, b) == Ordering::Equal)) {
                Some(g) => g.1.push(row.clone()),
                None => groups.push((k, vec![row.clone()])),
            }
        }
        for (_, grows) in &groups {
            for s in &q.select {
                if let Sel::Agg("sum", e) | Sel::Avg(e) = s {
                    let args: Result<Vec<E>, Fail> = grows.iter().map(|r| eval_expr(r, e)).collect();
                    if let Ok(args) = args {
                        let ints: Vec<i128> = args
                            .iter()
                            .filter_map(|a| if let E::V(V::Int(x)) = a { Some(*x as i128) } else { None })
                            .collect();
                        let nonnull = args.iter().filter(|a| **a != E::V(V::Null)).count();
                        if ints.len() == nonnull {
                            let pos: i128 = ints.iter().filter(|x| **x > 0).sum();
                            let neg: i128 = ints.iter().filter(|x| **x < 0).sum();
                            if pos > i64::MAX as i128 || neg < i64::MIN as i128 {
                                return true;
                            }
                        }
                    }
                }
            }
        }
    }
    false
}

/// the verdict the Coq checker must reproduce: float sums are wildcards
pub fn valid_wildcard(q: &Query, table: &[Vec<V>], out: &crate::db::QOut) -> bool {
    STRICT_FLOAT_SUM.with(|c| c.set(false));
    let r = valid(q, table, out).is_ok();
    STRICT_FLOAT_SUM.with(|c| c.set(true));
    r
}

/// Ok(()) when `out` is a correct answer; Err(reason) otherwise (reason starts with a short tag)
pub fn valid(q: &Query, table: &[Vec<V>], out: &crate::db::QOut) -> Result<(), String> {
    use crate::db::QOut;
    match out {
        QOut::Err(k, _) if k == "overflow" => {
            if may_fail(q, table) {
                Ok(())
            } else {
                Err("spurious-overflow: the query failed with Overflow but no expression or partial sum can overflow".into())
            }
        }
        QOut::Rows(rows) => match eval_classes(q, table) {
            Ok(classes) => {
                let n: usize = classes.iter().map(|c| c.len()).sum();
                let skip = (q.offset.min(n as u64)) as usize;
                let take = q.limit.map(|l| l.min(n as u64) as usize);
                chk(&classes, skip, take, rows)
            }
            Err(Fail::Overflow) => Err("rows-despite-overflow: rows returned although an expression or SUM overflows".into()),
            Err(Fail::Type) => Err("reference-type-error: the reference evaluator rejects the query".into()),
        },
        other => Err(format!("engine-failure: {}", other.signature())),
    }
}


// ---- what kind of difference? --------------------------------------------------------------------

fn cell_relation(exp: &E, act: &V) -> Option<&'static str> {
    if cell_match(exp, act) {
        return None;
    }
    Some(match (exp, act) {
        (E::V(V::Int(0)), V::Null) => "null-for-zero",
        (E::V(V::Null), V::Null) => return None,
        (E::V(V::Null), _) => "value-for-null",
        (_, V::Null) => "null-for-value",
        (E::V(V::Int(x)), V::Float(b)) => {
            let f = f64::from_bits(*b);
            if f == *x as f64 {
                "float-for-int"
            } else {
                "wrong-float-for-int"
            }
        }
        _ => "wrong-value",
    })
}

fn key_repr(vs: &[String]) -> String {
    vs.join("\u{1}")
}

fn e_repr(e: &E) -> String {
    match e {
        E::V(V::Float(b)) => format!("f{}", float_key(*b)),
        E::V(v) => format!("{:?}", v),
        other => format!("{:?}", other),
    }
}

fn v_repr(v: &V) -> String {
    match v {
        V::Float(b) => format!("f{}", float_key(canon_float(*b))),
        v => format!("{:?}", v),
    }
}

/// A coarse description of HOW a row result differs from the expected one (part of the failure
/// bucket, so that a known engine gap only suppresses its own symptom):
///   aggregate queries: dup-groups / missing-groups / extra-groups, or per aggregate the relation of
///   the wrong cell (`sum:float-for-int`, `count:null-for-zero`, `max:wrong-value`, ...);
///   other queries: order-only / missing-rows / extra-rows / other-rows.
pub fn diff_kind(q: &Query, table: &[Vec<V>], out: &[Vec<V>]) -> String {
    let classes = match eval_classes(q, table) {
        Ok(c) => c,
        Err(_) => return "must-fail".into(),
    };
    let expected: Vec<&PRow> = classes.iter().flatten().collect();
    let mut kinds: Vec<String> = vec![];
    let mut add = |k: String| {
        if !kinds.contains(&k) {
            kinds.push(k)
        }
    };
    if q.is_agg() {
        let key_pos: Vec<usize> = q.select.iter().enumerate().filter(|(_, s)| !s.is_agg()).map(|(i, _)| i).collect();
        let ekey = |r: &PRow| key_repr(&key_pos.iter().map(|i| e_repr(&r[*i])).collect::<Vec<_>>());
        let okey = |r: &Vec<V>| key_repr(&key_pos.iter().map(|i| r.get(*i).map_or("?".to_string(), v_repr)).collect::<Vec<_>>());
        let mut seen: std::collections::HashMap<String, usize> = std::collections::HashMap::new();
        for r in out {
            *seen.entry(okey(r)).or_insert(0) += 1;
        }
        if seen.values().any(|c| *c > 1) {
            add("dup-groups".into());
        }
        let ekeys: std::collections::HashSet<String> = expected.iter().map(|r| ekey(r)).collect();
        if q.limit.is_none() && q.offset == 0 && ekeys.iter().any(|k| !seen.contains_key(k)) {
            add("missing-groups".into());
        }
        if seen.keys().any(|k| !ekeys.contains(k)) {
            add("extra-groups".into());
        }
        for r in out {
            if let Some(e) = expected.iter().find(|e| ekey(e) == okey(r)) {
                for (i, s) in q.select.iter().enumerate() {
                    if s.is_agg() {
                        if let Some(rel) = r.get(i).and_then(|a| cell_relation(&e[i], a)) {
                            let name = match s {
                                Sel::Agg(k, _) => *k,
                                Sel::Avg(_) => "avg",
                                _ => "?",
                            };
                            add(format!("{}:{}", name, rel));
                        }
                    }
                }
            }
        }
    } else {
        let mut pool: Vec<&PRow> = expected.clone();
        let mut unmatched = 0usize;
        for r in out {
            match pool.iter().position(|e| e.len() == r.len() && e.iter().zip(r).all(|(e, a)| cell_match(e, a))) {
                Some(i) => {
                    pool.remove(i);
                }
                None => unmatched += 1,
            }
        }
        let windowed = q.limit.is_some() || q.offset > 0;
        if unmatched == 0 && (pool.is_empty() || windowed) {
            add(if windowed { "order-or-window".into() } else { "order-only".into() });
        } else if unmatched == 0 {
            add("missing-rows".into());
        } else if pool.is_empty() || windowed {
            add("extra-rows".into());
        } else {
            add("other-rows".into());
        }
    }
    if kinds.is_empty() {
        kinds.push("unclassified".into());
    }
    kinds.sort();
    kinds.join("+")
}
