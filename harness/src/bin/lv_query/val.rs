//! Values, logical tables and their s-expression syntax (shared by every suite of lv_query).
use lvharness::sx::Sx;

/// A cell. Floats are their 64-bit pattern; strings are byte strings (always valid UTF-8 here).
#[derive(Clone, Debug, PartialEq, Eq, Hash, PartialOrd, Ord)]
pub enum V {
    Null,
    Int(i64),
    Float(u64),
    Str(Vec<u8>),
}

/// OrderedFloat's equality classes: -0 == +0, all NaNs equal.
pub fn canon_float(bits: u64) -> u64 {
    let f = f64::from_bits(bits);
    if f.is_nan() {
        0x7ff8_0000_0000_0000
    } else if f == 0.0 {
        0
    } else {
        bits
    }
}

impl V {
    pub fn f(x: f64) -> V {
        V::Float(canon_float(x.to_bits()))
    }
    pub fn s(x: &str) -> V {
        V::Str(x.as_bytes().to_vec())
    }
    pub fn sx(&self) -> Sx {
        match self {
            V::Null => Sx::a("null"),
            V::Int(i) => Sx::l(vec![Sx::a("i"), Sx::int(i)]),
            V::Float(b) => Sx::l(vec![Sx::a("f"), Sx::int(b)]),
            V::Str(s) => Sx::l(vec![Sx::a("s"), Sx::bytes(s)]),
        }
    }
    pub fn from_sx(x: &Sx) -> V {
        match x {
            Sx::A(a) if a == "null" => V::Null,
            Sx::L(l) if l.len() == 2 => match l[0].atom() {
                "i" => V::Int(l[1].as_i64()),
                "f" => V::Float(l[1].as_u64()),
                "s" => V::Str(unhex(l[1].atom())),
                t => panic!("bad value tag {}", t),
            },
            _ => panic!("bad value {}", x),
        }
    }
    pub fn is_null(&self) -> bool {
        matches!(self, V::Null)
    }
}

pub fn unhex(a: &str) -> Vec<u8> {
    assert!(a.starts_with('x'));
    let h = &a.as_bytes()[1..];
    (0..h.len() / 2)
        .map(|i| u8::from_str_radix(std::str::from_utf8(&h[2 * i..2 * i + 2]).unwrap(), 16).unwrap())
        .collect()
}

#[derive(Clone, Copy, Debug, PartialEq, Eq)]
pub enum Kind {
    Int,
    Float,
    Str,
}

impl Kind {
    pub fn name(&self) -> &'static str {
        match self {
            Kind::Int => "int",
            Kind::Float => "float",
            Kind::Str => "str",
        }
    }
    pub fn parse(s: &str) -> Kind {
        match s {
            "int" => Kind::Int,
            "float" => Kind::Float,
            "str" => Kind::Str,
            _ => panic!("kind {}", s),
        }
    }
}

#[derive(Clone, Debug)]
pub struct Col {
    pub name: String,
    pub kind: Kind,
    /// when true, a batch in which every cell of this column is NULL does not mention the column at
    /// all (so a partition built only from such batches lacks the column); when false the batch
    /// carries an explicit all-NULL (`ColumnData::Empty`) column
    pub omit_when_null: bool,
    pub cells: Vec<V>,
}

/// A logical table: type-homogeneous columns of equal length. Column 0 is always the dense integer
/// row id `id` = 0,1,2,...
#[derive(Clone, Debug)]
pub struct Table {
    pub cols: Vec<Col>,
}

impl Table {
    pub fn nrows(&self) -> usize {
        self.cols.first().map_or(0, |c| c.cells.len())
    }
    pub fn row(&self, i: usize) -> Vec<V> {
        self.cols.iter().map(|c| c.cells[i].clone()).collect()
    }
    pub fn rows(&self) -> Vec<Vec<V>> {
        (0..self.nrows()).map(|i| self.row(i)).collect()
    }
    pub fn col_index(&self, name: &str) -> usize {
        self.cols.iter().position(|c| c.name == name).unwrap()
    }
    pub fn sx(&self) -> Sx {
        Sx::tagged(
            "table",
            self.cols
                .iter()
                .map(|c| {
                    Sx::l(vec![
                        Sx::a(&c.name),
                        Sx::a(c.kind.name()),
                        Sx::boolean(c.omit_when_null),
                        Sx::list(&c.cells, |v| v.sx()),
                    ])
                })
                .collect(),
        )
    }
    pub fn from_sx(x: &Sx) -> Table {
        let items = x.items();
        assert_eq!(items[0].atom(), "table");
        Table {
            cols: items[1..]
                .iter()
                .map(|c| {
                    let c = c.items();
                    Col {
                        name: c[0].atom().to_string(),
                        kind: Kind::parse(c[1].atom()),
                        omit_when_null: c[2].atom() == "true",
                        cells: c[3].items().iter().map(V::from_sx).collect(),
                    }
                })
                .collect(),
        }
    }
    /// rows as the model sees them: (rows (v v ...) ...)
    pub fn rows_sx(&self) -> Sx {
        Sx::l(self.rows().iter().map(|r| Sx::list(r, |v| v.sx())).collect())
    }
}

pub fn rows_sx(rows: &[Vec<V>]) -> Sx {
    Sx::l(rows.iter().map(|r| Sx::list(r, |v| v.sx())).collect())
}
