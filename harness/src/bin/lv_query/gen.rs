//! Shared value generators (edges of u8/u16/u32/i64 and of their offset encodings).
use lvharness::rng::Rng;

pub const EDGES: [i128; 30] = [
    0,
    1,
    -1,
    2,
    127,
    128,
    255,
    256,
    257,
    32767,
    32768,
    65535,
    65536,
    65537,
    (1 << 31) - 1,
    1 << 31,
    (1 << 32) - 1,
    1 << 32,
    (1 << 32) + 1,
    1 << 53,
    1 << 62,
    (1 << 63) - 1,
    -(1 << 63),
    -(1 << 63) + 1,
    -(1 << 62),
    -(1 << 31),
    -(1 << 31) - 1,
    -(1 << 32),
    -256,
    3037000500, // ~ sqrt(2^63)
];

pub fn clamp_i64(x: i128) -> i64 {
    x.clamp(i64::MIN as i128, i64::MAX as i128) as i64
}

/// an i64 at or next to an edge
pub fn edge_i64(r: &mut Rng) -> i64 {
    let base = *r.pick(&EDGES);
    let d = match r.below(4) {
        0 => 0,
        1 => r.range(-2, 2) as i128,
        2 => r.range(-300, 300) as i128,
        _ => 0,
    };
    clamp_i64(base + d)
}

pub fn any_i64(r: &mut Rng) -> i64 {
    match r.below(4) {
        0 => r.next() as i64,
        1 => r.range(-1000, 1000),
        _ => edge_i64(r),
    }
}

pub fn edge_in(r: &mut Rng, lo: i128, hi: i128) -> i128 {
    // value in [lo, hi] biased to both ends
    match r.below(4) {
        0 => lo + (r.below(3) as i128).min(hi - lo),
        1 => hi - (r.below(3) as i128).min(hi - lo),
        _ => lo + (r.next() as u128 % ((hi - lo + 1) as u128)) as i128,
    }
}
