//! Building a LocustDB instance that holds a given logical table under a given physical layout, and
//! running queries against it with panics / hangs reported as outcomes.
use crate::val::{canon_float, Kind, Table, V};
use locustdb::{LocustDB, Options, QueryError, Value};
use locustdb_serialization::api::AnyVal;
use locustdb_serialization::event_buffer::{ColumnBuffer, ColumnData, EventBuffer, TableBuffer};
use lvharness::rng::Rng;
use lvharness::sx::Sx;
use std::collections::HashMap;
use std::sync::atomic::{AtomicU64, Ordering};
use std::sync::{Arc, Mutex, Once};
use std::time::Duration;

pub const TABLE: &str = "t";

// ---- panic capture --------------------------------------------------------------------------------

static PANICS: Mutex<Vec<String>> = Mutex::new(Vec::new());
static HOOK: Once = Once::new();

/// Replace the (silent) panic hook by one that records `<file>: <message>` of every panic, in any
/// thread. Pool-thread panics are only visible this way (the caller just sees `Canceled`).
pub fn install_panic_hook() {
    HOOK.call_once(|| {
        std::panic::set_hook(Box::new(|info| {
            let msg = if let Some(s) = info.payload().downcast_ref::<&str>() {
                s.to_string()
            } else if let Some(s) = info.payload().downcast_ref::<String>() {
                s.clone()
            } else {
                "non-string payload".to_string()
            };
            let file = info
                .location()
                .map(|l| {
                    let f = l.file();
                    match f.find("src/") {
                        Some(p) => f[p..].to_string(),
                        None => f.rsplit('/').next().unwrap_or(f).to_string(),
                    }
                })
                .unwrap_or_default();
            if let Ok(mut p) = PANICS.lock() {
                p.push(format!("{}: {}", file, msg));
            }
        }));
    });
}

pub fn take_panics() -> Vec<String> {
    std::mem::take(&mut *PANICS.lock().unwrap())
}

/// bucket signature of a message: digits and quoted payloads removed, truncated
pub fn skeleton(text: &str) -> String {
    let mut out = String::new();
    let mut in_num = false;
    for c in text.chars() {
        if c.is_ascii_digit() {
            if !in_num {
                out.push('#');
                in_num = true;
            }
        } else {
            in_num = false;
            if c == '\n' {
                out.push(' ');
            } else {
                out.push(c);
            }
        }
    }
    out.chars().take(160).collect()
}

/// Error messages that embed whole `Type { .. }` dumps are reduced to the function and the decoded
/// operand types, e.g. `Function Add not implemented for (Integer, Null)`.
pub fn error_skeleton(msg: &str) -> String {
    if let Some(p) = msg.find("is not implemented for types") {
        let func = msg[..p].rsplit("Function ").next().unwrap_or("").trim().to_string();
        let decoded: Vec<&str> = msg[p..]
            .match_indices("Type { decoded: ")
            .map(|(i, m)| {
                let rest = &msg[p + i + m.len()..];
                rest.split(|c: char| !c.is_alphanumeric()).next().unwrap_or("")
            })
            .collect();
        return format!("Function {} not implemented for ({})", func, decoded.join(", "));
    }
    skeleton(msg)
}

// ---- layouts ----------------------------------------------------------------------------------------

#[derive(Clone, Debug)]
pub struct Layout {
    /// number of rows of each ingestion batch (sum = table rows; every entry > 0)
    pub batches: Vec<usize>,
    /// force_flush after batch i
    pub flush: Vec<bool>,
    pub factor: u64,
    pub lz4: bool,
    pub bsize: usize,
    pub threads: usize,
    pub maxpart: u64,
    pub disk: bool,
    /// build each batch row by row with TableBuffer::push_row_and_timestamp (sparse encodings for
    /// nullable numbers, an extra `timestamp` column) instead of whole typed columns
    pub rowpush: bool,
}

impl Layout {
    pub fn single(n: usize) -> Layout {
        Layout {
            batches: if n == 0 { vec![] } else { vec![n] },
            flush: if n == 0 { vec![] } else { vec![false] },
            factor: 999,
            lz4: false,
            bsize: 1024,
            threads: 1,
            maxpart: 8 * 1024 * 1024,
            disk: false,
            rowpush: false,
        }
    }
    pub fn sx(&self) -> Sx {
        Sx::tagged(
            "layout",
            vec![
                Sx::list(&self.batches, |b| Sx::int(b)),
                Sx::list(&self.flush, |b| Sx::boolean(*b)),
                Sx::int(self.factor),
                Sx::boolean(self.lz4),
                Sx::int(self.bsize),
                Sx::int(self.threads),
                Sx::int(self.maxpart),
                Sx::boolean(self.disk),
                Sx::boolean(self.rowpush),
            ],
        )
    }
    pub fn from_sx(x: &Sx) -> Layout {
        let it = x.items();
        assert_eq!(it[0].atom(), "layout");
        Layout {
            batches: it[1].items().iter().map(|b| b.as_usize()).collect(),
            flush: it[2].items().iter().map(|b| b.atom() == "true").collect(),
            factor: it[3].as_u64(),
            lz4: it[4].atom() == "true",
            bsize: it[5].as_usize(),
            threads: it[6].as_usize(),
            maxpart: it[7].as_u64(),
            disk: it[8].atom() == "true",
            rowpush: it.get(9).map_or(false, |x| x.atom() == "true"),
        }
    }
    /// row counts of the partitions a query sees (flushed runs of batches, then the open buffer);
    /// with a small partition_combine_factor every flush merges all partitions into one
    pub fn partitions(&self) -> Vec<usize> {
        let mut parts = vec![];
        let mut cur = 0usize;
        for (len, fl) in self.batches.iter().zip(&self.flush) {
            cur += len;
            if *fl {
                if self.factor < 10 && !parts.is_empty() {
                    let merged: usize = parts.iter().sum::<usize>() + cur;
                    parts = vec![merged];
                } else {
                    parts.push(cur);
                }
                cur = 0;
            }
        }
        if cur > 0 {
            parts.push(cur);
        }
        parts
    }
    /// short label for the class histogram
    pub fn shape(&self) -> String {
        let flushed = self.flush.iter().filter(|b| **b).count();
        format!(
            "b{}f{}{}",
            self.batches.len().min(9),
            flushed.min(9),
            if self.factor < 10 && flushed > 1 { "c" } else { "" }
        )
    }
}

/// Random split of `n` rows into batches + flush pattern + options. `compaction` allows the
/// partition_combine_factor values (0, 1, 4) that make flushes merge partitions.
pub fn gen_layout(r: &mut Rng, n: usize, max_batches: usize, compaction: bool) -> Layout {
    let mut l = Layout::single(n);
    if n == 0 {
        return l;
    }
    let k = 1 + r.below(max_batches.min(n) as u64) as usize;
    // k-1 distinct cut points
    let mut cuts: Vec<usize> = vec![];
    while cuts.len() < k - 1 {
        let c = 1 + r.below((n - 1) as u64) as usize;
        if !cuts.contains(&c) {
            cuts.push(c);
        }
    }
    cuts.sort();
    let mut prev = 0;
    l.batches.clear();
    for c in cuts {
        l.batches.push(c - prev);
        prev = c;
    }
    l.batches.push(n - prev);
    let mode = r.below(4);
    l.flush = (0..l.batches.len())
        .map(|i| match mode {
            0 => false,
            1 => true,
            2 => i + 1 < l.batches.len(),
            _ => r.chance(1, 2),
        })
        .collect();
    l.factor = if compaction { *r.pick(&[0u64, 1, 4, 999, 999]) } else { 999 };
    l.lz4 = r.chance(1, 2);
    l.bsize = *r.pick(&[8usize, 16, 64, 1024]);
    l.threads = *r.pick(&[1usize, 2, 8]);
    l.maxpart = *r.pick(&[1u64, 64, 4096, 8 * 1024 * 1024]);
    l.disk = r.chance(1, 5);
    l.rowpush = r.chance(1, 4);
    l
}

// ---- database handle --------------------------------------------------------------------------------

static SCRATCH_SEQ: AtomicU64 = AtomicU64::new(0);

pub struct Db {
    pub db: Arc<LocustDB>,
    dir: Option<std::path::PathBuf>,
    pub tainted: bool,
    /// column names of the last successful query (needed to read a `SELECT *` answer)
    pub last_colnames: Vec<String>,
}

impl Db {
    pub fn on_disk(&self) -> bool {
        self.dir.is_some()
    }
}

/// remove scratch directories left behind by harness processes that no longer exist
fn sweep_stale_scratch() {
    static ONCE: Once = Once::new();
    ONCE.call_once(|| {
        if let Ok(rd) = std::fs::read_dir("/verif/.cache/scratch") {
            for e in rd.flatten() {
                let name = e.file_name().to_string_lossy().to_string();
                if let Some(rest) = name.strip_prefix("query-") {
                    if let Some(pid) = rest.split('-').next().and_then(|p| p.parse::<u32>().ok()) {
                        if pid != std::process::id() && !std::path::Path::new(&format!("/proc/{}", pid)).exists() {
                            let _ = std::fs::remove_dir_all(e.path());
                        }
                    }
                }
            }
        }
    });
}

impl Drop for Db {
    fn drop(&mut self) {
        if let Some(d) = &self.dir {
            let _ = std::fs::remove_dir_all(d);
        }
    }
}

pub fn runtime() -> &'static tokio::runtime::Runtime {
    static RT: std::sync::OnceLock<tokio::runtime::Runtime> = std::sync::OnceLock::new();
    RT.get_or_init(|| {
        tokio::runtime::Builder::new_multi_thread()
            .worker_threads(2)
            .enable_all()
            .build()
            .unwrap()
    })
}

fn column_data(kind: Kind, cells: &[V], omit_when_null: bool) -> Option<ColumnData> {
    let n_null = cells.iter().filter(|v| v.is_null()).count();
    if n_null == cells.len() {
        return if omit_when_null { None } else { Some(ColumnData::Empty) };
    }
    Some(match kind {
        Kind::Int => {
            if n_null == 0 {
                ColumnData::I64(cells.iter().map(|v| if let V::Int(i) = v { *i } else { unreachable!() }).collect())
            } else {
                ColumnData::Mixed(cells.iter().map(|v| if let V::Int(x) = v { AnyVal::Int(*x) } else { AnyVal::Null }).collect())
            }
        }
        Kind::Float => {
            if n_null == 0 {
                ColumnData::Dense(
                    cells.iter().map(|v| if let V::Float(b) = v { f64::from_bits(*b) } else { unreachable!() }).collect(),
                )
            } else {
                ColumnData::Mixed(
                    cells.iter().map(|v| if let V::Float(b) = v { AnyVal::Float(f64::from_bits(*b)) } else { AnyVal::Null }).collect(),
                )
            }
        }
        Kind::Str => {
            if n_null == 0 {
                ColumnData::String(
                    cells
                        .iter()
                        .map(|v| if let V::Str(s) = v { String::from_utf8(s.clone()).unwrap() } else { unreachable!() })
                        .collect(),
                )
            } else {
                ColumnData::Mixed(
                    cells
                        .iter()
                        .map(|v| match v {
                            V::Str(s) => AnyVal::Str(String::from_utf8(s.clone()).unwrap()),
                            _ => AnyVal::Null,
                        })
                        .collect(),
                )
            }
        }
    })
}

#[derive(Debug)]
pub enum BuildError {
    Panic(String),
    Hang(String),
}

/// Ingest `table` batch by batch as the layout says. Panics and hangs during ingestion / flush are
/// reported (they belong to C01/C07/C11, the caller decides what to do with them).
pub fn build(table: &Table, layout: &Layout) -> Result<Db, BuildError> {
    install_panic_hook();
    let _ = take_panics();
    sweep_stale_scratch();
    let dir = if layout.disk {
        let d = std::path::PathBuf::from(format!(
            "/verif/.cache/scratch/query-{}-{}",
            std::process::id(),
            SCRATCH_SEQ.fetch_add(1, Ordering::SeqCst)
        ));
        let _ = std::fs::remove_dir_all(&d);
        std::fs::create_dir_all(&d).unwrap();
        Some(d)
    } else {
        None
    };
    let opts = Options {
        threads: layout.threads,
        read_threads: 1,
        db_path: dir.clone(),
        mem_lz4: layout.lz4,
        batch_size: layout.bsize,
        partition_combine_factor: layout.factor,
        max_partition_size_bytes: layout.maxpart,
        metrics_table_name: None,
        ..Options::default()
    };
    let db = match std::panic::catch_unwind(|| LocustDB::new(&opts)) {
        Ok(db) => Arc::new(db),
        Err(e) => return Err(BuildError::Panic(lvharness::suite::panic_message(e))),
    };
    let mut handle = Db { db, dir, tainted: false, last_colnames: vec![] };
    let mut start = 0usize;
    for (bi, &len) in layout.batches.iter().enumerate() {
        let mut columns = HashMap::new();
        let mut late: Vec<(String, ColumnBuffer)> = vec![];
        if layout.rowpush {
            // nullable strings cannot be pushed row-wise (no sparse strings): inserted afterwards
            for c in &table.cols {
                let cells = &c.cells[start..start + len];
                if c.kind == Kind::Str && cells.iter().any(|v| v.is_null()) && !cells.iter().all(|v| v.is_null()) {
                    late.push((c.name.clone(), ColumnBuffer { data: column_data(c.kind, cells, true).unwrap() }));
                }
            }
        } else {
            for c in &table.cols {
                if let Some(data) = column_data(c.kind, &c.cells[start..start + len], c.omit_when_null) {
                    columns.insert(c.name.clone(), ColumnBuffer { data });
                }
            }
        }
        let row_start = start;
        start += len;
        let db = handle.db.clone();
        let res = std::panic::catch_unwind(std::panic::AssertUnwindSafe(|| {
            let tb = if layout.rowpush {
                let mut tb = TableBuffer::default();
                for i in row_start..row_start + len {
                    let row: Vec<(String, AnyVal)> = table
                        .cols
                        .iter()
                        .filter(|c| !late.iter().any(|(n, _)| *n == c.name))
                        .filter_map(|c| match &c.cells[i] {
                            V::Null => None,
                            V::Int(x) => Some((c.name.clone(), AnyVal::Int(*x))),
                            V::Float(b) => Some((c.name.clone(), AnyVal::Float(f64::from_bits(*b)))),
                            V::Str(s) => Some((c.name.clone(), AnyVal::Str(String::from_utf8(s.clone()).unwrap()))),
                        })
                        .collect();
                    tb.push_row_and_timestamp(row);
                }
                for (n, c) in late.drain(..) {
                    tb.insert(n, c);
                }
                tb
            } else {
                TableBuffer::new(columns)
            };
            let eb = EventBuffer { tables: HashMap::from([(TABLE.to_string(), tb)]) };
            runtime().block_on(async { db.ingest_efficient(eb).await });
        }));
        if let Err(e) = res {
            handle.tainted = true;
            return Err(BuildError::Panic(format!("ingest: {}", lvharness::suite::panic_message(e))));
        }
        if layout.flush[bi] {
            let db = handle.db.clone();
            let (tx, rx) = std::sync::mpsc::channel();
            std::thread::spawn(move || {
                let r = std::panic::catch_unwind(std::panic::AssertUnwindSafe(|| db.force_flush()));
                let _ = tx.send(r.is_ok());
            });
            match rx.recv_timeout(Duration::from_secs(30)) {
                Ok(true) => {}
                Ok(false) => {
                    handle.tainted = true;
                    return Err(BuildError::Panic(format!("force_flush: {:?}", take_panics())));
                }
                Err(_) => {
                    handle.tainted = true;
                    return Err(BuildError::Hang(format!("force_flush: {:?}", take_panics())));
                }
            }
        }
    }
    let _ = take_panics(); // late records of an earlier, discarded database
    Ok(handle)
}

// ---- query outcomes ---------------------------------------------------------------------------------

#[derive(Clone, Debug, PartialEq)]
pub enum QOut {
    Rows(Vec<Vec<V>>),
    /// QueryError variant name + message
    Err(String, String),
    /// panic (caller or pool thread): recorded sites
    Panic(Vec<String>),
    Hang,
}

impl QOut {
    /// canonical s-expression handed to the model / printed as `impl`
    pub fn sx(&self) -> Sx {
        match self {
            QOut::Rows(rows) => Sx::l(vec![Sx::a("rows"), crate::val::rows_sx(rows)]),
            QOut::Err(kind, _) => Sx::l(vec![Sx::a("err"), Sx::a(kind)]),
            QOut::Panic(_) => Sx::a("panic"),
            QOut::Hang => Sx::a("hang"),
        }
    }
    pub fn from_sx(x: &Sx) -> QOut {
        match x {
            Sx::A(a) if a == "panic" => QOut::Panic(vec![]),
            Sx::A(a) if a == "hang" => QOut::Hang,
            Sx::L(l) if l[0].atom() == "rows" => QOut::Rows(
                l[1].items().iter().map(|r| r.items().iter().map(V::from_sx).collect()).collect(),
            ),
            Sx::L(l) if l[0].atom() == "err" => QOut::Err(l[1].atom().to_string(), String::new()),
            _ => panic!("bad qout {}", x),
        }
    }
    /// bucket for findings
    pub fn signature(&self) -> String {
        match self {
            QOut::Rows(_) => "rows".into(),
            QOut::Err(kind, msg) => format!("err:{}:{}", kind, error_skeleton(msg)),
            QOut::Panic(sites) => format!("panic:{}", skeleton(&sites.first().cloned().unwrap_or_default())),
            QOut::Hang => "hang".into(),
        }
    }
}

fn conv_value(v: &Value) -> V {
    match v {
        Value::Int(i) => V::Int(*i),
        Value::Float(f) => V::Float(canon_float(f.0.to_bits())),
        Value::Str(s) => V::Str(s.as_bytes().to_vec()),
        Value::Null => V::Null,
    }
}

pub fn error_kind(e: &QueryError) -> (String, String) {
    let kind = match e {
        QueryError::SytaxErrorCharsRemaining(_) | QueryError::SyntaxErrorBytesRemaining(_) => "syntax",
        QueryError::ParseError(_) => "parse",
        QueryError::FatalError(_, _) => "fatal",
        QueryError::NotImplemented(_) => "notimplemented",
        QueryError::TypeError(_) => "type",
        QueryError::Overflow => "overflow",
        QueryError::Canceled { .. } => "canceled",
    };
    (kind.to_string(), format!("{}", e))
}

impl Db {
    pub fn query(&mut self, sql: &str) -> QOut {
        install_panic_hook();
        let _ = take_panics();
        let db = self.db.clone();
        let sql = sql.to_string();
        let res = std::panic::catch_unwind(std::panic::AssertUnwindSafe(|| {
            runtime().block_on(async {
                // poll in short slices: a panic in a pool thread never completes the query, so stop
                // waiting shortly after one has been recorded instead of sitting out the deadline
                let fut = db.run_query(&sql, false, true, vec![]);
                tokio::pin!(fut);
                let started = std::time::Instant::now();
                let mut panic_seen: Option<std::time::Instant> = None;
                loop {
                    match tokio::time::timeout(Duration::from_millis(10), &mut fut).await {
                        Ok(r) => return Ok(r),
                        Err(elapsed) => {
                            if panic_seen.is_none() && !PANICS.lock().unwrap().is_empty() {
                                panic_seen = Some(std::time::Instant::now());
                            }
                            if let Some(t) = panic_seen {
                                if t.elapsed() > Duration::from_millis(50) {
                                    return Err(elapsed);
                                }
                            }
                            if started.elapsed() > Duration::from_secs(120) {
                                return Err(elapsed);
                            }
                        }
                    }
                }
            })
        }));
        let out = match res {
            Err(e) => {
                let mut p = take_panics();
                if p.is_empty() {
                    p.push(lvharness::suite::panic_message(e));
                }
                QOut::Panic(p)
            }
            Ok(Err(_elapsed)) => {
                let p = take_panics();
                if p.is_empty() {
                    QOut::Hang
                } else {
                    QOut::Panic(p)
                }
            }
            Ok(Ok(Err(e))) => {
                // a pool-thread panic surfaces as `Canceled`; any other error value is the query's own
                // answer (panic records that arrive late from an earlier, discarded database are ignored)
                let p = take_panics();
                let (k, m) = error_kind(&e);
                if k == "canceled" {
                    QOut::Panic(if p.is_empty() { vec!["canceled without a recorded panic".to_string()] } else { p })
                } else {
                    QOut::Err(k, m)
                }
            }
            Ok(Ok(Ok(output))) => {
                let _ = take_panics();
                self.last_colnames = output.colnames.clone();
                QOut::Rows(
                    output
                        .rows
                        .unwrap_or_default()
                        .iter()
                        .map(|r| r.iter().map(conv_value).collect())
                        .collect(),
                )
            }
        };
        if matches!(out, QOut::Panic(_) | QOut::Hang) {
            self.tainted = true;
        }
        out
    }
}

/// a (table, layout) whose build failed: building is deterministic, do not try (and wait) again
static FAILED_BUILD: Mutex<Option<(u64, QOut)>> = Mutex::new(None);

fn build_key(table: &Table, layout: &Layout) -> u64 {
    use std::hash::{Hash, Hasher};
    let mut h = std::collections::hash_map::DefaultHasher::new();
    table.sx().to_string().hash(&mut h);
    layout.sx().to_string().hash(&mut h);
    h.finish()
}

/// Build (or rebuild after a panic/hang) and run one query.
pub fn run_one(table: &Table, layout: &Layout, sql: &str, cache: &mut Option<Db>) -> QOut {
    if cache.as_ref().map_or(true, |d| d.tainted) {
        *cache = None;
        let key = build_key(table, layout);
        if let Some((k, out)) = FAILED_BUILD.lock().unwrap().as_ref() {
            if *k == key {
                return out.clone();
            }
        }
        match build(table, layout) {
            Ok(d) => *cache = Some(d),
            Err(e) => {
                let out = match e {
                    BuildError::Panic(m) => QOut::Panic(vec![format!("build: {}", m)]),
                    BuildError::Hang(m) => QOut::Panic(vec![format!("build-hang: {}", m)]),
                };
                *FAILED_BUILD.lock().unwrap() = Some((key, out.clone()));
                return out;
            }
        }
    }
    if table.nrows() == 0 {
        // nothing was ingested: the table does not exist
    }
    cache.as_mut().unwrap().query(sql)
}

// ---- a database caught in the middle of a WAL flush ------------------------------------------------

/// Rows [0, a) in a flushed partition (none when a = 0), rows [a, b) in the FROZEN buffer of a WAL
/// flush that is parked right after freezing (sync point `wal_flush:wal_unlocked` of the verif hooks),
/// rows [b, n) in the open buffer. `finish` lets the flush complete.
pub struct MidFlush {
    pub db: Db,
    release: Option<std::sync::mpsc::Sender<()>>,
    flusher: Option<std::thread::JoinHandle<()>>,
    /// did the flush thread really park inside the window?
    pub parked: bool,
}

fn ingest_rows(db: &Arc<LocustDB>, table: &Table, from: usize, to: usize) {
    let mut columns = HashMap::new();
    for c in &table.cols {
        if let Some(data) = column_data(c.kind, &c.cells[from..to], c.omit_when_null) {
            columns.insert(c.name.clone(), ColumnBuffer { data });
        }
    }
    let eb = EventBuffer { tables: HashMap::from([(TABLE.to_string(), TableBuffer::new(columns))]) };
    runtime().block_on(async { db.ingest_efficient(eb).await });
}

pub fn build_midflush(table: &Table, a: usize, b: usize) -> Result<MidFlush, BuildError> {
    use locustdb::verif::hooks;
    install_panic_hook();
    let _ = take_panics();
    let opts = Options { threads: 2, read_threads: 1, db_path: None, partition_combine_factor: 999, metrics_table_name: None, ..Options::default() };
    let db = Arc::new(LocustDB::new(&opts));
    let n = table.nrows();
    let res = std::panic::catch_unwind(std::panic::AssertUnwindSafe(|| {
        if a > 0 {
            ingest_rows(&db, table, 0, a);
            db.force_flush();
        }
        ingest_rows(&db, table, a, b);
    }));
    if let Err(e) = res {
        return Err(BuildError::Panic(format!("midflush ingest: {}", lvharness::suite::panic_message(e))));
    }
    let (reached_tx, reached_rx) = std::sync::mpsc::channel::<()>();
    let (release_tx, release_rx) = std::sync::mpsc::channel::<()>();
    let reached_tx = Mutex::new(Some(reached_tx));
    let release_rx = Mutex::new(Some(release_rx));
    hooks::set_sync_point(Some(Arc::new(move |label: &str| {
        if label == "wal_flush:wal_unlocked" {
            if let Some(tx) = reached_tx.lock().unwrap().take() {
                let rx = release_rx.lock().unwrap().take().unwrap();
                let _ = tx.send(());
                let _ = rx.recv_timeout(Duration::from_secs(60));
            }
        }
    })));
    let flusher = {
        let db = db.clone();
        std::thread::spawn(move || {
            let _ = std::panic::catch_unwind(std::panic::AssertUnwindSafe(|| db.force_flush()));
        })
    };
    let parked = reached_rx.recv_timeout(Duration::from_secs(30)).is_ok();
    let mut mf = MidFlush {
        db: Db { db: db.clone(), dir: None, tainted: false, last_colnames: vec![] },
        release: Some(release_tx),
        flusher: Some(flusher),
        parked,
    };
    if !parked {
        mf.finish();
        return Err(BuildError::Hang(format!("force_flush never reached wal_flush:wal_unlocked: {:?}", take_panics())));
    }
    let res = std::panic::catch_unwind(std::panic::AssertUnwindSafe(|| ingest_rows(&db, table, b, n)));
    if let Err(e) = res {
        mf.finish();
        return Err(BuildError::Panic(format!("midflush ingest (open buffer): {}", lvharness::suite::panic_message(e))));
    }
    Ok(mf)
}

impl MidFlush {
    /// release the parked flush thread, wait for the flush to complete, unregister the callback
    pub fn finish(&mut self) {
        if let Some(tx) = self.release.take() {
            let _ = tx.send(());
        }
        if let Some(h) = self.flusher.take() {
            // bounded wait: a flush that never returns must not hang the suite
            let started = std::time::Instant::now();
            while !h.is_finished() && started.elapsed() < Duration::from_secs(30) {
                std::thread::sleep(Duration::from_millis(2));
            }
            if h.is_finished() {
                let _ = h.join();
            } else {
                self.db.tainted = true;
            }
        }
        locustdb::verif::hooks::set_sync_point(None);
    }
}

impl Drop for MidFlush {
    fn drop(&mut self) {
        self.finish();
    }
}
