//! C06 kernel-level differential: perform_checked of the five operators on every operand width,
//! the Checked / NullableChecked vector operators driven through a real Scratchpad, the SumI64
//! checked accumulator, and Combinable<i64>::combine; each compared with the Coq model.
use crate::gen::{any_i64, edge_i64};
use locustdb::verif::engine::operators::verif_export::aggregate::{CheckedAggregator, SumI64};
use locustdb::verif::engine::operators::verif_export::binary_operator::{
    CheckedBinaryOp, CheckedBinaryOperator, CheckedBinarySVOperator, CheckedBinaryVSOperator, NullableCheckedBinaryOperator,
    NullableCheckedBinarySVOperator, NullableCheckedBinaryVSOperator,
};
use locustdb::verif::engine::operators::verif_export::merge_aggregate::verif_combine_i64;
use locustdb::verif::engine::operators::verif_export::numeric_operators::{
    Addition, Division, Modulo, Multiplication, Subtraction,
};
use locustdb::verif::engine::{Aggregator, BufferRef, Nullable, Scalar, Scratchpad, VecOperator};
use locustdb::QueryError;
use lvharness::rng::Rng;
use lvharness::suite::{Case, Outcome, Suite};
use lvharness::sx::Sx;
use std::collections::HashMap;
use std::marker::PhantomData;

pub struct C06Kernel;

const OPS: [&str; 5] = ["add", "sub", "mul", "div", "mod"];
const WIDTHS: [&str; 4] = ["u8", "u16", "u32", "i64"];

fn clamp_width(w: &str, x: i64) -> i64 {
    match w {
        "u8" => (x as u64 & 0xff) as i64,
        "u16" => (x as u64 & 0xffff) as i64,
        "u32" => (x as u64 & 0xffff_ffff) as i64,
        _ => x,
    }
}

macro_rules! dispatch_op {
    ($op:expr, $l:ty, $r:ty, $a:expr, $b:expr) => {
        match $op {
            "add" => <Addition<$l, $r> as CheckedBinaryOp<$l, $r, i64>>::perform_checked($a, $b),
            "sub" => <Subtraction<$l, $r> as CheckedBinaryOp<$l, $r, i64>>::perform_checked($a, $b),
            "mul" => <Multiplication<$l, $r, i64> as CheckedBinaryOp<$l, $r, i64>>::perform_checked($a, $b),
            "div" => <Division<$l, $r> as CheckedBinaryOp<$l, $r, i64>>::perform_checked($a, $b),
            "mod" => <Modulo<$l, $r> as CheckedBinaryOp<$l, $r, i64>>::perform_checked($a, $b),
            _ => panic!("op"),
        }
    };
}

macro_rules! dispatch_r {
    ($op:expr, $l:ty, $rt:expr, $a:expr, $b:expr) => {
        match $rt {
            "u8" => dispatch_op!($op, $l, u8, $a, $b as u8),
            "u16" => dispatch_op!($op, $l, u16, $a, $b as u16),
            "u32" => dispatch_op!($op, $l, u32, $a, $b as u32),
            _ => dispatch_op!($op, $l, i64, $a, $b),
        }
    };
}

fn real_perform_checked(op: &str, lt: &str, rt: &str, a: i64, b: i64) -> (i64, bool) {
    match lt {
        "u8" => dispatch_r!(op, u8, rt, a as u8, b),
        "u16" => dispatch_r!(op, u16, rt, a as u16, b),
        "u32" => dispatch_r!(op, u32, rt, a as u32, b),
        _ => dispatch_r!(op, i64, rt, a, b),
    }
}

/// exact result over the integers; None = undefined (division by zero)
pub fn exact(op: &str, a: i64, b: i64) -> Option<i128> {
    let (a, b) = (a as i128, b as i128);
    match op {
        "add" => Some(a + b),
        "sub" => Some(a - b),
        "mul" => Some(a * b),
        "div" => {
            if b == 0 {
                None
            } else {
                Some(a / b)
            }
        }
        "mod" => {
            if b == 0 {
                None
            } else {
                Some(a % b)
            }
        }
        _ => panic!("op"),
    }
}

fn fits(x: i128) -> bool {
    x >= i64::MIN as i128 && x <= i64::MAX as i128
}

fn bref<T>(i: usize) -> BufferRef<T> {
    BufferRef { i, name: "verif", t: PhantomData }
}

macro_rules! run_vec_op {
    ($opty:ty, $l:expr, $r:expr, $present:expr) => {{
        let n = $l.len();
        let mut sp = Scratchpad::new(4, HashMap::new());
        sp.set(bref::<i64>(0), $l.clone());
        sp.set(bref::<i64>(1), $r.clone());
        match $present {
            None => {
                let mut op = CheckedBinaryOperator::<i64, i64, i64, $opty> {
                    lhs: bref(0),
                    rhs: bref(1),
                    output: bref(2),
                    op: PhantomData,
                };
                op.init(n, n.max(1), &mut sp);
                match op.execute(false, &mut sp) {
                    Ok(()) => Ok(sp.get(bref::<i64>(2)).to_vec()),
                    Err(e) => Err(e),
                }
            }
            Some(bits) => {
                let bits: &Vec<bool> = bits;
                let mut bytes = vec![0u8; bits.len().div_ceil(8)];
                for (i, b) in bits.iter().enumerate() {
                    if *b {
                        bytes[i / 8] |= 1 << (i % 8);
                    }
                }
                sp.set(bref::<u8>(3), bytes);
                let mut op = NullableCheckedBinaryOperator::<i64, i64, i64, $opty> {
                    lhs: bref(0),
                    rhs: bref(1),
                    present: bref(3),
                    output: bref::<Nullable<i64>>(2),
                    op: PhantomData,
                };
                op.init(n, n.max(1), &mut sp);
                match op.execute(false, &mut sp) {
                    Ok(()) => Ok(sp.get(bref::<i64>(2)).to_vec()),
                    Err(e) => Err(e),
                }
            }
        }
    }};
}

fn real_vec(op: &str, l: &Vec<i64>, r: &Vec<i64>, present: Option<&Vec<bool>>) -> Result<Vec<i64>, QueryError> {
    match op {
        "add" => run_vec_op!(Addition<i64, i64>, l, r, present),
        "sub" => run_vec_op!(Subtraction<i64, i64>, l, r, present),
        "mul" => run_vec_op!(Multiplication<i64, i64, i64>, l, r, present),
        "div" => run_vec_op!(Division<i64, i64>, l, r, present),
        "mod" => run_vec_op!(Modulo<i64, i64>, l, r, present),
        _ => panic!("op"),
    }
}

fn present_bytes(bits: &[bool]) -> Vec<u8> {
    let mut bytes = vec![0u8; bits.len().div_ceil(8)];
    for (i, b) in bits.iter().enumerate() {
        if *b {
            bytes[i / 8] |= 1 << (i % 8);
        }
    }
    bytes
}

/// the scalar forms: `form` = "sv" (constant on the LEFT, vector on the right) or "vs"
macro_rules! run_scalar_op {
    ($opty:ty, $form:expr, $scalar:expr, $v:expr, $present:expr) => {{
        let n = $v.len();
        let mut sp = Scratchpad::new(4, HashMap::new());
        sp.set(bref::<i64>(0), $v.clone());
        sp.set_const(bref::<Scalar<i64>>(1), $scalar);
        let res = match ($form, $present) {
            ("sv", None) => {
                let mut op = CheckedBinarySVOperator::<i64, i64, i64, $opty> { lhs: bref(1), rhs: bref(0), output: bref(2), op: PhantomData };
                op.init(n, n.max(1), &mut sp);
                op.execute(false, &mut sp)
            }
            ("vs", None) => {
                let mut op = CheckedBinaryVSOperator::<i64, i64, i64, $opty> { lhs: bref(0), rhs: bref(1), output: bref(2), op: PhantomData };
                op.init(n, n.max(1), &mut sp);
                op.execute(false, &mut sp)
            }
            ("sv", Some(bits)) => {
                let bits: &Vec<bool> = bits;
                sp.set(bref::<u8>(3), present_bytes(bits));
                let mut op = NullableCheckedBinarySVOperator::<i64, i64, i64, $opty> {
                    lhs: bref(1),
                    rhs: bref(0),
                    present: bref(3),
                    output: bref::<Nullable<i64>>(2),
                    op: PhantomData,
                };
                op.init(n, n.max(1), &mut sp);
                op.execute(false, &mut sp)
            }
            (_, Some(bits)) => {
                let bits: &Vec<bool> = bits;
                sp.set(bref::<u8>(3), present_bytes(bits));
                let mut op = NullableCheckedBinaryVSOperator::<i64, i64, i64, $opty> {
                    lhs: bref(0),
                    rhs: bref(1),
                    present: bref(3),
                    output: bref::<Nullable<i64>>(2),
                    op: PhantomData,
                };
                op.init(n, n.max(1), &mut sp);
                op.execute(false, &mut sp)
            }
            _ => panic!("form"),
        };
        match res {
            Ok(()) => Ok(sp.get(bref::<i64>(2)).to_vec()),
            Err(e) => Err(e),
        }
    }};
}

fn real_scalar(op: &str, form: &str, scalar: i64, v: &Vec<i64>, present: Option<&Vec<bool>>) -> Result<Vec<i64>, QueryError> {
    match op {
        "add" => run_scalar_op!(Addition<i64, i64>, form, scalar, v, present),
        "sub" => run_scalar_op!(Subtraction<i64, i64>, form, scalar, v, present),
        "mul" => run_scalar_op!(Multiplication<i64, i64, i64>, form, scalar, v, present),
        "div" => run_scalar_op!(Division<i64, i64>, form, scalar, v, present),
        "mod" => run_scalar_op!(Modulo<i64, i64>, form, scalar, v, present),
        _ => panic!("op"),
    }
}

fn agg_of(k: &str) -> Aggregator {
    match k {
        "sum" => Aggregator::SumI64,
        "count" => Aggregator::Count,
        "max" => Aggregator::MaxI64,
        "min" => Aggregator::MinI64,
        _ => panic!("agg"),
    }
}

fn real_sum_partition(xs: &[i64]) -> Option<i64> {
    let mut acc = 0i64;
    let mut any = false;
    for x in xs {
        let (s, o) = <SumI64 as CheckedAggregator<i64, i64>>::accumulate_checked(acc, *x);
        acc = s;
        any |= o;
    }
    if any {
        None
    } else {
        Some(acc)
    }
}

/// the engine's composition: per-leaf checked accumulation, per-node Combinable::combine(SumI64)
fn real_sum_tree(t: &Sx) -> Option<i64> {
    match t.tag() {
        "leaf" => real_sum_partition(&t.items()[1].items().iter().map(|x| x.as_i64()).collect::<Vec<_>>()),
        _ => {
            let a = real_sum_tree(&t.items()[1])?;
            let b = real_sum_tree(&t.items()[2])?;
            verif_combine_i64(Aggregator::SumI64, a, b).ok()
        }
    }
}

fn tree_rows(t: &Sx, out: &mut Vec<i64>) {
    match t.tag() {
        "leaf" => out.extend(t.items()[1].items().iter().map(|x| x.as_i64())),
        _ => {
            tree_rows(&t.items()[1], out);
            tree_rows(&t.items()[2], out);
        }
    }
}

fn gen_tree(r: &mut Rng, depth: usize, class: u64) -> Sx {
    if depth == 0 || r.chance(1, 3) {
        let n = r.below(5) as usize;
        let xs: Vec<i64> = (0..n)
            .map(|_| match class {
                0 => r.range(-1000, 1000),
                1 => r.range(0, i64::MAX / 4),            // overflow only after several partitions
                2 => any_i64(r),
                3 => *r.pick(&[i64::MAX - 1, 1, 0, -1, i64::MAX - 2, 2]), // partial sums hit i64::MAX
                _ => r.range(i64::MIN / 3, i64::MAX / 3),
            })
            .collect();
        Sx::l(vec![Sx::a("leaf"), Sx::list(&xs, |x| Sx::int(x))])
    } else {
        Sx::l(vec![Sx::a("node"), gen_tree(r, depth - 1, class), gen_tree(r, depth - 1, class)])
    }
}

impl Suite for C06Kernel {
    fn name(&self) -> &'static str {
        "c06_kernel"
    }

    fn generate(&self, seed: u64, tier: &str) -> Vec<Case> {
        let mut r = Rng::new(seed ^ 0xC06);
        let scale = if tier == "thorough" { 20 } else { 1 };
        let mut cases = vec![];
        // single operations: every op x width pair, operands at edges
        for i in 0..(1500 * scale) {
            let op = OPS[i % 5];
            let lt = *r.pick(&WIDTHS);
            let rt = *r.pick(&WIDTHS);
            let (a, b) = match r.below(8) {
                0 => (i64::MIN, -1),                                  // F9 / division guard
                1 => (-i64::MAX, -1),
                2 => (any_i64(&mut r), *r.pick(&[0i64, 1, -1, 2, -2])),
                _ => (any_i64(&mut r), any_i64(&mut r)),
            };
            let (a, b) = (clamp_width(lt, a), clamp_width(rt, b));
            cases.push(Case {
                class: format!("op:{}:{}x{}", op, lt, rt),
                input: Sx::tagged("op", vec![Sx::a(op), Sx::a(lt), Sx::a(rt), Sx::int(a), Sx::int(b)]),
            });
        }
        // vector operators with and without a null map; forms: vector op vector, vector op scalar,
        // scalar op vector (`100 / col`: the NullableChecked SV operator must ignore absent rows, whose
        // placeholder value 0 would otherwise divide by zero)
        for i in 0..(600 * scale) {
            let op = OPS[i % 5];
            let form = ["vv", "sv", "vs"][(i / 5) % 3];
            let n = if form == "vv" { r.below(20) as usize } else { 1 + r.below(20) as usize };
            let nullable = r.chance(1, 2) || (form == "sv" && r.chance(1, 2));
            let mut pairs: Vec<(i64, i64)> = vec![];
            let mut present = vec![];
            let hot = r.chance(1, 3) || (form == "sv" && (op == "div" || op == "mod") && r.chance(1, 2)); // put an overflowing pair somewhere
            let hot_at = r.below(n.max(1) as u64) as usize;
            let hot_pair = match op {
                "add" => (i64::MAX - r.below(3) as i64, 1 + r.below(3) as i64),
                "sub" => (i64::MIN + r.below(3) as i64, 1 + r.below(3) as i64),
                "mul" => (1 << 32, 1 << 31),
                _ => (r.range(-5, 5) + 100 * r.below(2) as i64, 0),
            };
            for k in 0..n {
                let (a, b) = if hot && k == hot_at {
                    hot_pair
                } else {
                    let b = r.range(-1000, 1000);
                    let b = if b == 0 && (op == "div" || op == "mod") { 7 } else { b };
                    // with a shared (scalar) left operand near the i64 edge only the hot row may overflow
                    let b = if form == "sv" && hot && (op == "add" || op == "sub") { -b.abs() } else { b };
                    (r.range(-1_000_000, 1_000_000), b)
                };
                pairs.push((a, b));
                // the hot row is NULL in half of the nullable cases
                present.push(Sx::boolean(if hot && k == hot_at { r.chance(1, 2) } else { r.chance(3, 4) }));
            }
            // the scalar forms share one operand over all rows (the hot row's when there is one)
            if form != "vv" {
                let shared = if hot { hot_pair } else { pairs[0] };
                for p in pairs.iter_mut() {
                    if form == "sv" {
                        p.0 = shared.0;
                    } else {
                        p.1 = shared.1;
                    }
                }
            }
            // a present bitmap may be shorter than the data (trailing absent rows)
            if nullable && r.chance(1, 4) && !present.is_empty() {
                let keep = r.below(present.len() as u64) as usize;
                present.truncate(keep);
            }
            let mut items = vec![
                Sx::a(op),
                Sx::l(pairs.iter().map(|(a, b)| Sx::l(vec![Sx::int(a), Sx::int(b)])).collect()),
                if nullable { Sx::some(Sx::l(present)) } else { Sx::none() },
            ];
            if form != "vv" {
                items.push(Sx::a(form));
            }
            cases.push(Case {
                class: format!("vec:{}:{}:{}", op, form, if nullable { "nullable" } else { "plain" }),
                input: Sx::tagged("vec", items),
            });
        }
        // Combinable<i64>::combine
        for _ in 0..(300 * scale) {
            let k = *r.pick(&["sum", "count", "max", "min"]);
            let (a, b) = if k == "count" {
                (r.range(0, 1 << 33), r.range(0, 1 << 33))
            } else {
                (any_i64(&mut r), any_i64(&mut r))
            };
            cases.push(Case {
                class: format!("combine:{}", k),
                input: Sx::tagged("combine", vec![Sx::a(k), Sx::int(a), Sx::int(b)]),
            });
        }
        // SUM over merge trees
        for i in 0..(400 * scale) {
            let class = if i % 40 == 0 { 3 } else { [0u64, 1, 2, 4][i % 4] };
            let t = gen_tree(&mut r, 3, class);
            cases.push(Case {
                class: format!("sumtree:{}", ["small", "pos-large", "edges", "sentinel", "wide"][class as usize]),
                input: Sx::tagged("sumtree", vec![t]),
            });
        }
        let _ = edge_i64(&mut r);
        cases
    }

    fn run(&self, input: &Sx) -> Vec<Outcome> {
        let it = input.items();
        match it[0].atom() {
            "op" => {
                let (op, lt, rt) = (it[1].atom(), it[2].atom(), it[3].atom());
                let (a, b) = (it[4].as_i64(), it[5].as_i64());
                let res = std::panic::catch_unwind(|| real_perform_checked(op, lt, rt, a, b));
                let ex = exact(op, a, b);
                let (impl_out, oracle, sig) = match res {
                    Ok((v, flag)) => {
                        let bad = !flag && ex != Some(v as i128);
                        (
                            Sx::l(vec![Sx::a("val"), Sx::int(v), Sx::boolean(flag)]),
                            if bad {
                                Some(format!("{} {} {} returned {} without the overflow flag; exact {:?}", a, op, b, v, ex))
                            } else {
                                None
                            },
                            format!("mismatch:perform_checked:{}:unflagged-inexact", op),
                        )
                    }
                    Err(_) => (
                        Sx::a("panic"),
                        Some(format!("perform_checked panics on {} {} {}", a, op, b)),
                        format!("panic:perform_checked:{}", op),
                    ),
                };
                vec![Outcome {
                    model: Some("perform_checked".into()),
                    model_input: Some(Sx::l(vec![Sx::a(op), Sx::int(a), Sx::int(b)])),
                    impl_out: Some(impl_out),
                    oracle,
                    signature: Some(sig),
                    nontrivial: true,
                }]
            }
            "vec" => {
                let op = it[1].atom();
                let pairs: Vec<(i64, i64)> =
                    it[2].items().iter().map(|p| (p.items()[0].as_i64(), p.items()[1].as_i64())).collect();
                let l: Vec<i64> = pairs.iter().map(|p| p.0).collect();
                let rr: Vec<i64> = pairs.iter().map(|p| p.1).collect();
                let present: Option<Vec<bool>> = match &it[3] {
                    Sx::A(_) => None,
                    Sx::L(v) => Some(v[1].items().iter().map(|b| b.atom() == "true").collect()),
                };
                let form = it.get(4).map_or("vv", |f| f.atom());
                let res = std::panic::catch_unwind(|| match form {
                    "sv" => real_scalar(op, "sv", l[0], &rr, present.as_ref()),
                    "vs" => real_scalar(op, "vs", rr[0], &l, present.as_ref()),
                    _ => real_vec(op, &l, &rr, present.as_ref()),
                });
                let is_present = |i: usize| present.as_ref().map_or(true, |p| p.get(i).copied().unwrap_or(false));
                let (impl_out, oracle, sig) = match res {
                    Ok(Ok(vs)) => {
                        let mut bad = None;
                        for (i, v) in vs.iter().enumerate() {
                            if is_present(i) && exact(op, l[i], rr[i]) != Some(*v as i128) {
                                bad = Some(format!("row {}: {} {} {} gave {} and no error", i, l[i], op, rr[i], v));
                            }
                        }
                        (
                            Sx::l(vec![Sx::a("ok"), Sx::list(&vs, |v| Sx::int(v))]),
                            bad,
                            format!("mismatch:checked_operator:{}:inexact-ok", op),
                        )
                    }
                    Ok(Err(QueryError::Overflow)) => {
                        // legal only if some present row has no exact i64 result (or the documented guard)
                        let justified = (0..l.len()).any(|i| {
                            is_present(i)
                                && (exact(op, l[i], rr[i]).map_or(true, |x| !fits(x))
                                    || (op == "div" && l[i] <= -i64::MAX && rr[i] == -1))
                        });
                        (
                            Sx::a("overflow"),
                            if justified { None } else { Some("Overflow reported although every present row has an exact result".into()) },
                            format!("mismatch:checked_operator:{}:spurious-overflow{}", op, if form == "vv" { String::new() } else { format!(":{}", form) }),
                        )
                    }
                    Ok(Err(e)) => (Sx::a("error"), Some(format!("unexpected error {}", e)), "error:checked_operator".into()),
                    Err(_) => (
                        Sx::a("panic"),
                        Some("checked operator panics".into()),
                        format!("panic:checked_operator:{}", op),
                    ),
                };
                vec![Outcome {
                    model: Some("checked_loop".into()),
                    model_input: Some(Sx::l(vec![it[1].clone(), it[2].clone(), it[3].clone()])),
                    impl_out: Some(impl_out),
                    oracle,
                    signature: Some(sig),
                    nontrivial: l.len() >= 2,
                }]
            }
            "combine" => {
                let k = it[1].atom();
                let (a, b) = (it[2].as_i64(), it[3].as_i64());
                let res = std::panic::catch_unwind(|| verif_combine_i64(agg_of(k), a, b));
                let impl_out = match res {
                    Ok(Ok(v)) => Sx::l(vec![Sx::a("ok"), Sx::int(v)]),
                    Ok(Err(QueryError::Overflow)) => Sx::a("overflow"),
                    Ok(Err(_)) => Sx::a("error"),
                    Err(_) => Sx::a("panic"),
                };
                vec![Outcome {
                    model: Some("combine_i64".into()),
                    model_input: Some(Sx::l(vec![it[1].clone(), it[2].clone(), it[3].clone()])),
                    impl_out: Some(impl_out),
                    oracle: None,
                    signature: None,
                    nontrivial: true,
                }]
            }
            "sumtree" => {
                let t = &it[1];
                let res = std::panic::catch_unwind(|| real_sum_tree(t));
                let mut rows = vec![];
                tree_rows(t, &mut rows);
                let exact_sum: i128 = rows.iter().map(|x| *x as i128).sum();
                let (impl_out, oracle, sig) = match res {
                    Ok(Some(s)) => (
                        Sx::some(Sx::int(s)),
                        if s as i128 != exact_sum {
                            Some(format!("merged SUM {} differs from the exact sum {}", s, exact_sum))
                        } else {
                            None
                        },
                        "mismatch:sum_merge:i64_null_sentinel".to_string(),
                    ),
                    Ok(None) => (Sx::none(), None, String::new()),
                    Err(_) => (Sx::a("panic"), Some("sum kernel panics".into()), "panic:sum_kernel".to_string()),
                };
                vec![Outcome {
                    model: Some("sum_tree".into()),
                    model_input: Some(t.clone()),
                    impl_out: Some(impl_out),
                    oracle,
                    signature: Some(sig),
                    nontrivial: rows.len() >= 2,
                }]
            }
            other => panic!("unknown case kind {}", other),
        }
    }
}
