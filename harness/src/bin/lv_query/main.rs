//! lv_query: query-result properties (C02..C06).
mod api;
mod c06_api;
mod c06_kernel;
mod db;
mod gen;
mod judge;
mod kernels;
mod pgen;
mod query;
mod refeval;
mod suites;
mod tgen;
mod val;

fn main() {
    let v: Vec<Box<dyn lvharness::suite::Suite>> = vec![
        Box::new(c06_kernel::C06Kernel),
        Box::new(c06_api::C06Api),
        Box::new(kernels::C03Kernel),
        Box::new(kernels::C04Kernel),
        Box::new(kernels::C05Kernel),
        Box::new(api::ApiSuite { name: "c03_filter", gen: suites::gen_c03, salt: 0xC03 }),
        Box::new(api::ApiSuite { name: "c05_order", gen: suites::gen_c05, salt: 0xC05 }),
        Box::new(api::ApiSuite { name: "c04_group", gen: suites::gen_c04, salt: 0xC04 }),
        Box::new(api::ApiSuite { name: "c02_layout", gen: suites::gen_c02, salt: 0xC02 }),
    ];
    lvharness::cli_main(v);
}
