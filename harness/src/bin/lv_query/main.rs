//! lv_query: query-result properties (C02..C06).
mod api;
mod c06_api;
mod c06_kernel;
mod db;
mod gen;
mod judge;
mod pgen;
mod query;
mod refeval;
mod suites;
mod tgen;
mod val;

fn main() {
    let v: Vec<Box<dyn lvharness::suite::Suite>> = vec![
        Box::new(c06_kernel::C06Kernel),
        Box::new(c06_api::C06Api),
        Box::new(api::ApiSuite { name: "c03_filter", gen: suites::gen_c03, salt: 0xC03 }),
    ];
    lvharness::cli_main(v);
}
