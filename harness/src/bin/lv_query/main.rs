//! lv_query: query-result properties (C02..C06).
mod c06_api;
mod c06_kernel;
mod db;
mod gen;
mod val;

fn main() {
    let v: Vec<Box<dyn lvharness::suite::Suite>> = vec![Box::new(c06_kernel::C06Kernel), Box::new(c06_api::C06Api)];
    lvharness::cli_main(v);
}
