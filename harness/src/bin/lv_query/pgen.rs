//! Generators for predicates, constants and projections over a table.
use crate::gen::clamp_i64;
use crate::query::{Expr, CMP};
use crate::val::{Kind, Table, V};
use lvharness::rng::Rng;

/// a constant to compare column `c` with: inside, at the edges of, just outside and far outside the
/// column's value range; values not representable in the column's narrow encoding; strings present
/// in / absent from the dictionary
pub fn gen_const(r: &mut Rng, t: &Table, c: usize) -> V {
    let col = &t.cols[c];
    let present: Vec<&V> = col.cells.iter().filter(|v| !v.is_null()).collect();
    match col.kind {
        Kind::Int => {
            let vals: Vec<i64> = present.iter().map(|v| if let V::Int(x) = v { *x } else { 0 }).collect();
            let (lo, hi) = (vals.iter().min().copied().unwrap_or(0), vals.iter().max().copied().unwrap_or(0));
            let x: i128 = match r.below(10) {
                0 | 1 => vals.get(r.below(vals.len().max(1) as u64) as usize).copied().unwrap_or(0) as i128,
                2 => lo as i128 - 1,
                3 => hi as i128 + 1,
                4 => lo as i128,
                5 => hi as i128,
                6 => *r.pick(&[-1i128, 0, 255, 256, 65535, 65536, 1 << 32]),
                7 => *r.pick(&[i64::MAX as i128, -(i64::MAX as i128), (i64::MAX - 1) as i128, 1 << 62, -(1 << 62)]),
                8 => (lo as i128 + hi as i128) / 2,
                _ => vals.get(r.below(vals.len().max(1) as u64) as usize).copied().unwrap_or(0) as i128 + r.range(-2, 2) as i128,
            };
            // i64::MIN cannot be written as a literal (9223372036854775808 parses as a float)
            V::Int(clamp_i64(x).max(-i64::MAX))
        }
        Kind::Float => {
            let safe: Vec<f64> = present
                .iter()
                .filter_map(|v| if let V::Float(b) = v { Some(f64::from_bits(*b)) } else { None })
                .filter(|f| f.is_finite() && f.abs() < 1e9 && (f * 16.0).fract() == 0.0)
                .collect();
            let base = if safe.is_empty() { 0.0 } else { *r.pick(&safe) };
            V::f(match r.below(5) {
                0 | 1 => base,
                2 => base + 0.0625,
                3 => base - 0.0625,
                _ => *r.pick(&[0.0, 1.0, -1.0, 1000000.5, -1000000.5]),
            })
        }
        Kind::Str => {
            let vals: Vec<String> = present
                .iter()
                .filter_map(|v| if let V::Str(s) = v { Some(String::from_utf8(s.clone()).unwrap()) } else { None })
                .collect();
            let base = if vals.is_empty() { "m".to_string() } else { r.pick(&vals).clone() };
            V::s(&match r.below(8) {
                0..=2 => base,
                3 => format!("{}x", base),                               // just after an existing value
                4 => base.chars().take(base.chars().count().saturating_sub(1)).collect(), // prefix
                5 => "".to_string(),
                6 => "zzzz".to_string(),                                 // after everything
                _ => r.pick(&["A", "m", "k128", "k255", "k256", "b", " "]).to_string(),
            })
        }
    }
}

pub fn cols_of_kind(t: &Table, k: Kind) -> Vec<usize> {
    (0..t.cols.len()).filter(|c| t.cols[*c].kind == k).collect()
}

pub struct PredOpts<'a> {
    /// columns the predicate may mention
    pub cols: &'a [usize],
    pub allow_like: bool,
    pub allow_not: bool,
    pub allow_or: bool,
    pub allow_colcol: bool,
    pub allow_arith: bool,
    /// < <= > >= on string columns (fails on the engine whenever the constant is absent from a
    /// partition's dictionary: F7)
    pub allow_str_order: bool,
    /// compare integer columns with FLOAT literals (integral like 3.0 and fractional like 3.5); only
    /// used for columns whose values are below 2^53 in magnitude, where the engine's int -> f64 cast
    /// is exact
    pub allow_float_const_for_int: bool,
    /// constants of magnitude >= 2^62 (overflow in the constant's translation into the column's
    /// offset encoding)
    pub allow_huge_const: bool,
    pub allow_is_null: bool,
}

fn floatify(r: &mut Rng, t: &Table, c: usize, v: V, o: &PredOpts) -> V {
    if !o.allow_float_const_for_int || t.cols[c].kind != Kind::Int || !r.chance(1, 3) {
        return v;
    }
    let small = t.cols[c].cells.iter().all(|x| match x {
        V::Int(i) => i.unsigned_abs() < (1u64 << 52),
        _ => true,
    });
    match v {
        V::Int(k) if small && k.unsigned_abs() < (1u64 << 40) => {
            // the literal is written with a decimal point, so the parser types it Float
            let f = k as f64 + *r.pick(&[0.0, 0.0, 0.5, -0.5, 0.25]);
            V::f(f)
        }
        other => other,
    }
}

fn tame(v: V, o: &PredOpts) -> V {
    match v {
        V::Int(k) if !o.allow_huge_const && k.unsigned_abs() >= 1 << 61 => V::Int(k / (1 << 20)),
        other => other,
    }
}

fn pick_cmp(r: &mut Rng, kind: Kind, o: &PredOpts) -> &'static str {
    if kind == Kind::Str && !o.allow_str_order {
        *r.pick(&["eq", "ne"])
    } else {
        *r.pick(&CMP)
    }
}

pub fn gen_leaf(r: &mut Rng, t: &Table, o: &PredOpts) -> Expr {
    let c = *r.pick(o.cols);
    let kind = t.cols[c].kind;
    match r.below(12) {
        0 if o.allow_is_null => Expr::IsNull(Box::new(Expr::Col(c))),
        1 if o.allow_is_null => Expr::IsNotNull(Box::new(Expr::Col(c))),
        2 if o.allow_like && kind == Kind::Str => {
            let k = gen_const(r, t, c);
            let base = if let V::Str(s) = k { String::from_utf8(s).unwrap() } else { String::new() };
            let chars: Vec<char> = base.chars().collect();
            let pat: String = match r.below(6) {
                0 => format!("{}%", chars.iter().take(1).collect::<String>()),
                1 => format!("%{}", chars.iter().rev().take(1).collect::<String>()),
                2 => format!("%{}%", chars.iter().skip(1).take(1).collect::<String>()),
                3 => chars.iter().enumerate().map(|(i, ch)| if i == 0 { '_' } else { *ch }).collect(),
                4 => base.clone(),
                _ => "%".to_string(),
            };
            Expr::Like(Box::new(Expr::Col(c)), pat.into_bytes())
        }
        3 if o.allow_colcol => {
            // column against another column of the same type
            let same: Vec<usize> = o.cols.iter().copied().filter(|d| *d != c && t.cols[*d].kind == kind).collect();
            if same.is_empty() {
                Expr::cmp(pick_cmp(r, kind, o), Expr::Col(c), Expr::Const(tame(gen_const(r, t, c), o)))
            } else {
                Expr::cmp(pick_cmp(r, kind, o), Expr::Col(c), Expr::Col(*r.pick(&same)))
            }
        }
        4 if o.allow_arith && kind == Kind::Int => {
            // small arithmetic inside a comparison (kept in range: C06 covers overflow)
            let k = r.range(1, 7);
            let op = *r.pick(&["add", "sub", "mul", "div", "mod"]);
            Expr::cmp(
                *r.pick(&CMP),
                Expr::arith(op, Expr::Col(c), Expr::int(k)),
                Expr::Const(tame(gen_const(r, t, c), o)),
            )
        }
        5 => {
            // constant on the left
            let k = tame(gen_const(r, t, c), o);
            let k = floatify(r, t, c, k, o);
            Expr::cmp(pick_cmp(r, kind, o), Expr::Const(k), Expr::Col(c))
        }
        _ => {
            let k = tame(gen_const(r, t, c), o);
            let k = floatify(r, t, c, k, o);
            Expr::cmp(pick_cmp(r, kind, o), Expr::Col(c), Expr::Const(k))
        }
    }
}

pub fn gen_pred(r: &mut Rng, t: &Table, o: &PredOpts, depth: usize) -> Expr {
    if depth == 0 || r.chance(1, 3) {
        return gen_leaf(r, t, o);
    }
    match r.below(5) {
        0 | 1 => Expr::And(Box::new(gen_pred(r, t, o, depth - 1)), Box::new(gen_pred(r, t, o, depth - 1))),
        2 | 3 if o.allow_or => Expr::Or(Box::new(gen_pred(r, t, o, depth - 1)), Box::new(gen_pred(r, t, o, depth - 1))),
        4 if o.allow_not => Expr::Not(Box::new(gen_pred(r, t, o, depth - 1))),
        _ => Expr::And(Box::new(gen_pred(r, t, o, depth - 1)), Box::new(gen_pred(r, t, o, depth - 1))),
    }
}
