//! C06 API-level differential: integer expression trees and SUM through LocustDB::run_query on
//! generated tables / physical layouts, against the Coq model of checked arithmetic
//! (`aexpr_column`) and an i128 reference (oracle).
use crate::c06_kernel::exact;
use crate::db::{gen_layout, run_one, Layout, QOut};
use crate::gen::{clamp_i64, edge_in};
use crate::val::{Col, Kind, Table, V};
use lvharness::rng::Rng;
use lvharness::suite::{Case, Outcome, Suite};
use lvharness::sx::Sx;

pub struct C06Api;

#[derive(Clone, Debug)]
pub enum AExpr {
    Col(usize),
    Const(i64),
    Bin(&'static str, Box<AExpr>, Box<AExpr>),
}

const OPS: [&str; 5] = ["add", "sub", "mul", "div", "mod"];

fn op_static(s: &str) -> &'static str {
    OPS.iter().find(|o| **o == s).copied().unwrap()
}

impl AExpr {
    pub fn sx(&self) -> Sx {
        match self {
            AExpr::Col(i) => Sx::l(vec![Sx::a("col"), Sx::int(i)]),
            AExpr::Const(z) => Sx::l(vec![Sx::a("const"), Sx::int(z)]),
            AExpr::Bin(op, l, r) => Sx::l(vec![Sx::a("bin"), Sx::a(op), l.sx(), r.sx()]),
        }
    }
    pub fn from_sx(x: &Sx) -> AExpr {
        let it = x.items();
        match it[0].atom() {
            "col" => AExpr::Col(it[1].as_usize()),
            "const" => AExpr::Const(it[1].as_i64()),
            "bin" => AExpr::Bin(op_static(it[1].atom()), Box::new(AExpr::from_sx(&it[2])), Box::new(AExpr::from_sx(&it[3]))),
            _ => panic!("aexpr"),
        }
    }
    /// SQL text over the data columns `names` (index 0 = first data column)
    pub fn sql(&self, names: &[String]) -> String {
        match self {
            AExpr::Col(i) => names[*i].clone(),
            AExpr::Const(z) => {
                if *z < 0 {
                    format!("(-{})", (*z as i128).abs())
                } else {
                    format!("{}", z)
                }
            }
            AExpr::Bin(op, l, r) => {
                let sym = match *op {
                    "add" => "+",
                    "sub" => "-",
                    "mul" => "*",
                    "div" => "/",
                    _ => "%",
                };
                format!("({} {} {})", l.sql(names), sym, r.sql(names))
            }
        }
    }
    fn has_col(&self) -> bool {
        match self {
            AExpr::Col(_) => true,
            AExpr::Const(_) => false,
            AExpr::Bin(_, l, r) => l.has_col() || r.has_col(),
        }
    }
    fn uses(&self, c: usize) -> bool {
        match self {
            AExpr::Col(i) => *i == c,
            AExpr::Const(_) => false,
            AExpr::Bin(_, l, r) => l.uses(c) || r.uses(c),
        }
    }
}

/// reference evaluation of one row: Ok(None) = NULL, Err(()) = overflow / division by zero.
/// `%` of i64::MIN by -1 is 0 mathematically.
fn ref_eval(e: &AExpr, row: &[Option<i64>]) -> Result<Option<i64>, ()> {
    match e {
        AExpr::Col(i) => Ok(row[*i]),
        AExpr::Const(z) => Ok(Some(*z)),
        AExpr::Bin(op, l, r) => {
            let a = ref_eval(l, row)?;
            let b = ref_eval(r, row)?;
            match (a, b) {
                (Some(a), Some(b)) => match exact(op, a, b) {
                    Some(x) if x >= i64::MIN as i128 && x <= i64::MAX as i128 => Ok(Some(x as i64)),
                    _ => Err(()),
                },
                _ => Ok(None),
            }
        }
    }
}

fn gen_expr(r: &mut Rng, depth: usize, ncols: usize, hot_consts: &[i64]) -> AExpr {
    if depth == 0 || r.chance(1, 4) {
        if r.chance(2, 3) || depth == 0 && false {
            AExpr::Col(r.below(ncols as u64) as usize)
        } else {
            AExpr::Const(match r.below(4) {
                0 => *r.pick(&[0i64, 1, -1, 2, 10]),
                1 => *r.pick(hot_consts),
                2 => *r.pick(&[1i64 << 31, -(1i64 << 31), (1i64 << 32) + 1, 255, 256, 65536]),
                _ => r.range(-20, 20),
            })
        }
    } else {
        let op = *r.pick(&OPS);
        let l = gen_expr(r, depth - 1, ncols, hot_consts);
        let mut rr = gen_expr(r, depth - 1, ncols, hot_consts);
        if (op == "mod" || op == "div") && r.chance(1, 6) {
            rr = AExpr::Const(*r.pick(&[-1i64, 0, 1]));
        }
        if !l.has_col() && !rr.has_col() {
            rr = AExpr::Col(r.below(ncols as u64) as usize);
        }
        AExpr::Bin(op, Box::new(l), Box::new(rr))
    }
}

/// Integer column whose values sit at the edges of an encoding: base + small offsets, so that the
/// column's own range stays narrow (wide ranges are C01's business: F10/F19).
fn gen_int_col(r: &mut Rng, n: usize, class: usize) -> Vec<i64> {
    let (lo, hi): (i128, i128) = match class {
        0 => (0, 255),                                         // u8, no offset
        1 => (0, 256),                                         // just beyond u8
        2 => (1000, 1255),                                     // u8 with offset
        3 => (0, 65535),
        4 => (-40000, 25535),                                  // u16 with negative offset
        5 => (0, (1 << 32) - 1),
        6 => ((1 << 32) - 5, (1 << 32) + 5),
        7 => ((i64::MAX - 300) as i128, (i64::MAX - 1) as i128), // top of i64 (i64::MAX itself is reserved)
        8 => (i64::MIN as i128, (i64::MIN + 300) as i128),       // bottom of i64
        9 => (-3, 3),
        10 => ((1 << 31) - 3, (1 << 31) + 3),
        _ => (-(1 << 40), 1 << 40),
    };
    (0..n).map(|_| clamp_i64(edge_in(r, lo, hi))).collect()
}

pub fn gen_int_table(r: &mut Rng, n: usize) -> Table {
    let mut cols = vec![Col {
        name: "id".into(),
        kind: Kind::Int,
        omit_when_null: false,
        cells: (0..n as i64).map(V::Int).collect(),
    }];
    for (ci, name) in ["a", "b", "c", "d"].iter().enumerate() {
        let class = r.below(12) as usize;
        let vals = gen_int_col(r, n, class);
        let nullable = ci >= 2;
        // column d: NULL for whole stretches so that some partitions lack it entirely
        let stretch_start = r.below(n.max(1) as u64) as usize;
        let stretch_len = r.below(n.max(1) as u64 + 1) as usize;
        let cells = vals
            .iter()
            .enumerate()
            .map(|(i, v)| {
                let null = match ci {
                    2 => r.chance(1, 6),
                    3 => i >= stretch_start && i < stretch_start + stretch_len,
                    _ => false,
                };
                if nullable && null {
                    V::Null
                } else if nullable && *v == i64::MIN {
                    V::Int(i64::MIN + 1) // [i64::MIN, NULL] is C01's F19
                } else {
                    V::Int(*v)
                }
            })
            .collect();
        cols.push(Col { name: name.to_string(), kind: Kind::Int, omit_when_null: ci == 3, cells });
    }
    Table { cols }
}

fn data_rows(t: &Table) -> Vec<Vec<Option<i64>>> {
    (0..t.nrows())
        .map(|i| {
            t.cols[1..]
                .iter()
                .map(|c| match &c.cells[i] {
                    V::Int(x) => Some(*x),
                    _ => None,
                })
                .collect()
        })
        .collect()
}

fn hot_consts(t: &Table) -> Vec<i64> {
    // constants that push a column value exactly to / over an i64 edge
    let mut v = vec![1i64, -1];
    for c in &t.cols[1..] {
        for cell in c.cells.iter().take(3) {
            if let V::Int(x) = cell {
                v.push(clamp_i64(i64::MAX as i128 - *x as i128));
                v.push(clamp_i64(i64::MAX as i128 - *x as i128 + 1));
                v.push(clamp_i64(i64::MIN as i128 - *x as i128).max(-i64::MAX));
            }
        }
    }
    v
}

impl Suite for C06Api {
    fn name(&self) -> &'static str {
        "c06_api"
    }

    fn generate(&self, seed: u64, tier: &str) -> Vec<Case> {
        let mut r = Rng::new(seed ^ 0xC06A);
        let n_tables = if tier == "thorough" { 400 } else { 60 };
        let mut cases = vec![];
        for ti in 0..n_tables {
            let n = 1 + r.below(if ti % 7 == 0 { 80 } else { 14 }) as usize;
            let table = gen_int_table(&mut r, n);
            let layout = gen_layout(&mut r, n, 4, false);
            let hot = hot_consts(&table);
            let names: Vec<String> = table.cols[1..].iter().map(|c| c.name.clone()).collect();
            for qi in 0..8 {
                // column d (absent from some partitions) only in 1 of 8 expression queries
                let ncols = if qi == 7 { names.len() } else { names.len() - 1 };
                let depth = 1 + r.below(3) as usize;
                let mut e = gen_expr(&mut r, depth, ncols, &hot);
                if !e.has_col() {
                    e = AExpr::Col(r.below(ncols as u64) as usize); // `SELECT <constant>` is not this property's subject
                }
                let class = format!(
                    "expr:{}{}",
                    layout.shape(),
                    if e.uses(3) { ":absent-col" } else if e.uses(2) { ":nullable" } else { "" }
                );
                cases.push(Case { class, input: Sx::tagged("expr", vec![table.sx(), layout.sx(), e.sx()]) });
            }
            {
                // constant on the LEFT of the operator over a nullable column without zeros: `100 / c`,
                // `100 % c`, `k - c` (scalar-vector operators; NULL rows carry the placeholder 0 and must
                // neither raise Overflow nor produce a value)
                let n2 = 2 + r.below(12) as usize;
                let null_at = r.below(n2 as u64) as usize;
                let cells: Vec<V> = (0..n2)
                    .map(|i| {
                        if i == null_at || r.chance(1, 5) {
                            V::Null
                        } else {
                            let x = r.range(1, 60);
                            V::Int(if r.chance(1, 4) { -x } else { x })
                        }
                    })
                    .collect();
                let t2 = Table {
                    cols: vec![
                        Col { name: "id".into(), kind: Kind::Int, omit_when_null: false, cells: (0..n2 as i64).map(V::Int).collect() },
                        Col { name: "c".into(), kind: Kind::Int, omit_when_null: ti % 2 == 0, cells },
                    ],
                };
                let mut l2 = gen_layout(&mut r, n2, 3, false);
                l2.bsize = l2.bsize.max(16); // one streaming batch per partition: keeps the known gap Q20 out of this slice
                for _ in 0..2 {
                    let op = *r.pick(&["div", "mod", "div", "mod", "sub", "add", "mul"]);
                    let k = *r.pick(&[100i64, 7, -3, 1, 0, 1 << 40]);
                    let mut e = AExpr::Bin(op, Box::new(AExpr::Const(k)), Box::new(AExpr::Col(0)));
                    if r.chance(1, 4) {
                        e = AExpr::Bin("add", Box::new(e), Box::new(AExpr::Const(1)));
                    }
                    cases.push(Case { class: format!("expr:const-left-{}:nullable", op), input: Sx::tagged("expr", vec![t2.sx(), l2.sx(), e.sx()]) });
                }
            }
            if ti % 20 == 3 {
                // i64::MIN % -1 (= 0 since fix 5836e7f), MIN / -1 and (MIN + 1) / -1 (the conservative guard)
                let a = vec![i64::MIN, i64::MIN + 1, i64::MIN + 2, i64::MIN + 7]; // narrow range: a wide one is C01's F19
                let t2 = Table {
                    cols: vec![
                        Col { name: "id".into(), kind: Kind::Int, omit_when_null: false, cells: (0..a.len() as i64).map(V::Int).collect() },
                        Col { name: "a".into(), kind: Kind::Int, omit_when_null: false, cells: a.iter().map(|x| V::Int(*x)).collect() },
                    ],
                };
                let l2 = gen_layout(&mut r, a.len(), 3, false);
                let op = *r.pick(&["mod", "div"]);
                let e = AExpr::Bin(op, Box::new(AExpr::Col(0)), Box::new(AExpr::Const(-1)));
                cases.push(Case { class: format!("expr:min-{}-minus-one", op), input: Sx::tagged("expr", vec![t2.sx(), l2.sx(), e.sx()]) });
            }
            if ti % 20 == 7 {
                // a partition whose partial SUM is exactly i64::MAX, merged with another partition
                let k = 1 + r.below(3) as i64;
                let tail: Vec<i64> = (0..1 + r.below(3)).map(|_| r.range(-9, 9)).collect();
                let mut a = vec![i64::MAX - k, k];
                a.extend(tail.iter());
                let t2 = Table {
                    cols: vec![
                        Col { name: "id".into(), kind: Kind::Int, omit_when_null: false, cells: (0..a.len() as i64).map(V::Int).collect() },
                        Col { name: "a".into(), kind: Kind::Int, omit_when_null: false, cells: a.iter().map(|x| V::Int(*x)).collect() },
                    ],
                };
                let mut l2 = Layout::single(a.len());
                l2.batches = vec![2, a.len() - 2];
                l2.flush = vec![true, r.chance(1, 2)];
                cases.push(Case { class: "sum:partial-i64max".into(), input: Sx::tagged("sum", vec![t2.sx(), l2.sx(), Sx::int(0)]) });
            }
            for qi in 0..3 {
                let col = if qi == 2 { 2 } else { r.below(2) as usize };
                cases.push(Case {
                    class: format!("sum:{}", layout.shape()),
                    input: Sx::tagged("sum", vec![table.sx(), layout.sx(), Sx::int(col)]),
                });
            }
        }
        cases
    }

    fn run(&self, input: &Sx) -> Vec<Outcome> {
        let it = input.items();
        let table = Table::from_sx(&it[1]);
        let layout = Layout::from_sx(&it[2]);
        let names: Vec<String> = table.cols[1..].iter().map(|c| c.name.clone()).collect();
        let rows = data_rows(&table);
        let mut cache = None;
        match it[0].atom() {
            "expr" => {
                let e = AExpr::from_sx(&it[3]);
                let sql = format!("SELECT {} FROM t", e.sql(&names));
                let out = run_one(&table, &layout, &sql, &mut cache);
                // reference
                let refs: Vec<Result<Option<i64>, ()>> = rows.iter().map(|row| ref_eval(&e, row)).collect();
                let any_err = refs.iter().any(|x| x.is_err());
                // is some partition evaluated in several streaming batches? (known gap Q20 needs that)
                let streamed = if layout.partitions().iter().any(|p| *p > layout.bsize) { ":streamed" } else { "" };
                let mut sentinel_only = false;
                let mut value_for_null = false;
                let (impl_out, oracle) = match &out {
                    QOut::Rows(rs) => {
                        let cells: Vec<Sx> = rs
                            .iter()
                            .map(|row| match row.as_slice() {
                                [V::Int(x)] => Sx::some(Sx::int(x)),
                                [V::Null] => Sx::none(),
                                other => Sx::a(format!("unexpected:{:?}", other).replace(' ', "")),
                            })
                            .collect();
                        let got: Vec<Option<Option<i64>>> = rs
                            .iter()
                            .map(|row| match row.as_slice() {
                                [V::Int(x)] => Some(Some(*x)),
                                [V::Null] => Some(None),
                                _ => None,
                            })
                            .collect();
                        let want: Vec<Option<Option<i64>>> = refs.iter().map(|x| x.ok()).collect();
                        let oracle = if any_err {
                            Some(format!("`{}` returned rows although a row overflows / divides by zero", sql))
                        } else if got != want {
                            sentinel_only = got.len() == want.len()
                                && got.iter().zip(want.iter()).all(|(g, w)| g == w || (*g == Some(None) && *w == Some(Some(i64::MAX))));
                            value_for_null = got.len() == want.len()
                                && got.iter().zip(want.iter()).all(|(g, w)| g == w || (matches!(g, Some(Some(_))) && *w == Some(None)));
                            Some(format!("`{}` returned {:?}, exact {:?}", sql, got, want))
                        } else {
                            None
                        };
                        (Sx::l(vec![Sx::a("ok"), Sx::l(cells)]), oracle.map(|m| (if sentinel_only { "mismatch:expr:i64max-returned-as-null".to_string() } else if value_for_null { format!("mismatch:expr:value-for-null{}", streamed) } else { "mismatch:expr:wrong-value".to_string() }, m)))
                    }
                    QOut::Err(kind, msg) if kind == "overflow" => (
                        Sx::l(vec![Sx::a("err"), Sx::a("overflow")]),
                        if any_err {
                            None
                        } else {
                            // the documented conservative guard of `/` is the only accepted reason
                            let guard = has_guard_case(&e, &rows);
                            if guard {
                                None
                            } else {
                                Some((format!("mismatch:expr:spurious-overflow{}", streamed), format!("`{}`: {} but every row has an exact result", sql, msg)))
                            }
                        },
                    ),
                    other => (
                        other.sx(),
                        Some((other.signature(), format!("`{}` -> {:?}", sql, other))),
                    ),
                };
                vec![Outcome {
                    // known engine gaps (type errors, panics) are judged by the oracle alone
                    model: if oracle.is_none() { Some("aexpr_column".into()) } else { None },
                    model_input: Some(Sx::l(vec![
                        Sx::l(rows.iter().map(|row| Sx::list(row, |c| Sx::opt(c.map(Sx::int)))).collect()),
                        e.sx(),
                    ])),
                    impl_out: Some(impl_out),
                    oracle: oracle.as_ref().map(|o| o.1.clone()),
                    signature: oracle.map(|o| o.0),
                    nontrivial: rows.len() >= 2,
                }]
            }
            "sum" => {
                let col = it[3].as_usize();
                let sql = format!("SELECT SUM({}) FROM t", names[col]);
                let out = run_one(&table, &layout, &sql, &mut cache);
                let vals: Vec<i64> = rows.iter().filter_map(|row| row[col]).collect();
                let exact_sum: i128 = vals.iter().map(|x| *x as i128).sum();
                let pos: i128 = vals.iter().filter(|x| **x > 0).map(|x| *x as i128).sum();
                let neg: i128 = vals.iter().filter(|x| **x < 0).map(|x| *x as i128).sum();
                let may_overflow = pos > i64::MAX as i128 || neg < i64::MIN as i128;
                let oracle = match &out {
                    QOut::Rows(rs) => {
                        let ok = match rs.as_slice() {
                            [row] => match row.as_slice() {
                                [V::Int(x)] => !vals.is_empty() && *x as i128 == exact_sum,
                                [V::Null] => vals.is_empty(),
                                _ => false,
                            },
                            _ => false,
                        };
                        if ok {
                            None
                        } else {
                            let sig = if matches!(rs.as_slice(), [row] if matches!(row.as_slice(), [V::Null])) && exact_sum == i64::MAX as i128 {
                                "mismatch:sum:i64max-returned-as-null"
                            } else if matches!(rs.as_slice(), [row] if matches!(row.as_slice(), [V::Float(_)])) {
                                "mismatch:sum:float-for-int"
                            } else if partial_hits_sentinel(&rows, col, &layout) {
                                "mismatch:sum:partial-sum-equals-i64max-sentinel"
                            } else {
                                "mismatch:sum:wrong-value"
                            };
                            Some((sig.to_string(), format!("`{}` returned {:?}, exact sum {} of {} values", sql, rs, exact_sum, vals.len())))
                        }
                    }
                    QOut::Err(kind, _) if kind == "overflow" => {
                        if may_overflow {
                            None
                        } else {
                            Some(("mismatch:sum:spurious-overflow".to_string(), format!("`{}` failed with Overflow; no partial sum can leave i64", sql)))
                        }
                    }
                    other => Some((other.signature(), format!("`{}` -> {:?}", sql, other))),
                };
                vec![Outcome {
                    model: None,
                    model_input: None,
                    impl_out: Some(out.sx()),
                    oracle: oracle.as_ref().map(|o| o.1.clone()),
                    signature: oracle.map(|o| o.0),
                    nontrivial: vals.len() >= 2,
                }]
            }
            other => panic!("unknown case kind {}", other),
        }
    }
}

/// does the SUM of some contiguous run of ingestion batches equal i64::MAX (the I64_NULL sentinel)?
fn partial_hits_sentinel(rows: &[Vec<Option<i64>>], col: usize, layout: &Layout) -> bool {
    let mut sums: Vec<i128> = vec![];
    let mut start = 0;
    for len in &layout.batches {
        sums.push(rows[start..start + len].iter().filter_map(|r| r[col]).map(|x| x as i128).sum());
        start += len;
    }
    for i in 0..sums.len() {
        let mut acc = 0i128;
        for s in &sums[i..] {
            acc += s;
            if acc == i64::MAX as i128 {
                return true;
            }
        }
    }
    false
}

/// does some row hit `x / -1` with x = -i64::MAX (reported as overflow by the engine's guard)?
fn has_guard_case(e: &AExpr, rows: &[Vec<Option<i64>>]) -> bool {
    fn walk(e: &AExpr, row: &[Option<i64>]) -> bool {
        if let AExpr::Bin(op, l, r) = e {
            if walk(l, row) || walk(r, row) {
                return true;
            }
            if *op == "div" {
                if let (Ok(Some(a)), Ok(Some(b))) = (ref_eval(l, row), ref_eval(r, row)) {
                    return a == -i64::MAX && b == -1;
                }
            }
        }
        false
    }
    rows.iter().any(|row| walk(e, row))
}
