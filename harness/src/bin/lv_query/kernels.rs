//! Kernel-level differentials for C03 / C04 / C05: the real Rust kernels (through the
//! `#[cfg(feature = "verif")]` wrappers) against the extracted Coq kernels, plus implementation-only
//! oracles (sortedness, prefix-of-sorted-concatenation, union-with-combine).
use locustdb::verif::engine::operators::verif_export::binary_operator::BinaryOp;
use locustdb::verif::engine::operators::verif_export::comparison_operators::{Equals, LessThan, LessThanEquals, NotEquals};
use locustdb::verif::engine::operators::verif_export::dict_lookup::InverseDictLookup;
use locustdb::verif::engine::operators::verif_export::merge::verif_merge;
use locustdb::verif::engine::operators::verif_export::merge_aggregate::verif_merge_aggregate_i64;
use locustdb::verif::engine::operators::verif_export::merge_deduplicate::verif_merge_deduplicate;
use locustdb::verif::engine::operators::verif_export::merge_deduplicate_partitioned::merge_deduplicate_partitioned;
use locustdb::verif::engine::operators::verif_export::merge_drop::verif_merge_drop;
use locustdb::verif::engine::operators::verif_export::merge_keep::{verif_merge_keep, verif_merge_keep_nullable};
use locustdb::verif::engine::operators::verif_export::merge_partitioned::merge_partitioned;
use locustdb::verif::engine::operators::verif_export::partition::partition;
use locustdb::verif::engine::operators::verif_export::subpartition::verif_subpartition;
use locustdb::verif::engine::operators::verif_export::top_n::verif_heap_replace;
use locustdb::verif::engine::{Aggregator, BufferRef, CmpGreaterThan, CmpLessThan, EncodingType, MergeOp, Premerge, Scalar, Scratchpad, VecOperator};
use locustdb::verif::mem_store::codec::Codec;
use locustdb::QueryError;
use lvharness::rng::Rng;
use lvharness::suite::{Case, Outcome, Suite};
use lvharness::sx::Sx;
use std::collections::HashMap;
use std::marker::PhantomData;

fn ints(x: &Sx) -> Vec<i64> {
    x.items().iter().map(|v| v.as_i64()).collect()
}
fn sx_ints(v: &[i64]) -> Sx {
    Sx::list(v, |x| Sx::int(x))
}
fn sx_ops(v: &[u8]) -> Sx {
    Sx::list(v, |x| Sx::int(x))
}
fn sx_mops(v: &[MergeOp]) -> Sx {
    Sx::list(v, |o| {
        Sx::a(match o {
            MergeOp::TakeLeft => "tl",
            MergeOp::TakeRight => "tr",
            MergeOp::MergeRight => "mr",
        })
    })
}
fn mops(x: &Sx) -> Vec<MergeOp> {
    x.items()
        .iter()
        .map(|o| match o.atom() {
            "tl" => MergeOp::TakeLeft,
            "tr" => MergeOp::TakeRight,
            _ => MergeOp::MergeRight,
        })
        .collect()
}
fn sx_groups(v: &[Premerge]) -> Sx {
    Sx::list(v, |g| Sx::l(vec![Sx::int(g.left), Sx::int(g.right)]))
}
fn groups(x: &Sx) -> Vec<Premerge> {
    x.items().iter().map(|g| Premerge { left: g.items()[0].as_u64() as u32, right: g.items()[1].as_u64() as u32 }).collect()
}

fn sorted_list(r: &mut Rng, n: usize, range: i64, desc: bool, strict: bool) -> Vec<i64> {
    let mut v: Vec<i64> = (0..n).map(|_| r.range(-range, range)).collect();
    v.sort();
    if strict {
        v.dedup();
    }
    if desc {
        v.reverse();
    }
    v
}

fn outcome(model: &str, model_input: Sx, impl_out: Sx, oracle: Option<(String, String)>, nontrivial: bool) -> Outcome {
    Outcome {
        model: Some(model.into()),
        model_input: Some(model_input),
        impl_out: Some(impl_out),
        oracle: oracle.as_ref().map(|o| o.1.clone()),
        signature: oracle.map(|o| o.0),
        nontrivial,
    }
}

fn guarded<T>(f: impl FnOnce() -> T + std::panic::UnwindSafe) -> Option<T> {
    std::panic::catch_unwind(f).ok()
}

// ---- C05 ------------------------------------------------------------------------------------------

pub struct C05Kernel;

fn limit_of(x: &Sx) -> usize {
    let l = x.as_u64();
    if l > usize::MAX as u64 {
        usize::MAX
    } else {
        l as usize
    }
}

impl Suite for C05Kernel {
    fn name(&self) -> &'static str {
        "c05_kernel"
    }

    fn generate(&self, seed: u64, tier: &str) -> Vec<Case> {
        let mut r = Rng::new(seed ^ 0xC05C);
        let scale = if tier == "thorough" { 20 } else { 1 };
        let mut cases = vec![];
        let lim = |r: &mut Rng, n: usize| -> u64 {
            match r.below(6) {
                0 => 0,
                1 => u64::MAX,
                2 => n as u64,
                3 => (n / 2) as u64,
                _ => r.below(n as u64 + 3),
            }
        };
        for i in 0..(600 * scale) {
            let desc = i % 2 == 1;
            let (nl, nr) = (r.below(12) as usize, r.below(12) as usize);
            let range = *r.pick(&[1i64, 3, 20, 1000]);
            let l = sorted_list(&mut r, nl, range, desc, false);
            let rr = sorted_list(&mut r, nr, range, desc, false);
            let limit = lim(&mut r, nl + nr);
            cases.push(Case {
                class: format!("merge:{}", if desc { "desc" } else { "asc" }),
                input: Sx::tagged("merge", vec![Sx::a(if desc { "gt" } else { "lt" }), sx_ints(&l), sx_ints(&rr), Sx::int(limit)]),
            });
        }
        for i in 0..(300 * scale) {
            // two-key sorted inputs for partition / subpartition / merge_partitioned
            let desc1 = i % 2 == 1;
            let desc2 = i % 3 == 1;
            let mk = |r: &mut Rng, n: usize| -> Vec<(i64, i64, i64)> {
                let mut v: Vec<(i64, i64, i64)> = (0..n).map(|_| (r.range(0, 3), r.range(0, 3), r.range(0, 2))).collect();
                v.sort_by(|a, b| {
                    let c1 = if desc1 { b.0.cmp(&a.0) } else { a.0.cmp(&b.0) };
                    let c2 = if desc2 { b.1.cmp(&a.1) } else { a.1.cmp(&b.1) };
                    c1.then(c2).then(a.2.cmp(&b.2))
                });
                v
            };
            let (nl, nr) = (r.below(10) as usize, r.below(10) as usize);
            let l = mk(&mut r, nl);
            let rr = mk(&mut r, nr);
            let limit = lim(&mut r, nl + nr);
            let col = |v: &[(i64, i64, i64)], k: usize| -> Sx { sx_ints(&v.iter().map(|t| [t.0, t.1, t.2][k]).collect::<Vec<_>>()) };
            cases.push(Case {
                class: "partitioned".into(),
                input: Sx::tagged(
                    "partitioned",
                    vec![
                        Sx::a(if desc1 { "gt" } else { "lt" }),
                        Sx::a(if desc2 { "gt" } else { "lt" }),
                        col(&l, 0),
                        col(&l, 1),
                        col(&l, 2),
                        col(&rr, 0),
                        col(&rr, 1),
                        col(&rr, 2),
                        Sx::int(limit),
                    ],
                ),
            });
        }
        for i in 0..(200 * scale) {
            let desc = i % 2 == 1;
            let n = 1 + r.below(15) as usize;
            let keys: Vec<i64> = (0..n).map(|_| r.range(0, 30)).collect();
            let values: Vec<i64> = (0..n as i64).collect();
            cases.push(Case {
                class: "heap_replace".into(),
                input: Sx::tagged(
                    "heap",
                    vec![Sx::a(if desc { "gt" } else { "lt" }), sx_ints(&keys), sx_ints(&values), Sx::int(r.range(0, 30)), Sx::int(100)],
                ),
            });
        }
        cases
    }

    fn run(&self, input: &Sx) -> Vec<Outcome> {
        let it = input.items();
        match it[0].atom() {
            "merge" => {
                let desc = it[1].atom() == "gt";
                let (l, r) = (ints(&it[2]), ints(&it[3]));
                let limit = limit_of(&it[4]);
                let res = guarded(|| {
                    if desc {
                        verif_merge::<i64, CmpGreaterThan>(&l, &r, limit)
                    } else {
                        verif_merge::<i64, CmpLessThan>(&l, &r, limit)
                    }
                });
                let mut outs = vec![];
                match res {
                    None => outs.push(outcome("merge", Sx::l(it[1..].to_vec()), Sx::a("panic"), Some(("panic:merge".into(), "merge panics".into())), true)),
                    Some((m, ops)) => {
                        // oracle: the first min(limit, n) elements of the sorted concatenation
                        let mut all: Vec<i64> = l.iter().chain(r.iter()).copied().collect();
                        all.sort();
                        if desc {
                            all.reverse();
                        }
                        all.truncate(limit.min(all.len()));
                        let oracle = if m != all {
                            Some(("mismatch:merge:not-the-sorted-prefix".to_string(), format!("merge returned {:?}, sorted prefix is {:?}", m, all)))
                        } else {
                            None
                        };
                        outs.push(outcome("merge", Sx::l(it[1..].to_vec()), Sx::l(vec![sx_ints(&m), sx_ops(&ops)]), oracle, l.len() + r.len() >= 2));
                        // replay on payload columns (payload = 1000 * side + index)
                        let pl: Vec<i64> = (0..l.len() as i64).collect();
                        let pr: Vec<i64> = (0..r.len() as i64).map(|i| 1000 + i).collect();
                        let kept = guarded(|| verif_merge_keep::<i64>(&ops, &pl, &pr));
                        let (impl_out, oracle) = match &kept {
                            None => (Sx::none(), Some(("panic:merge_keep".to_string(), "merge_keep panics on ops produced by merge".to_string()))),
                            Some(k) => {
                                // each payload must sit next to its own key
                                let ok = k.iter().zip(m.iter()).all(|(p, key)| if *p >= 1000 { r[(*p - 1000) as usize] == *key } else { l[*p as usize] == *key });
                                (Sx::some(sx_ints(k)), if ok { None } else { Some(("mismatch:merge_keep:rows-torn".to_string(), format!("payloads {:?} do not follow keys {:?}", k, m))) })
                            }
                        };
                        outs.push(outcome("merge_keep", Sx::l(vec![sx_ops(&ops), sx_ints(&pl), sx_ints(&pr)]), impl_out, oracle, true));
                        // nullable variant with presence bits
                        let lp: Vec<bool> = (0..l.len()).map(|i| i % 3 != 0).collect();
                        let rp: Vec<bool> = (0..r.len()).map(|i| i % 2 == 0).collect();
                        let pack = |bits: &[bool]| -> Vec<u8> {
                            let mut b = vec![0u8; bits.len().div_ceil(8)];
                            for (i, x) in bits.iter().enumerate() {
                                if *x {
                                    b[i / 8] |= 1 << (i % 8);
                                }
                            }
                            b
                        };
                        let kn = guarded(|| verif_merge_keep_nullable::<i64>(&ops, &pl, &pr, &pack(&lp), &pack(&rp)));
                        let impl_out = match &kn {
                            None => Sx::none(),
                            Some((d, p)) => {
                                let bits: Vec<bool> = (0..d.len()).map(|i| p.get(i / 8).map_or(false, |b| b & (1 << (i % 8)) != 0)).collect();
                                Sx::some(Sx::l(vec![sx_ints(d), Sx::list(&bits, |b| Sx::boolean(*b))]))
                            }
                        };
                        outs.push(outcome(
                            "merge_keep_nullable",
                            Sx::l(vec![sx_ops(&ops), sx_ints(&pl), sx_ints(&pr), Sx::list(&lp, |b| Sx::boolean(*b)), Sx::list(&rp, |b| Sx::boolean(*b))]),
                            impl_out,
                            None,
                            true,
                        ));
                    }
                }
                outs
            }
            "partitioned" => {
                let (d1, d2) = (it[1].atom() == "gt", it[2].atom() == "gt");
                let (l1, l2, l3) = (ints(&it[3]), ints(&it[4]), ints(&it[5]));
                let (r1, r2, r3) = (ints(&it[6]), ints(&it[7]), ints(&it[8]));
                let limit = limit_of(&it[9]);
                let mut outs = vec![];
                // three sort keys: partition on key 1, subpartition on key 2, merge_partitioned on key 3 (ascending)
                let p = guarded(|| if d1 { partition::<i64, CmpGreaterThan>(&l1, &r1, limit) } else { partition::<i64, CmpLessThan>(&l1, &r1, limit) });
                let p = match p {
                    Some(p) => p,
                    None => return vec![outcome("partition", Sx::l(vec![it[1].clone(), it[3].clone(), it[6].clone(), it[9].clone()]), Sx::a("panic"), Some(("panic:partition".into(), "partition panics".into())), true)],
                };
                outs.push(outcome("partition", Sx::l(vec![it[1].clone(), it[3].clone(), it[6].clone(), it[9].clone()]), sx_groups(&p), None, true));
                let sp = guarded(|| if d2 { verif_subpartition::<i64, CmpGreaterThan>(&p, &l2, &r2) } else { verif_subpartition::<i64, CmpLessThan>(&p, &l2, &r2) });
                let sp = match sp {
                    Some(sp) => sp,
                    None => {
                        outs.push(outcome("subpartition", Sx::l(vec![it[2].clone(), sx_groups(&p), it[4].clone(), it[7].clone()]), Sx::a("panic"), Some(("panic:subpartition".into(), "subpartition panics".into())), true));
                        return outs;
                    }
                };
                outs.push(outcome("subpartition", Sx::l(vec![it[2].clone(), sx_groups(&p), it[4].clone(), it[7].clone()]), sx_groups(&sp), None, true));
                let mp = guarded(|| merge_partitioned::<i64, CmpLessThan>(&sp, &l3, &r3, limit));
                match mp {
                    None => outs.push(outcome("merge_partitioned", Sx::l(vec![Sx::a("lt"), sx_groups(&sp), it[5].clone(), it[8].clone(), it[9].clone()]), Sx::a("panic"), Some(("panic:merge_partitioned".into(), "merge_partitioned panics".into())), true)),
                    Some((m, ops)) => {
                        // oracle: replaying the ops on all three key columns gives rows sorted by
                        // (k1 dir1, k2 dir2, k3 asc); all rows that strictly precede the last one are there
                        let k1 = verif_merge_keep::<i64>(&ops, &l1, &r1);
                        let k2 = verif_merge_keep::<i64>(&ops, &l2, &r2);
                        let rows: Vec<(i64, i64, i64)> = (0..m.len()).map(|i| (k1[i], k2[i], m[i])).collect();
                        let key = |t: &(i64, i64, i64)| (if d1 { -t.0 } else { t.0 }, if d2 { -t.1 } else { t.1 }, t.2);
                        let sorted = rows.windows(2).all(|w| key(&w[0]) <= key(&w[1]));
                        let mut all: Vec<(i64, i64, i64)> = (0..l1.len()).map(|i| (l1[i], l2[i], l3[i])).chain((0..r1.len()).map(|i| (r1[i], r2[i], r3[i]))).collect();
                        all.sort_by_key(|t| key(t));
                        let want = if limit == 0 { all.len() } else { limit.min(all.len()) };
                        let prefix_ok = rows.len() >= want.min(rows.len()) && rows.iter().map(key).collect::<Vec<_>>() == all.iter().take(rows.len()).map(key).collect::<Vec<_>>();
                        let oracle = if !sorted || !prefix_ok || rows.len() < want && limit != 0 && rows.len() < all.len().min(limit) {
                            Some(("mismatch:merge_partitioned:not-the-sorted-prefix".to_string(), format!("rows {:?} vs sorted {:?} (limit {})", rows, all, limit)))
                        } else {
                            None
                        };
                        outs.push(outcome(
                            "merge_partitioned",
                            Sx::l(vec![Sx::a("lt"), sx_groups(&sp), it[5].clone(), it[8].clone(), it[9].clone()]),
                            Sx::l(vec![sx_ints(&m), sx_ops(&ops)]),
                            oracle,
                            true,
                        ));
                    }
                }
                outs
            }
            "heap" => {
                let desc = it[1].atom() == "gt";
                let mut keys = ints(&it[2]);
                let mut values: Vec<usize> = ints(&it[3]).iter().map(|v| *v as usize).collect();
                let (key, value) = (it[4].as_i64(), it[5].as_usize());
                let res = std::panic::catch_unwind(std::panic::AssertUnwindSafe(|| {
                    if desc {
                        verif_heap_replace::<i64, CmpGreaterThan>(&mut keys, &mut values, key, value, 0)
                    } else {
                        verif_heap_replace::<i64, CmpLessThan>(&mut keys, &mut values, key, value, 0)
                    }
                }));
                let impl_out = match res {
                    Ok(()) => Sx::l(vec![sx_ints(&keys), Sx::list(&values, |v| Sx::int(v))]),
                    Err(_) => Sx::a("panic"),
                };
                vec![outcome("heap_replace", Sx::l(it[1..].to_vec()), impl_out, None, true)]
            }
            other => panic!("unknown case kind {}", other),
        }
    }
}

// ---- C04 ------------------------------------------------------------------------------------------

pub struct C04Kernel;

fn agg_of(k: &str) -> Aggregator {
    match k {
        "sum" => Aggregator::SumI64,
        "count" => Aggregator::Count,
        "max" => Aggregator::MaxI64,
        _ => Aggregator::MinI64,
    }
}

impl Suite for C04Kernel {
    fn name(&self) -> &'static str {
        "c04_kernel"
    }

    fn generate(&self, seed: u64, tier: &str) -> Vec<Case> {
        let mut r = Rng::new(seed ^ 0xC04C);
        let scale = if tier == "thorough" { 20 } else { 1 };
        let mut cases = vec![];
        for i in 0..(700 * scale) {
            let desc = i % 5 == 4;
            let (nl, nr) = (r.below(12) as usize, r.below(12) as usize);
            let range = *r.pick(&[2i64, 6, 40]);
            let l = sorted_list(&mut r, nl, range, desc, true);
            let rr = sorted_list(&mut r, nr, range, desc, true);
            let k = *r.pick(&["sum", "count", "max", "min"]);
            let val = |r: &mut Rng| -> i64 {
                match (k, r.below(8)) {
                    ("count", _) => r.range(0, 1000),
                    (_, 0) => i64::MAX - r.range(1, 3),       // sums that overflow at the merge
                    (_, 1) => i64::MIN + r.range(0, 3),
                    _ => r.range(-1000, 1000),
                }
            };
            let lv: Vec<i64> = (0..l.len()).map(|_| val(&mut r)).collect();
            let rv: Vec<i64> = (0..rr.len()).map(|_| val(&mut r)).collect();
            cases.push(Case {
                class: format!("dedup:{}:{}", k, if desc { "desc" } else { "asc" }),
                input: Sx::tagged("dedup", vec![Sx::a(if desc { "gt" } else { "lt" }), Sx::a(k), sx_ints(&l), sx_ints(&rr), sx_ints(&lv), sx_ints(&rv)]),
            });
        }
        for _ in 0..(300 * scale) {
            // two grouping columns: partition on the first, dedup-merge on the second
            let mk = |r: &mut Rng, n: usize| -> Vec<(i64, i64)> {
                let mut v: Vec<(i64, i64)> = (0..n).map(|_| (r.range(0, 3), r.range(0, 4))).collect();
                v.sort();
                v.dedup();
                v
            };
            let (nl, nr) = (r.below(10) as usize, r.below(10) as usize);
            let l = mk(&mut r, nl);
            let rr = mk(&mut r, nr);
            let lv: Vec<i64> = (0..l.len()).map(|_| r.range(0, 100)).collect();
            let rv: Vec<i64> = (0..rr.len()).map(|_| r.range(0, 100)).collect();
            cases.push(Case {
                class: "dedup-partitioned".into(),
                input: Sx::tagged(
                    "dedup2",
                    vec![
                        sx_ints(&l.iter().map(|t| t.0).collect::<Vec<_>>()),
                        sx_ints(&l.iter().map(|t| t.1).collect::<Vec<_>>()),
                        sx_ints(&rr.iter().map(|t| t.0).collect::<Vec<_>>()),
                        sx_ints(&rr.iter().map(|t| t.1).collect::<Vec<_>>()),
                        sx_ints(&lv),
                        sx_ints(&rv),
                    ],
                ),
            });
        }
        cases
    }

    fn run(&self, input: &Sx) -> Vec<Outcome> {
        let it = input.items();
        match it[0].atom() {
            "dedup" => {
                let desc = it[1].atom() == "gt";
                let k = it[2].atom();
                let (l, r, lv, rv) = (ints(&it[3]), ints(&it[4]), ints(&it[5]), ints(&it[6]));
                let res = guarded(|| {
                    if desc {
                        verif_merge_deduplicate::<i64, CmpGreaterThan>(&l, &r)
                    } else {
                        verif_merge_deduplicate::<i64, CmpLessThan>(&l, &r)
                    }
                });
                let mut outs = vec![];
                let (ks, ops) = match res {
                    Some(x) => x,
                    None => return vec![outcome("merge_deduplicate", Sx::l(vec![it[1].clone(), it[3].clone(), it[4].clone()]), Sx::a("panic"), Some(("panic:merge_deduplicate".into(), "merge_deduplicate panics".into())), true)],
                };
                // oracle: the strictly sorted union
                let mut union: Vec<i64> = l.iter().chain(r.iter()).copied().collect();
                union.sort();
                union.dedup();
                if desc {
                    union.reverse();
                }
                let oracle = if ks != union { Some(("mismatch:merge_deduplicate:not-the-union".to_string(), format!("keys {:?}, union {:?}", ks, union))) } else { None };
                outs.push(outcome("merge_deduplicate", Sx::l(vec![it[1].clone(), it[3].clone(), it[4].clone()]), Sx::l(vec![sx_ints(&ks), sx_mops(&ops)]), oracle, l.len() + r.len() >= 2));
                // aggregate column
                let agg = std::panic::catch_unwind(|| verif_merge_aggregate_i64(&ops, &lv, &rv, agg_of(k)));
                let (impl_out, oracle) = match &agg {
                    Err(_) => (Sx::a("panic"), if k == "count" { None } else { Some(("panic:merge_aggregate".to_string(), "merge_aggregate panics".to_string())) }),
                    Ok(Err(QueryError::Overflow)) => (Sx::a("overflow"), None),
                    Ok(Err(_)) => (Sx::a("error"), Some(("error:merge_aggregate".to_string(), "unexpected error".to_string()))),
                    Ok(Ok(vs)) => {
                        // reference: combine per key with exact arithmetic (sentinel values excluded)
                        let lookup = |keys: &[i64], vals: &[i64], key: i64| keys.iter().position(|x| *x == key).map(|i| vals[i]);
                        let mut bad = None;
                        if !l.is_empty() && !r.is_empty() {
                            for (i, key) in ks.iter().enumerate() {
                                let a = lookup(&l, &lv, *key);
                                let b = lookup(&r, &rv, *key);
                                let exact: i128 = match (a, b) {
                                    (Some(a), Some(b)) => match k {
                                        "sum" | "count" => a as i128 + b as i128,
                                        "max" => a.max(b) as i128,
                                        _ => a.min(b) as i128,
                                    },
                                    (Some(a), None) => a as i128,
                                    (None, Some(b)) => b as i128,
                                    (None, None) => 0,
                                };
                                let sentinel = a == Some(i64::MAX) || b == Some(i64::MAX);
                                if !sentinel && vs.get(i).map(|v| *v as i128) != Some(exact) {
                                    bad = Some(format!("key {}: merged {:?}, exact {}", key, vs.get(i), exact));
                                }
                            }
                        }
                        (Sx::l(vec![Sx::a("ok"), sx_ints(vs)]), bad.map(|b| ("mismatch:merge_aggregate:wrong-combination".to_string(), b)))
                    }
                };
                outs.push(outcome("merge_aggregate", Sx::l(vec![Sx::a(k), sx_mops(&ops), it[5].clone(), it[6].clone()]), impl_out, oracle, true));
                // merge_drop on a second key column
                let dl: Vec<i64> = (0..l.len() as i64).collect();
                let dr: Vec<i64> = (0..r.len() as i64).map(|i| 1000 + i).collect();
                let dropped = guarded(|| verif_merge_drop::<i64>(&ops, &dl, &dr));
                outs.push(outcome(
                    "merge_drop",
                    Sx::l(vec![sx_mops(&ops), sx_ints(&dl), sx_ints(&dr)]),
                    match &dropped {
                        Some(d) => Sx::some(sx_ints(d)),
                        None => Sx::none(),
                    },
                    None,
                    true,
                ));
                outs
            }
            "dedup2" => {
                let (l1, l2, r1, r2) = (ints(&it[1]), ints(&it[2]), ints(&it[3]), ints(&it[4]));
                let (lv, rv) = (ints(&it[5]), ints(&it[6]));
                let mut outs = vec![];
                let p = match guarded(|| partition::<i64, CmpLessThan>(&l1, &r1, usize::MAX)) {
                    Some(p) => p,
                    None => return vec![],
                };
                let res = guarded(|| merge_deduplicate_partitioned::<i64, CmpLessThan>(&p, &l2, &r2));
                match res {
                    None => outs.push(outcome("merge_deduplicate_partitioned", Sx::l(vec![Sx::a("lt"), sx_groups(&p), it[2].clone(), it[4].clone()]), Sx::a("panic"), Some(("panic:merge_deduplicate_partitioned".into(), "panics".into())), true)),
                    Some((ks, ops)) => {
                        // oracle: with merge_drop on the first column the (k1, k2) pairs are the sorted union
                        let k1 = verif_merge_drop::<i64>(&ops, &l1, &r1);
                        let got: Vec<(i64, i64)> = k1.iter().copied().zip(ks.iter().copied()).collect();
                        let mut union: Vec<(i64, i64)> = l1.iter().copied().zip(l2.iter().copied()).chain(r1.iter().copied().zip(r2.iter().copied())).collect();
                        union.sort();
                        union.dedup();
                        let agg = verif_merge_aggregate_i64(&ops, &lv, &rv, Aggregator::SumI64);
                        let oracle = if got != union {
                            Some(("mismatch:merge_deduplicate_partitioned:not-the-union".to_string(), format!("groups {:?}, union {:?}", got, union)))
                        } else {
                            None
                        };
                        outs.push(outcome(
                            "merge_deduplicate_partitioned",
                            Sx::l(vec![Sx::a("lt"), sx_groups(&p), it[2].clone(), it[4].clone()]),
                            Sx::l(vec![sx_ints(&ks), sx_mops(&ops)]),
                            oracle,
                            true,
                        ));
                        outs.push(outcome(
                            "merge_aggregate",
                            Sx::l(vec![Sx::a("sum"), sx_mops(&ops), it[5].clone(), it[6].clone()]),
                            match agg {
                                Ok(vs) => Sx::l(vec![Sx::a("ok"), sx_ints(&vs)]),
                                Err(QueryError::Overflow) => Sx::a("overflow"),
                                Err(_) => Sx::a("error"),
                            },
                            None,
                            true,
                        ));
                    }
                }
                outs
            }
            other => panic!("unknown case kind {}", other),
        }
    }
}

// ---- C03 ------------------------------------------------------------------------------------------

pub struct C03Kernel;

fn bref<T>(i: usize) -> BufferRef<T> {
    BufferRef { i, name: "verif", t: PhantomData }
}

macro_rules! cmp_perform {
    ($t:ty, $op:expr, $e:expr, $k:expr) => {
        match $op {
            "eq" => <Equals as BinaryOp<$t, i64, u8>>::perform($e as $t, $k),
            "ne" => <NotEquals as BinaryOp<$t, i64, u8>>::perform($e as $t, $k),
            "lt" => <LessThan as BinaryOp<$t, i64, u8>>::perform($e as $t, $k),
            "le" => <LessThanEquals as BinaryOp<$t, i64, u8>>::perform($e as $t, $k),
            // GT / GTE are planned as less_than(rhs, lhs) / less_than_equals(rhs, lhs)
            "gt" => <LessThan as BinaryOp<i64, $t, u8>>::perform($k, $e as $t),
            _ => <LessThanEquals as BinaryOp<i64, $t, u8>>::perform($k, $e as $t),
        }
    };
}

impl Suite for C03Kernel {
    fn name(&self) -> &'static str {
        "c03_kernel"
    }

    fn generate(&self, seed: u64, tier: &str) -> Vec<Case> {
        let mut r = Rng::new(seed ^ 0xC03C);
        let scale = if tier == "thorough" { 20 } else { 1 };
        let mut cases = vec![];
        let ops = ["eq", "ne", "lt", "le", "gt", "ge"];
        for i in 0..(1500 * scale) {
            let width = *r.pick(&["u8", "u16", "u32"]);
            let max: i128 = match width {
                "u8" => 255,
                "u16" => 65535,
                _ => (1 << 32) - 1,
            };
            let offset: i64 = match r.below(6) {
                0 => 0,
                1 => i64::MIN + 1,
                2 => i64::MAX - max as i64 - 1,
                3 => r.range(-100_000, 100_000),
                4 => -(1 << 62),
                _ => 1000,
            };
            let e = crate::gen::edge_in(&mut r, 0, max) as i64;
            let v = offset + e;
            let k: i64 = match r.below(8) {
                0 => v,
                1 => v - 1,
                2 => v + 1,
                3 => offset - 1,                                   // just below the column range
                4 => crate::gen::clamp_i64(offset as i128 + max + 1), // just above: not representable in the narrow type
                5 => *r.pick(&[i64::MAX, -i64::MAX, 0, 1 << 62, -(1 << 62)]),
                _ => crate::gen::any_i64(&mut r),
            };
            cases.push(Case {
                class: format!("int:{}", width),
                input: Sx::tagged("int", vec![Sx::a(ops[i % 6]), Sx::a(width), Sx::int(offset), Sx::int(v), Sx::int(k)]),
            });
        }
        for _ in 0..(400 * scale) {
            let n = 1 + r.below(8) as usize;
            let mut dict: Vec<String> = (0..n).map(|_| crate::tgen::gen_str(&mut r, 1)).collect();
            dict.sort();
            dict.dedup();
            let c = if r.chance(1, 2) { r.pick(&dict).clone() } else { crate::tgen::gen_str(&mut r, 3) };
            cases.push(Case {
                class: "dict".into(),
                input: Sx::tagged("dict", vec![Sx::list(&dict, |s| Sx::bytes(s.as_bytes())), Sx::bytes(c.as_bytes())]),
            });
        }
        cases
    }

    fn run(&self, input: &Sx) -> Vec<Outcome> {
        let it = input.items();
        match it[0].atom() {
            "int" => {
                let (op, width) = (it[1].atom(), it[2].atom());
                let (offset, v, k) = (it[3].as_i64(), it[4].as_i64(), it[5].as_i64());
                let t = match width {
                    "u8" => EncodingType::U8,
                    "u16" => EncodingType::U16,
                    _ => EncodingType::U32,
                };
                // the constant is translated by the real codec (panics on overflow in the dev profile)
                let enc = guarded(|| Codec::integer_offset(t, offset).encode_int(k));
                let e = (v as i128 - offset as i128) as i64; // the stored narrow value
                let truth = match op {
                    "eq" => v == k,
                    "ne" => v != k,
                    "lt" => v < k,
                    "le" => v <= k,
                    "gt" => v > k,
                    _ => v >= k,
                };
                // does the exact translation leave i64?  (dev profile: panic; release: the constant wraps)
                let overflows = {
                    let d = k as i128 - offset as i128;
                    d < i64::MIN as i128 || d > i64::MAX as i128
                };
                let (impl_out, oracle) = match enc {
                    None => (Sx::none(), Some(("panic:encode_int:constant-minus-offset-overflows".to_string(), format!("encode_int({}) with offset {} overflows", k, offset)))),
                    Some(ek) => {
                        let res = match width {
                            "u8" => cmp_perform!(u8, op, e, ek),
                            "u16" => cmp_perform!(u16, op, e, ek),
                            _ => cmp_perform!(u32, op, e, ek),
                        } != 0;
                        (
                            Sx::some(Sx::boolean(res)),
                            if res != truth {
                                if overflows {
                                    Some(("mismatch:encoded-cmp:wrapped-constant".to_string(), format!("{} {} {} with the constant wrapped by encode_int (offset {}) gave {}", v, op, k, offset, res)))
                                } else {
                                    Some(("mismatch:encoded-cmp".to_string(), format!("{} {} {} on the encoding (offset {}) gave {}", v, op, k, offset, res)))
                                }
                            } else {
                                None
                            },
                        )
                    }
                };
                // release profile: the model entry that wraps like the code does
                let entry = if overflows && enc.is_some() { "encoded_cmp_wrapping" } else { "encoded_cmp" };
                vec![outcome(entry, Sx::l(vec![it[1].clone(), it[3].clone(), it[4].clone(), it[5].clone()]), impl_out, oracle, true)]
            }
            "dict" => {
                let dict: Vec<Vec<u8>> = it[1].items().iter().map(|s| crate::val::unhex(s.atom())).collect();
                let c = String::from_utf8(crate::val::unhex(it[2].atom())).unwrap();
                // IndexedPackedStrings layout: offset << 24 | len, then the bytes
                let mut data: Vec<u8> = vec![];
                let mut idx: Vec<u64> = vec![];
                for s in &dict {
                    idx.push(((data.len() as u64) << 24) | s.len() as u64);
                    data.extend(s);
                }
                let res = std::panic::catch_unwind(|| {
                    let c_static: &'static str = Box::leak(c.clone().into_boxed_str());
                    let mut sp = Scratchpad::new(4, HashMap::new());
                    sp.set(bref::<u64>(0), idx.clone());
                    sp.set(bref::<u8>(1), data.clone());
                    sp.set_const(bref::<Scalar<&'static str>>(2), c_static);
                    let mut op = InverseDictLookup { dict_indices: bref(0), dict_data: bref(1), constant: bref(2), output: bref::<Scalar<i64>>(3) };
                    op.execute(false, &mut sp).unwrap();
                    sp.get_scalar(&bref::<Scalar<i64>>(3))
                });
                let want = dict.iter().position(|s| s.as_slice() == c.as_bytes()).map_or(-1, |i| i as i64);
                let (impl_out, oracle) = match res {
                    Ok(i) => (Sx::int(i), if i != want { Some(("mismatch:inverse_dict_lookup".to_string(), format!("got {}, want {}", i, want))) } else { None }),
                    Err(_) => (Sx::a("panic"), Some(("panic:inverse_dict_lookup".to_string(), "panics".to_string()))),
                };
                vec![outcome("inverse_dict_lookup", Sx::l(vec![it[1].clone(), it[2].clone()]), impl_out, oracle, dict.len() >= 2)]
            }
            other => panic!("unknown case kind {}", other),
        }
    }
}
