//! Running one (table, layout, query) case and judging the outcome: reference verdict (oracle),
//! feature vector and signature (bucket) of a failure, and the model call `q_valid`.
use crate::db::{run_one, Db, Layout, QOut};
use crate::query::{Expr, OKey, Query, Sel};
use crate::refeval;
use crate::tgen::{all_null_in_some_batch, has_nulls};
use crate::val::{Kind, Table, V};
use lvharness::suite::Outcome;
use lvharness::sx::Sx;

/// Features of a case that are known (or suspected) to matter for the engine's narrow gaps. They
/// become part of the failure signature so that a known-finding matcher can be narrow.
pub fn features(q: &Query, t: &Table, layout: &Layout) -> Vec<String> {
    let mut f: Vec<String> = vec![];
    let mut add = |s: &str| {
        if !f.iter().any(|x| x == s) {
            f.push(s.to_string())
        }
    };
    let nullable = |c: usize| has_nulls(t, c);
    let nullable_expr = |e: &Expr| e.cols().iter().any(|c| nullable(*c));
    let partial = |c: usize| all_null_in_some_batch(t, c, &layout.batches);
    for e in q.exprs() {
        for c in e.cols() {
            if partial(c) {
                add("col-allnull-in-some-batch");
            }
        }
        e.walk(&mut |x| match x {
            Expr::Cmp(op, l, r) => {
                let order = matches!(*op, "lt" | "le" | "gt" | "ge");
                for (a, b) in [(l, r), (r, l)] {
                    if let (Expr::Col(c), Expr::Const(V::Str(k))) = (&**a, &**b) {
                        let mut start = 0;
                        let mut absent = false;
                        for len in &layout.batches {
                            let cells = &t.cols[*c].cells[start..start + len];
                            if !cells.iter().any(|v| matches!(v, V::Str(s) if s == k)) {
                                absent = true;
                            }
                            start += len;
                        }
                        if absent || layout.batches.is_empty() {
                            add(if order { "str-order-cmp-const-absent-from-a-batch" } else { "str-eq-cmp-const-absent-from-a-batch" });
                        }
                    }
                }
                if let (Expr::Col(_), Expr::Col(_)) = (&**l, &**r) {
                    add("col-col-cmp");
                }
            }
            Expr::Or(l, r) => {
                if nullable_expr(l) || nullable_expr(r) {
                    add("or-over-nullable");
                }
            }
            Expr::And(l, r) => {
                if nullable_expr(l) || nullable_expr(r) {
                    add("and-over-nullable");
                }
            }
            Expr::Not(x) => {
                if nullable_expr(x) {
                    add("not-over-nullable");
                }
            }
            Expr::Like(x, _) => {
                if nullable_expr(x) {
                    add("like-over-nullable");
                }
            }
            Expr::IsNull(_) | Expr::IsNotNull(_) => add("is-null-test"),
            Expr::Arith(_, _, _) => add("arith"),
            _ => {}
        });
    }
    if q.is_agg() {
        for s in &q.select {
            match s {
                Sel::Plain(e) => {
                    for c in e.cols() {
                        let k = t.cols[c].kind;
                        if nullable(c) {
                            add(match k {
                                Kind::Float => "group-by-nullable-float",
                                Kind::Int => "group-by-nullable-int",
                                Kind::Str => "group-by-nullable-str",
                            });
                        }
                    }
                }
                Sel::Agg(_, e) | Sel::Avg(e) => {
                    for c in e.cols() {
                        if nullable(c) {
                            add("agg-over-nullable");
                        }
                    }
                }
            }
        }
        if !q.order.is_empty() {
            add("agg-order-by");
        }
        if q.limit.is_some() {
            add("agg-limit");
        }
    }
    if !q.order.is_empty() {
        let single = q.order.len() == 1;
        for (k, _) in &q.order {
            if let OKey::Expr(e) = k {
                if nullable_expr(e) {
                    add(if single { "order-by-nullable-single-key" } else { "order-by-nullable" });
                }
            }
        }
        // the engine's top-n switch: limit + offset < partition length / 2, single key
        if let Some(l) = q.limit {
            let lim = l.saturating_add(q.offset);
            if single && layout.batches.iter().any(|b| (lim as usize) < b / 2) {
                add("topn-possible");
            }
        }
    }
    if q.offset > 0 && q.limit.is_none() {
        add("offset-without-limit");
    }
    f.sort();
    f
}

pub struct Judged {
    pub out: QOut,
    pub verdict: Result<(), String>,
    pub features: Vec<String>,
}

pub fn signature_of(q: &Query, j: &Judged) -> String {
    match &j.verdict {
        Ok(()) => String::new(),
        Err(reason) => {
            let tag = reason.split(':').next().unwrap_or("mismatch");
            let detail = match &j.out {
                QOut::Rows(_) | QOut::Err(_, _) if tag != "engine-failure" => format!("mismatch:{}:{}", q.kind(), tag),
                other => other.signature(),
            };
            format!("{}[{}]", detail, j.features.join("+"))
        }
    }
}

pub fn run_and_judge(table: &Table, layout: &Layout, q: &Query, cache: &mut Option<Db>) -> Judged {
    let sql = q.sql(table);
    let out = run_one(table, layout, &sql, cache);
    let verdict = refeval::valid(q, &table.rows(), &out);
    Judged { out, verdict, features: features(q, table, layout) }
}

/// The standard outcome of an API-level case: the model (`q_valid`) must reproduce the reference
/// verdict; the oracle fires when the reference rejects the engine's answer.
pub fn outcome(table: &Table, q: &Query, j: &Judged, extra_why: &str) -> Outcome {
    let verdict_ok = j.verdict.is_ok();
    let model_input = Sx::l(vec![table.rows_sx(), q.sx(), j.out.sx()]);
    Outcome {
        model: Some("q_valid".into()),
        model_input: Some(model_input),
        impl_out: Some(Sx::boolean(verdict_ok)),
        oracle: j.verdict.as_ref().err().map(|r| format!("`{}`{} -> {}; engine returned {}", q.sql(table), extra_why, r, short(&j.out))),
        signature: if verdict_ok { None } else { Some(signature_of(q, j)) },
        nontrivial: table.nrows() >= 2,
    }
}

pub fn short(o: &QOut) -> String {
    let s = match o {
        QOut::Err(k, m) => format!("Err({}: {})", k, m.chars().take(200).collect::<String>()),
        other => format!("{:?}", other),
    };
    s.chars().take(600).collect()
}
