//! Running one (table, layout, query) case and judging the outcome: reference verdict (oracle),
//! feature vector and signature (bucket) of a failure, and the model call `q_valid`.
use crate::db::{run_one, Db, Layout, QOut};
use crate::query::{Expr, OKey, Query, Sel};
use crate::refeval;
use crate::tgen::{all_null_in_some_batch, has_nulls};
use crate::val::{Kind, Table, V};
use lvharness::suite::Outcome;
use lvharness::sx::Sx;

/// Features of a case that are known (or suspected) to matter for the engine's narrow gaps. They
/// become part of the failure signature so that a known-finding matcher can be narrow.
pub fn features(q: &Query, t: &Table, layout: &Layout) -> Vec<String> {
    let mut f: Vec<String> = vec![];
    let mut add = |s: &str| {
        if !f.iter().any(|x| x == s) {
            f.push(s.to_string())
        }
    };
    let nullable = |c: usize| has_nulls(t, c);
    let nullable_expr = |e: &Expr| e.cols().iter().any(|c| nullable(*c));
    let partial = |c: usize| all_null_in_some_batch(t, c, &layout.partitions());
    for e in q.exprs() {
        for c in e.cols() {
            if partial(c) {
                add("col-allnull-in-some-batch");
            }
        }
        e.walk(&mut |x| match x {
            Expr::Cmp(op, l, r) => {
                let order = matches!(*op, "lt" | "le" | "gt" | "ge");
                for (a, b) in [(l, r), (r, l)] {
                    if let (Expr::Col(c), Expr::Const(V::Str(k))) = (&**a, &**b) {
                        let mut start = 0;
                        let mut absent = false;
                        for len in &layout.batches {
                            let cells = &t.cols[*c].cells[start..start + len];
                            if !cells.iter().any(|v| matches!(v, V::Str(s) if s == k)) {
                                absent = true;
                            }
                            start += len;
                        }
                        if absent || layout.batches.is_empty() {
                            add(if order { "str-order-cmp-const-absent-from-a-batch" } else { "str-eq-cmp-const-absent-from-a-batch" });
                        }
                    }
                }
                if let (Expr::Col(_), Expr::Col(_)) = (&**l, &**r) {
                    add("col-col-cmp");
                }
            }
            Expr::Or(l, r) => {
                if nullable_expr(l) || nullable_expr(r) {
                    add("or-over-nullable");
                }
            }
            Expr::And(l, r) => {
                if nullable_expr(l) || nullable_expr(r) {
                    add("and-over-nullable");
                }
            }
            Expr::Not(x) => {
                if nullable_expr(x) {
                    add("not-over-nullable");
                }
            }
            Expr::Like(x, _) => {
                if nullable_expr(x) {
                    add("like-over-nullable");
                }
            }
            Expr::IsNull(_) | Expr::IsNotNull(_) => add("is-null-test"),
            Expr::Arith(_, _, _) => add("arith"),
            _ => {}
        });
    }
    if q.is_agg() {
        for s in &q.select {
            match s {
                Sel::Plain(e) => {
                    for c in e.cols() {
                        let k = t.cols[c].kind;
                        if nullable(c) {
                            add(match k {
                                Kind::Float => "group-by-nullable-float",
                                Kind::Int => "group-by-nullable-int",
                                Kind::Str => "group-by-nullable-str",
                            });
                        }
                    }
                }
                Sel::Agg(_, e) | Sel::Avg(e) => {
                    for c in e.cols() {
                        if nullable(c) {
                            add("agg-over-nullable");
                        }
                    }
                }
            }
        }
        if !q.order.is_empty() {
            add("agg-order-by");
        }
        if q.limit.is_some() {
            add("agg-limit");
        }
    }
    if !q.order.is_empty() {
        let single = q.order.len() == 1;
        for (k, _) in &q.order {
            if let OKey::Expr(e) = k {
                if nullable_expr(e) {
                    add(if single { "order-by-nullable-single-key" } else { "order-by-nullable" });
                }
            }
        }
        // the engine's top-n switch: limit + offset < partition length / 2, single key
        if let Some(l) = q.limit {
            let lim = l.saturating_add(q.offset);
            if single && layout.batches.iter().any(|b| (lim as usize) < b / 2) {
                add("topn-possible");
            }
        }
    }
    if q.offset > 0 && q.limit.is_none() {
        add("offset-without-limit");
    }
    f.sort();
    f
}

#[derive(Clone)]
pub struct Judged {
    pub out: QOut,
    pub verdict: Result<(), String>,
    pub features: Vec<String>,
}

pub fn signature_of(q: &Query, j: &Judged) -> String {
    match &j.verdict {
        Ok(()) => String::new(),
        Err(reason) => {
            let tag = reason.split(':').next().unwrap_or("mismatch");
            let detail = match &j.out {
                QOut::Rows(_) | QOut::Err(_, _) if tag != "engine-failure" => format!("mismatch:{}:{}", q.kind(), tag),
                other => other.signature(),
            };
            format!("{}[{}]", detail, j.features.join("+"))
        }
    }
}

pub fn run_and_judge(table: &Table, layout: &Layout, q: &Query, cache: &mut Option<Db>) -> Judged {
    let sql = q.sql(table);
    let out = run_one(table, layout, &sql, cache);
    let verdict = refeval::valid(q, &table.rows(), &out);
    Judged { out, verdict, features: features(q, table, layout) }
}

/// The standard outcome of an API-level case: the model (`q_valid`) must reproduce the reference
/// verdict; the oracle fires when the reference rejects the engine's answer.
pub fn outcome(table: &Table, q: &Query, j: &Judged, extra_why: &str) -> Outcome {
    let verdict_ok = j.verdict.is_ok();
    // the model's checker treats float sums as wildcards; the numeric comparison is the harness's
    let verdict_wild = verdict_ok || refeval::valid_wildcard(q, &table.rows(), &j.out);
    let model_input = Sx::l(vec![table.rows_sx(), q.sx(), j.out.sx()]);
    Outcome {
        model: Some("q_valid".into()),
        model_input: Some(model_input),
        impl_out: Some(Sx::boolean(verdict_wild)),
        oracle: j.verdict.as_ref().err().map(|r| format!("`{}`{} -> {}; engine returned {}", q.sql(table), extra_why, r, short(&j.out))),
        signature: if verdict_ok { None } else { Some(signature_of(q, j)) },
        nontrivial: table.nrows() >= 2,
    }
}

pub fn short(o: &QOut) -> String {
    let s = match o {
        QOut::Err(k, m) => format!("Err({}: {})", k, m.chars().take(200).collect::<String>()),
        other => format!("{:?}", other),
    };
    s.chars().take(600).collect()
}

// ---- attribution of a failure to a minimal query ----------------------------------------------------

fn bool_subtrees(e: &Expr, out: &mut Vec<Expr>) {
    match e {
        Expr::And(l, r) | Expr::Or(l, r) => {
            out.push((**l).clone());
            out.push((**r).clone());
            bool_subtrees(l, out);
            bool_subtrees(r, out);
        }
        Expr::Not(x) => {
            out.push((**x).clone());
            bool_subtrees(x, out);
        }
        _ => {}
    }
}

fn simpler(q: &Query) -> Vec<Query> {
    let mut v = vec![];
    if let Some(f) = &q.filter {
        let mut q2 = q.clone();
        q2.filter = None;
        v.push(q2);
        let mut subs = vec![];
        bool_subtrees(f, &mut subs);
        subs.sort_by_key(|e| e.sx().to_string().len());
        for s in subs {
            let mut q2 = q.clone();
            q2.filter = Some(s);
            v.push(q2);
        }
    }
    if q.limit.is_some() {
        let mut q2 = q.clone();
        q2.limit = None;
        v.push(q2);
    }
    if q.offset > 0 {
        let mut q2 = q.clone();
        q2.offset = 0;
        q2.explicit_offset = false;
        v.push(q2);
    }
    for i in 0..q.order.len() {
        let mut q2 = q.clone();
        q2.order.remove(i);
        v.push(q2);
    }
    if q.select.len() > 1 {
        for i in 0..q.select.len() {
            // an item referenced by ORDER BY stays
            if q.order.iter().any(|(k, _)| matches!(k, OKey::Out(j) if *j == i)) {
                continue;
            }
            let mut q2 = q.clone();
            q2.select.remove(i);
            for (k, _) in q2.order.iter_mut() {
                if let OKey::Out(j) = k {
                    if *j > i {
                        *j -= 1;
                    }
                }
            }
            if q2.is_agg() != q.is_agg() && q.is_agg() {
                continue; // keep it an aggregate query
            }
            v.push(q2);
        }
    }
    // simplify arithmetic / aggregate arguments: replace `x op k` by `x`
    v
}

/// Greedy delta-debugging over the query: the smallest query (under `simpler`) that still fails on
/// this table and layout. At most `budget` engine runs.
pub fn failure_key(j: &Judged) -> String {
    match &j.verdict {
        Ok(()) => String::new(),
        Err(reason) => match &j.out {
            QOut::Rows(_) => "mismatch".to_string(),
            QOut::Err(k, _) if k == "overflow" => format!("mismatch:{}", reason.split(':').next().unwrap_or("")),
            other => other.signature(),
        },
    }
}

/// the symptom kinds of a rows-mismatch (see `refeval::diff_kind`), without the aggregate names:
/// `float-for-int`, `value-for-null`, `dup-groups`, `missing-rows`, ...; empty for errors / panics
pub fn symptoms(q: &Query, table: &Table, j: &Judged) -> Vec<String> {
    match (&j.verdict, &j.out) {
        (Err(_), QOut::Rows(rows)) => {
            let mut v: Vec<String> = refeval::diff_kind(q, &table.rows(), rows)
                .split('+')
                .map(|k| k.rsplit(':').next().unwrap_or(k).to_string())
                .collect();
            v.sort();
            v.dedup();
            v
        }
        _ => vec![],
    }
}

/// `symptom`: the minimal query must still show this symptom kind (a query that fails in two ways is
/// minimised once per symptom, so that a known gap cannot hide a second, different wrong value)
pub fn minimize(table: &Table, layout: &Layout, q: &Query, j0: &Judged, cache: &mut Option<Db>, budget: usize, symptom: Option<&str>) -> (Query, Judged) {
    // start from the observed failure itself: some engine failures depend on the order in which the
    // worker threads finish, so a re-run of the same query need not fail again
    let mut cur = q.clone();
    let mut cur_j = j0.clone();
    let key = failure_key(&cur_j);
    let mut runs = 0;
    'outer: loop {
        for cand in simpler(&cur) {
            if runs >= budget {
                break 'outer;
            }
            runs += 1;
            let j = run_and_judge(table, layout, &cand, cache);
            if j.verdict.is_err() && failure_key(&j) == key && symptom.map_or(true, |s| symptoms(&cand, table, &j).iter().any(|x| x == s)) {
                cur = cand;
                cur_j = j;
                continue 'outer;
            }
        }
        break;
    }
    (cur, cur_j)
}

/// structural description of a (minimal) query: the bucket of a failure
pub fn describe(q: &Query, t: &Table, layout: &Layout) -> String {
    let col = |c: usize| -> String {
        let k = match t.cols[c].kind {
            Kind::Int => {
                // `intw`: the column's value range does not fit one byte (wide offset encodings; the
                // multi-column grouping defects depend on it)
                let vals: Vec<i128> = t.cols[c].cells.iter().filter_map(|v| if let V::Int(x) = v { Some(*x as i128) } else { None }).collect();
                let wide = match (vals.iter().min(), vals.iter().max()) {
                    (Some(lo), Some(hi)) => hi - lo > 255,
                    _ => false,
                };
                if wide { "intw" } else { "int" }
            }
            Kind::Float => "float",
            Kind::Str => "str",
        };
        let n = if all_null_in_some_batch(t, c, &layout.partitions()) {
            "~"
        } else if has_nulls(t, c) {
            "?"
        } else {
            ""
        };
        format!("{}{}", k, n)
    };
    fn go(e: &Expr, col: &dyn Fn(usize) -> String, t: &Table, layout: &Layout, ctx: Option<usize>) -> String {
        match e {
            Expr::Col(c) => col(*c),
            Expr::Const(V::Int(k)) => {
                // `k^`: translating the constant into the offset encoding of the column it is compared
                // with (k - min of the partition) leaves i64 in some partition (finding Q10)
                let overflows = ctx.map_or(false, |c| {
                    let mut start = 0;
                    let mut o = false;
                    for len in &layout.partitions() {
                        let min = t.cols[c].cells[start..start + len].iter().filter_map(|v| if let V::Int(x) = v { Some(*x) } else { None }).min();
                        if let Some(m) = min {
                            let d = *k as i128 - m as i128;
                            if d < i64::MIN as i128 || d > i64::MAX as i128 {
                                o = true;
                            }
                        }
                        start += len;
                    }
                    o
                });
                if overflows { "k^".into() } else if k.unsigned_abs() >= 1 << 62 { "K".into() } else { "k".into() }
            }
            Expr::Const(V::Str(s)) => {
                // is the string absent from the dictionary of some batch of the column it is compared with?
                let absent = ctx.map_or(false, |c| {
                    let mut start = 0;
                    let mut a = layout.batches.is_empty();
                    for len in &layout.partitions() {
                        if !t.cols[c].cells[start..start + len].iter().any(|v| matches!(v, V::Str(x) if x == s)) {
                            a = true;
                        }
                        start += len;
                    }
                    a
                });
                if absent { "k!".into() } else { "k".into() }
            }
            Expr::Const(V::Float(_)) if ctx.map_or(false, |c| t.cols[c].kind == Kind::Int) => "kf".into(),
            Expr::Const(_) => "k".into(),
            Expr::Arith(op, l, r) => format!("({} {} {})", go(l, col, t, layout, None), op, go(r, col, t, layout, None)),
            Expr::Cmp(op, l, r) => {
                let cl = if let Expr::Col(c) = &**l { Some(*c) } else { None };
                let cr = if let Expr::Col(c) = &**r { Some(*c) } else { None };
                let sym = if matches!(*op, "eq" | "ne") { "=" } else { "<" };
                format!("({} {} {})", go(l, col, t, layout, cr), sym, go(r, col, t, layout, cl))
            }
            Expr::And(l, r) => format!("({} AND {})", go(l, col, t, layout, None), go(r, col, t, layout, None)),
            Expr::Or(l, r) => format!("({} OR {})", go(l, col, t, layout, None), go(r, col, t, layout, None)),
            Expr::Not(x) => format!("NOT {}", go(x, col, t, layout, None)),
            Expr::IsNull(x) => format!("{} IS NULL", go(x, col, t, layout, None)),
            Expr::IsNotNull(x) => format!("{} IS NOT NULL", go(x, col, t, layout, None)),
            Expr::Like(x, p) => {
                // pattern classes the engine's LIKE-to-regex rewriting is known to mishandle
                let cls = if !p.is_empty() && p.iter().all(|c| *c == b'%') {
                    "[%only]"
                } else if p.first() == Some(&b'_') {
                    "[lead_]"
                } else if p.windows(2).any(|w| (w[0] == b'%' && w[1] == b'_') || (w[0] == b'_' && w[1] == b'_') || (w[0] == b'_' && w[1] == b'%')) {
                    "[adjacent-wildcards]"
                } else {
                    ""
                };
                format!("{} LIKE p{}", go(x, col, t, layout, None), cls)
            }
        }
    }
    let d = |e: &Expr| go(e, &col, t, layout, None);
    let mut s = format!(
        "SELECT {}",
        q.select
            .iter()
            .map(|x| match x {
                Sel::Plain(e) => d(e),
                Sel::Agg(k, e) => format!("{}({})", k, d(e)),
                Sel::Avg(e) => format!("avg({})", d(e)),
            })
            .collect::<Vec<_>>()
            .join(",")
    );
    if let Some(f) = &q.filter {
        s.push_str(&format!(" WHERE {}", d(f)));
    }
    if !q.order.is_empty() {
        s.push_str(" ORDER ");
        s.push_str(
            &q.order
                .iter()
                .map(|(k, desc)| {
                    format!(
                        "{}{}",
                        match k {
                            OKey::Expr(e) => d(e),
                            OKey::Out(i) => format!("#{}", i),
                        },
                        if *desc { " desc" } else { "" }
                    )
                })
                .collect::<Vec<_>>()
                .join(","),
        );
    }
    if let Some(l) = q.limit {
        let lim = l.saturating_add(q.offset) as usize;
        let topn = q.order.len() == 1 && layout.partitions().iter().any(|b| lim < b / 2);
        s.push_str(if l == 0 { " LIMIT0" } else if topn { " LIMIT<half" } else { " LIMIT" });
    }
    if q.offset > 0 {
        s.push_str(if q.offset as usize > t.nrows() { " OFFSET>n" } else { " OFFSET" });
    }
    s
}

/// Outcome of a case with failure attribution: when the reference rejects the engine's answer the
/// query is minimised and the bucket is `<failure>|<shape of the minimal failing query>`.
pub fn outcome_attributed(table: &Table, layout: &Layout, q: &Query, j: &Judged, cache: &mut Option<Db>, extra_why: &str) -> Vec<Outcome> {
    let o = outcome(table, q, j, extra_why);
    // a failure while building the database (ingestion / flush / compaction) does not depend on the
    // query: no minimisation (every attempt would rebuild and, for a hanging flush, wait again)
    if let QOut::Panic(sites) = &j.out {
        if sites.first().map_or(false, |s| s.starts_with("build")) {
            let mut o = o;
            o.signature = Some(format!("build-failure:{}", crate::db::skeleton(&sites[0])));
            return vec![o];
        }
    }
    if j.verdict.is_ok() {
        return vec![o];
    }
    // one attribution per symptom kind (at most three); identical buckets are reported once
    let syms = symptoms(q, table, j);
    let targets: Vec<Option<String>> = if syms.len() <= 1 { vec![None] } else { syms.into_iter().take(3).map(Some).collect() };
    let budget = if targets.len() > 1 { 20 } else { 30 };
    let mut outs: Vec<Outcome> = vec![];
    for t in targets {
        let (mq, mj) = minimize(table, layout, q, j, cache, budget, t.as_deref());
        let reason = mj.verdict.as_ref().err().cloned().unwrap_or_default();
        let tag = reason.split(':').next().unwrap_or("mismatch").to_string();
        let failure = match &mj.out {
            // the kind of difference is part of the bucket: a known gap suppresses only its own symptom
            QOut::Rows(rows) => format!("mismatch:{}:{}", tag, refeval::diff_kind(&mq, &table.rows(), rows)),
            QOut::Err(k, _) if k == "overflow" => format!("mismatch:{}:-", tag),
            other => other.signature(),
        };
        let sig = format!("{}|{}", failure, describe(&mq, table, layout));
        if outs.iter().any(|x| x.signature.as_deref() == Some(sig.as_str())) {
            continue;
        }
        let mut oo = outcome(table, q, j, extra_why);
        oo.signature = Some(sig);
        if let Some(msg) = oo.oracle.as_mut() {
            if let Some(t) = &t {
                msg.push_str(&format!("; symptom `{}`", t));
            }
            msg.push_str(&format!("; minimal failing query `{}` -> {}", mq.sql(table), short(&mj.out)));
        }
        outs.push(oo);
    }
    outs
}
