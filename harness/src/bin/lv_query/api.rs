//! API-level suites: (table, layout, queries) cases judged by the reference evaluator + `q_valid`,
//! and (table, layout1, layout2, queries) pairs for the layout-independence oracle of C02.
use crate::db::{Db, Layout, QOut};
use crate::judge::{outcome_attributed, run_and_judge, short};
use crate::query::Query;
use crate::val::Table;
use lvharness::rng::Rng;
use lvharness::suite::{Case, Outcome, Suite};
use lvharness::sx::Sx;

pub struct ApiSuite {
    pub name: &'static str,
    pub gen: fn(&mut Rng, &str) -> Vec<Case>,
    pub salt: u64,
}

pub fn case_sx(table: &Table, layout: &Layout, qs: &[Query]) -> Sx {
    Sx::tagged("case", vec![table.sx(), layout.sx(), Sx::list(qs, |q| q.sx())])
}

pub fn pair_sx(table: &Table, l1: &Layout, l2: &Layout, qs: &[Query]) -> Sx {
    Sx::tagged("pair", vec![table.sx(), l1.sx(), l2.sx(), Sx::list(qs, |q| q.sx())])
}

/// are two engine outcomes for the same query on two layouts of the same table equivalent?
/// Both are judged against the specification separately; here only "same kind of answer" matters:
/// rows vs rows (the validity checker decides about order/ties), same error class.
fn equivalent(q: &Query, table: &Table, a: &QOut, b: &QOut) -> Result<(), String> {
    use crate::refeval;
    match (a, b) {
        (QOut::Rows(_), QOut::Rows(_)) => {
            // each must be valid for the one logical table, i.e. they are both answers of the same
            // relation; in addition, without ties the two must be literally equal
            let va = refeval::valid(q, &table.rows(), a);
            let vb = refeval::valid(q, &table.rows(), b);
            match (va, vb) {
                (Ok(()), Ok(())) => Ok(()),
                (Err(_), Err(_)) if a == b => Ok(()), // wrong in the same way: not a layout dependence
                (x, y) => Err(format!("one layout's answer is valid and the other's is not ({:?} / {:?})", x.err(), y.err())),
            }
        }
        (QOut::Err(k1, m1), QOut::Err(k2, m2)) => {
            if k1 == k2 {
                Ok(())
            } else {
                Err(format!("different errors: {} ({}) vs {} ({})", k1, m1.chars().take(80).collect::<String>(), k2, m2.chars().take(80).collect::<String>()))
            }
        }
        (QOut::Rows(_), QOut::Err(k, _)) | (QOut::Err(k, _), QOut::Rows(_)) if k == "overflow" => {
            // SUM partial sums depend on the split: an Overflow on one side is tolerated iff the
            // specification allows the query to fail
            if refeval::may_fail(q, &table.rows()) {
                Ok(())
            } else {
                Err("Overflow under one layout only, although no partial sum can overflow".into())
            }
        }
        (x, y) if std::mem::discriminant(x) == std::mem::discriminant(y) => Ok(()),
        (x, y) => Err(format!("{} under one layout, {} under the other", x.signature(), y.signature())),
    }
}

/// One database per (table, layout): consecutive cases of a suite share their table and layout, so the
/// instance built for one case is kept for the next (a panic / hang taints and discards it). A replay
/// simply starts with an empty cache.
static DB_CACHE: std::sync::Mutex<Vec<(u64, Option<Db>)>> = std::sync::Mutex::new(Vec::new());

fn cache_key(table: &Sx, layout: &Sx) -> u64 {
    use std::hash::{Hash, Hasher};
    let mut h = std::collections::hash_map::DefaultHasher::new();
    table.to_string().hash(&mut h);
    layout.to_string().hash(&mut h);
    h.finish()
}

fn take_cached(key: u64) -> Option<Db> {
    let mut c = DB_CACHE.lock().unwrap();
    match c.iter().position(|(k, _)| *k == key) {
        Some(i) => c.remove(i).1,
        None => None,
    }
}

fn put_cached(key: u64, db: Option<Db>) {
    let mut c = DB_CACHE.lock().unwrap();
    if let Some(db) = db {
        // on-disk instances are not kept: their scratch directory is removed when they are dropped
        if !db.tainted && !db.on_disk() {
            c.push((key, Some(db)));
        }
    }
    while c.len() > 2 {
        c.remove(0);
    }
}

impl Suite for ApiSuite {
    fn name(&self) -> &'static str {
        self.name
    }

    fn generate(&self, seed: u64, tier: &str) -> Vec<Case> {
        let mut r = Rng::new(seed ^ self.salt);
        (self.gen)(&mut r, tier)
    }

    fn run(&self, input: &Sx) -> Vec<Outcome> {
        let it = input.items();
        let table = Table::from_sx(&it[1]);
        match it[0].atom() {
            "case" => {
                let layout = Layout::from_sx(&it[2]);
                let qs: Vec<Query> = it[3].items().iter().map(Query::from_sx).collect();
                let key = cache_key(&it[1], &it[2]);
                let mut cache: Option<Db> = take_cached(key);
                let outs = qs
                    .iter()
                    .flat_map(|q| {
                        let j = run_and_judge(&table, &layout, q, &mut cache);
                        outcome_attributed(&table, &layout, q, &j, &mut cache, "")
                    })
                    .collect();
                put_cached(key, cache);
                outs
            }
            "pair" => {
                let l1 = Layout::from_sx(&it[2]);
                let l2 = Layout::from_sx(&it[3]);
                let qs: Vec<Query> = it[4].items().iter().map(Query::from_sx).collect();
                let mut c1: Option<Db> = None;
                let mut c2: Option<Db> = None;
                let mut outs = vec![];
                for q in &qs {
                    let j1 = run_and_judge(&table, &l1, q, &mut c1);
                    let j2 = run_and_judge(&table, &l2, q, &mut c2);
                    // the implementation-only oracle of C02: two realisations of one logical table
                    let eq = equivalent(q, &table, &j1.out, &j2.out);
                    let mut all1 = outcome_attributed(&table, &l1, q, &j1, &mut c1, " [layout 1]");
                    let mut all2 = outcome_attributed(&table, &l2, q, &j2, &mut c2, " [layout 2]");
                    // the first attribution of each side carries the pair verdict; further symptoms of the
                    // same answer are reported as outcomes of their own
                    let mut o1 = all1.remove(0);
                    let mut o2 = all2.remove(0);
                    if let Err(why) = eq {
                        let sig = format!(
                            "layout-dependent:{}||{}",
                            o1.signature.clone().unwrap_or_else(|| "valid".to_string()),
                            o2.signature.clone().unwrap_or_else(|| "valid".to_string())
                        );
                        let msg = format!(
                            "`{}`: results depend on the physical layout: {}; layout 1 {} -> {}; layout 2 {} -> {}",
                            q.sql(&table),
                            why,
                            l1.sx(),
                            short(&j1.out),
                            l2.sx(),
                            short(&j2.out)
                        );
                        // attach to the outcome that is itself valid (the other already reports)
                        if o1.oracle.is_none() {
                            o1.oracle = Some(msg.clone());
                            o1.signature = Some(sig.clone());
                        } else if o2.oracle.is_none() {
                            o2.oracle = Some(msg);
                            o2.signature = Some(sig);
                        }
                    }
                    outs.push(o1);
                    outs.push(o2);
                    outs.extend(all1);
                    outs.extend(all2);
                }
                outs
            }
            "midflush" => {
                let a = it[2].as_usize();
                let b = it[3].as_usize();
                midflush_case(&table, a, b)
            }
            other => panic!("unknown case kind {}", other),
        }
    }
}

/// C02 in the freeze -> batch window of a WAL flush: rows spread over a flushed partition, the frozen
/// buffer and the open buffer must be answered like the one logical table, by `SELECT *` (unfiltered
/// snapshot) and by queries naming their columns (column-filtered snapshot), during and after the flush.
fn midflush_case(table: &Table, a: usize, b: usize) -> Vec<Outcome> {
    use crate::query::{Expr, OKey, Sel};
    use crate::refeval;
    let all = Query::select((0..table.cols.len()).map(|i| Sel::Plain(Expr::Col(i))).collect());
    let mut ordered = all.clone();
    ordered.order.push((OKey::Expr(Expr::Col(0)), false));
    let mut counted = Query::select(vec![Sel::Agg("count", Expr::int(1)), Sel::Agg("sum", Expr::Col(0))]);
    counted.filter = None;
    // (label, query, star?)
    let plan: Vec<(&str, Query, bool)> = vec![
        ("star", all.clone(), true),
        ("star-ordered", ordered.clone(), true),
        ("named", all.clone(), false),
        ("named-ordered", ordered, false),
        ("count", counted, false),
    ];
    let mut outs = vec![];
    let mut mf = match crate::db::build_midflush(table, a, b) {
        Ok(mf) => mf,
        Err(e) => {
            let msg = format!("{:?}", e);
            return vec![Outcome {
                model: None,
                model_input: None,
                impl_out: None,
                oracle: Some(format!("mid-flush database (rows 0..{} flushed, {}..{} frozen, rest open) could not be built: {}", a, a, b, msg)),
                signature: Some(format!("mid-flush:build-failure:{}", crate::db::skeleton(&msg))),
                nontrivial: true,
            }];
        }
    };
    for phase in ["during", "after"] {
        if phase == "after" {
            mf.finish();
        }
        for (label, q, star) in &plan {
            let named_sql = q.sql(table);
            let sql = if *star {
                let p = named_sql.find(" FROM ").expect("FROM");
                format!("SELECT *{}", &named_sql[p..])
            } else {
                named_sql.clone()
            };
            let raw = mf.db.query(&sql);
            // a `SELECT *` answer lists the columns in the engine's order: bring them into table order
            let out = match (&raw, *star) {
                (QOut::Rows(rows), true) => {
                    let names = mf.db.last_colnames.clone();
                    let perm: Option<Vec<usize>> = table.cols.iter().map(|c| names.iter().position(|n| *n == c.name)).collect();
                    match perm {
                        Some(perm) if names.len() == table.cols.len() => {
                            QOut::Rows(rows.iter().map(|r| perm.iter().map(|i| r[*i].clone()).collect()).collect())
                        }
                        _ => QOut::Err("columns".into(), format!("SELECT * returned columns {:?}", names)),
                    }
                }
                _ => raw.clone(),
            };
            let verdict = refeval::valid(q, &table.rows(), &out);
            let ok = verdict.is_ok();
            let wild = ok || refeval::valid_wildcard(q, &table.rows(), &out);
            let kind = match &out {
                QOut::Rows(rows) if !ok => format!("mismatch:{}", refeval::diff_kind(q, &table.rows(), rows)),
                other => other.signature(),
            };
            outs.push(Outcome {
                model: Some("q_valid".into()),
                model_input: Some(Sx::l(vec![table.rows_sx(), q.sx(), out.sx()])),
                impl_out: Some(Sx::boolean(wild)),
                oracle: verdict.as_ref().err().map(|r| {
                    format!(
                        "`{}` {} a WAL flush (rows 0..{} in a partition, {}..{} in the frozen buffer, {}..{} in the open buffer) -> {}; engine returned {}",
                        sql, phase, a, a, b, b, table.nrows(), r, short(&out)
                    )
                }),
                signature: if ok { None } else { Some(format!("mid-flush:{}:{}:{}", phase, label, kind)) },
                nontrivial: true,
            });
            if mf.db.tainted {
                break;
            }
        }
    }
    outs
}
