//! API-level suites: (table, layout, queries) cases judged by the reference evaluator + `q_valid`,
//! and (table, layout1, layout2, queries) pairs for the layout-independence oracle of C02.
use crate::db::{Db, Layout, QOut};
use crate::judge::{outcome_attributed, run_and_judge, short};
use crate::query::Query;
use crate::val::Table;
use lvharness::rng::Rng;
use lvharness::suite::{Case, Outcome, Suite};
use lvharness::sx::Sx;

pub struct ApiSuite {
    pub name: &'static str,
    pub gen: fn(&mut Rng, &str) -> Vec<Case>,
    pub salt: u64,
}

pub fn case_sx(table: &Table, layout: &Layout, qs: &[Query]) -> Sx {
    Sx::tagged("case", vec![table.sx(), layout.sx(), Sx::list(qs, |q| q.sx())])
}

pub fn pair_sx(table: &Table, l1: &Layout, l2: &Layout, qs: &[Query]) -> Sx {
    Sx::tagged("pair", vec![table.sx(), l1.sx(), l2.sx(), Sx::list(qs, |q| q.sx())])
}

/// are two engine outcomes for the same query on two layouts of the same table equivalent?
/// Both are judged against the specification separately; here only "same kind of answer" matters:
/// rows vs rows (the validity checker decides about order/ties), same error class.
fn equivalent(q: &Query, table: &Table, a: &QOut, b: &QOut) -> Result<(), String> {
    use crate::refeval;
    match (a, b) {
        (QOut::Rows(_), QOut::Rows(_)) => {
            // each must be valid for the one logical table, i.e. they are both answers of the same
            // relation; in addition, without ties the two must be literally equal
            let va = refeval::valid(q, &table.rows(), a);
            let vb = refeval::valid(q, &table.rows(), b);
            match (va, vb) {
                (Ok(()), Ok(())) => Ok(()),
                (Err(_), Err(_)) if a == b => Ok(()), // wrong in the same way: not a layout dependence
                (x, y) => Err(format!("one layout's answer is valid and the other's is not ({:?} / {:?})", x.err(), y.err())),
            }
        }
        (QOut::Err(k1, m1), QOut::Err(k2, m2)) => {
            if k1 == k2 {
                Ok(())
            } else {
                Err(format!("different errors: {} ({}) vs {} ({})", k1, m1.chars().take(80).collect::<String>(), k2, m2.chars().take(80).collect::<String>()))
            }
        }
        (QOut::Rows(_), QOut::Err(k, _)) | (QOut::Err(k, _), QOut::Rows(_)) if k == "overflow" => {
            // SUM partial sums depend on the split: an Overflow on one side is tolerated iff the
            // specification allows the query to fail
            if refeval::may_fail(q, &table.rows()) {
                Ok(())
            } else {
                Err("Overflow under one layout only, although no partial sum can overflow".into())
            }
        }
        (x, y) if std::mem::discriminant(x) == std::mem::discriminant(y) => Ok(()),
        (x, y) => Err(format!("{} under one layout, {} under the other", x.signature(), y.signature())),
    }
}

/// One database per (table, layout): consecutive cases of a suite share their table and layout, so the
/// instance built for one case is kept for the next (a panic / hang taints and discards it). A replay
/// simply starts with an empty cache.
static DB_CACHE: std::sync::Mutex<Vec<(u64, Option<Db>)>> = std::sync::Mutex::new(Vec::new());

fn cache_key(table: &Sx, layout: &Sx) -> u64 {
    use std::hash::{Hash, Hasher};
    let mut h = std::collections::hash_map::DefaultHasher::new();
    table.to_string().hash(&mut h);
    layout.to_string().hash(&mut h);
    h.finish()
}

fn take_cached(key: u64) -> Option<Db> {
    let mut c = DB_CACHE.lock().unwrap();
    match c.iter().position(|(k, _)| *k == key) {
        Some(i) => c.remove(i).1,
        None => None,
    }
}

fn put_cached(key: u64, db: Option<Db>) {
    let mut c = DB_CACHE.lock().unwrap();
    if let Some(db) = db {
        // on-disk instances are not kept: their scratch directory is removed when they are dropped
        if !db.tainted && !db.on_disk() {
            c.push((key, Some(db)));
        }
    }
    while c.len() > 2 {
        c.remove(0);
    }
}

impl Suite for ApiSuite {
    fn name(&self) -> &'static str {
        self.name
    }

    fn generate(&self, seed: u64, tier: &str) -> Vec<Case> {
        let mut r = Rng::new(seed ^ self.salt);
        (self.gen)(&mut r, tier)
    }

    fn run(&self, input: &Sx) -> Vec<Outcome> {
        let it = input.items();
        let table = Table::from_sx(&it[1]);
        match it[0].atom() {
            "case" => {
                let layout = Layout::from_sx(&it[2]);
                let qs: Vec<Query> = it[3].items().iter().map(Query::from_sx).collect();
                let key = cache_key(&it[1], &it[2]);
                let mut cache: Option<Db> = take_cached(key);
                let outs = qs
                    .iter()
                    .map(|q| {
                        let j = run_and_judge(&table, &layout, q, &mut cache);
                        outcome_attributed(&table, &layout, q, &j, &mut cache, "")
                    })
                    .collect();
                put_cached(key, cache);
                outs
            }
            "pair" => {
                let l1 = Layout::from_sx(&it[2]);
                let l2 = Layout::from_sx(&it[3]);
                let qs: Vec<Query> = it[4].items().iter().map(Query::from_sx).collect();
                let mut c1: Option<Db> = None;
                let mut c2: Option<Db> = None;
                let mut outs = vec![];
                for q in &qs {
                    let j1 = run_and_judge(&table, &l1, q, &mut c1);
                    let j2 = run_and_judge(&table, &l2, q, &mut c2);
                    // the implementation-only oracle of C02: two realisations of one logical table
                    let eq = equivalent(q, &table, &j1.out, &j2.out);
                    let mut o1 = outcome_attributed(&table, &l1, q, &j1, &mut c1, " [layout 1]");
                    let mut o2 = outcome_attributed(&table, &l2, q, &j2, &mut c2, " [layout 2]");
                    if let Err(why) = eq {
                        let sig = format!(
                            "layout-dependent:{}||{}",
                            o1.signature.clone().unwrap_or_else(|| "valid".to_string()),
                            o2.signature.clone().unwrap_or_else(|| "valid".to_string())
                        );
                        let msg = format!(
                            "`{}`: results depend on the physical layout: {}; layout 1 {} -> {}; layout 2 {} -> {}",
                            q.sql(&table),
                            why,
                            l1.sx(),
                            short(&j1.out),
                            l2.sx(),
                            short(&j2.out)
                        );
                        // attach to the outcome that is itself valid (the other already reports)
                        if o1.oracle.is_none() {
                            o1.oracle = Some(msg.clone());
                            o1.signature = Some(sig.clone());
                        } else if o2.oracle.is_none() {
                            o2.oracle = Some(msg);
                            o2.signature = Some(sig);
                        }
                    }
                    outs.push(o1);
                    outs.push(o2);
                }
                outs
            }
            other => panic!("unknown case kind {}", other),
        }
    }
}
