//! Query AST of the supported fragment (mirror of Model/QuerySpec.v), its s-expression syntax and
//! its rendering as LocustDB SQL.
use crate::val::{Table, V};
use lvharness::sx::Sx;

#[derive(Clone, Debug, PartialEq)]
pub enum Expr {
    Col(usize),
    Const(V),
    Arith(&'static str, Box<Expr>, Box<Expr>),
    Cmp(&'static str, Box<Expr>, Box<Expr>),
    And(Box<Expr>, Box<Expr>),
    Or(Box<Expr>, Box<Expr>),
    Not(Box<Expr>),
    IsNull(Box<Expr>),
    IsNotNull(Box<Expr>),
    Like(Box<Expr>, Vec<u8>),
}

pub const ARITH: [&str; 5] = ["add", "sub", "mul", "div", "mod"];
pub const CMP: [&str; 6] = ["eq", "ne", "lt", "le", "gt", "ge"];
pub const AGGS: [&str; 4] = ["count", "sum", "min", "max"];

fn intern(set: &[&'static str], s: &str) -> &'static str {
    set.iter().find(|o| **o == s).copied().unwrap_or_else(|| panic!("unknown symbol {}", s))
}

#[derive(Clone, Debug, PartialEq)]
pub enum Sel {
    Plain(Expr),
    Agg(&'static str, Expr),
    Avg(Expr),
}

#[derive(Clone, Debug, PartialEq)]
pub enum OKey {
    Expr(Expr),
    Out(usize),
}

#[derive(Clone, Debug, PartialEq)]
pub struct Query {
    pub select: Vec<Sel>,
    pub filter: Option<Expr>,
    pub order: Vec<(OKey, bool)>,
    pub limit: Option<u64>,
    pub offset: u64,
    /// write `OFFSET m` even when m = 0 / omit it (only matters for the SQL text)
    pub explicit_offset: bool,
}

impl Expr {
    pub fn col(i: usize) -> Expr {
        Expr::Col(i)
    }
    pub fn int(z: i64) -> Expr {
        Expr::Const(V::Int(z))
    }
    pub fn cmp(op: &'static str, l: Expr, r: Expr) -> Expr {
        Expr::Cmp(op, Box::new(l), Box::new(r))
    }
    pub fn arith(op: &'static str, l: Expr, r: Expr) -> Expr {
        Expr::Arith(op, Box::new(l), Box::new(r))
    }
    pub fn sx(&self) -> Sx {
        match self {
            Expr::Col(i) => Sx::l(vec![Sx::a("col"), Sx::int(i)]),
            Expr::Const(v) => Sx::l(vec![Sx::a("const"), v.sx()]),
            Expr::Arith(op, l, r) => Sx::l(vec![Sx::a("arith"), Sx::a(op), l.sx(), r.sx()]),
            Expr::Cmp(op, l, r) => Sx::l(vec![Sx::a("cmp"), Sx::a(op), l.sx(), r.sx()]),
            Expr::And(l, r) => Sx::l(vec![Sx::a("and"), l.sx(), r.sx()]),
            Expr::Or(l, r) => Sx::l(vec![Sx::a("or"), l.sx(), r.sx()]),
            Expr::Not(e) => Sx::l(vec![Sx::a("not"), e.sx()]),
            Expr::IsNull(e) => Sx::l(vec![Sx::a("isnull"), e.sx()]),
            Expr::IsNotNull(e) => Sx::l(vec![Sx::a("isnotnull"), e.sx()]),
            Expr::Like(e, p) => Sx::l(vec![Sx::a("like"), e.sx(), Sx::bytes(p)]),
        }
    }
    pub fn from_sx(x: &Sx) -> Expr {
        let it = x.items();
        let b = |i: usize| Box::new(Expr::from_sx(&it[i]));
        match it[0].atom() {
            "col" => Expr::Col(it[1].as_usize()),
            "const" => Expr::Const(V::from_sx(&it[1])),
            "arith" => Expr::Arith(intern(&ARITH, it[1].atom()), b(2), b(3)),
            "cmp" => Expr::Cmp(intern(&CMP, it[1].atom()), b(2), b(3)),
            "and" => Expr::And(b(1), b(2)),
            "or" => Expr::Or(b(1), b(2)),
            "not" => Expr::Not(b(1)),
            "isnull" => Expr::IsNull(b(1)),
            "isnotnull" => Expr::IsNotNull(b(1)),
            "like" => Expr::Like(b(1), crate::val::unhex(it[2].atom())),
            t => panic!("expr tag {}", t),
        }
    }
    pub fn sql(&self, t: &Table) -> String {
        match self {
            Expr::Col(i) => t.cols[*i].name.clone(),
            Expr::Const(v) => const_sql(v),
            Expr::Arith(op, l, r) => {
                let sym = match *op {
                    "add" => "+",
                    "sub" => "-",
                    "mul" => "*",
                    "div" => "/",
                    _ => "%",
                };
                format!("({} {} {})", l.sql(t), sym, r.sql(t))
            }
            Expr::Cmp(op, l, r) => {
                let sym = match *op {
                    "eq" => "=",
                    "ne" => "<>",
                    "lt" => "<",
                    "le" => "<=",
                    "gt" => ">",
                    _ => ">=",
                };
                format!("({} {} {})", l.sql(t), sym, r.sql(t))
            }
            Expr::And(l, r) => format!("({} AND {})", l.sql(t), r.sql(t)),
            Expr::Or(l, r) => format!("({} OR {})", l.sql(t), r.sql(t)),
            Expr::Not(e) => format!("(NOT {})", e.sql(t)),
            Expr::IsNull(e) => format!("({} IS NULL)", e.sql(t)),
            Expr::IsNotNull(e) => format!("({} IS NOT NULL)", e.sql(t)),
            Expr::Like(e, p) => format!("({} LIKE '{}')", e.sql(t), String::from_utf8_lossy(p)),
        }
    }
    pub fn walk<'a>(&'a self, f: &mut dyn FnMut(&'a Expr)) {
        f(self);
        match self {
            Expr::Arith(_, l, r) | Expr::Cmp(_, l, r) | Expr::And(l, r) | Expr::Or(l, r) => {
                l.walk(f);
                r.walk(f);
            }
            Expr::Not(e) | Expr::IsNull(e) | Expr::IsNotNull(e) | Expr::Like(e, _) => e.walk(f),
            _ => {}
        }
    }
    pub fn cols(&self) -> Vec<usize> {
        let mut v = vec![];
        self.walk(&mut |e| {
            if let Expr::Col(i) = e {
                if !v.contains(i) {
                    v.push(*i)
                }
            }
        });
        v
    }
}

/// SQL literal; floats are generated as multiples of 2^-k with few digits so that the decimal text
/// parses back to exactly the same double
pub fn const_sql(v: &V) -> String {
    match v {
        V::Null => "NULL".into(),
        V::Int(z) => {
            if *z < 0 {
                format!("(-{})", (*z as i128).abs())
            } else {
                format!("{}", z)
            }
        }
        V::Float(b) => {
            let f = f64::from_bits(*b);
            let txt = format!("{:?}", f.abs());
            let txt = if txt.contains('.') || txt.contains('e') { txt } else { format!("{}.0", txt) };
            if f.is_sign_negative() {
                format!("(-{})", txt)
            } else {
                txt
            }
        }
        V::Str(s) => format!("'{}'", String::from_utf8_lossy(s)),
    }
}

impl Sel {
    pub fn sx(&self) -> Sx {
        match self {
            Sel::Plain(e) => Sx::l(vec![Sx::a("plain"), e.sx()]),
            Sel::Agg(k, e) => Sx::l(vec![Sx::a("agg"), Sx::a(k), e.sx()]),
            Sel::Avg(e) => Sx::l(vec![Sx::a("avg"), e.sx()]),
        }
    }
    pub fn from_sx(x: &Sx) -> Sel {
        let it = x.items();
        match it[0].atom() {
            "plain" => Sel::Plain(Expr::from_sx(&it[1])),
            "agg" => Sel::Agg(intern(&AGGS, it[1].atom()), Expr::from_sx(&it[2])),
            "avg" => Sel::Avg(Expr::from_sx(&it[1])),
            t => panic!("sel tag {}", t),
        }
    }
    pub fn sql(&self, t: &Table) -> String {
        match self {
            Sel::Plain(e) => e.sql(t),
            Sel::Agg(k, e) => format!("{}({})", k.to_uppercase(), e.sql(t)),
            Sel::Avg(e) => format!("AVG({})", e.sql(t)),
        }
    }
    pub fn is_agg(&self) -> bool {
        !matches!(self, Sel::Plain(_))
    }
    pub fn expr(&self) -> &Expr {
        match self {
            Sel::Plain(e) | Sel::Agg(_, e) | Sel::Avg(e) => e,
        }
    }
}

impl Query {
    pub fn select(items: Vec<Sel>) -> Query {
        Query { select: items, filter: None, order: vec![], limit: None, offset: 0, explicit_offset: false }
    }
    pub fn is_agg(&self) -> bool {
        self.select.iter().any(|s| s.is_agg())
    }
    pub fn kind(&self) -> &'static str {
        if self.is_agg() {
            "agg"
        } else if self.order.is_empty() {
            "select"
        } else {
            "order"
        }
    }
    pub fn sx(&self) -> Sx {
        let mut sel = vec![Sx::a("select")];
        sel.extend(self.select.iter().map(|s| s.sx()));
        Sx::l(vec![
            Sx::a("query"),
            Sx::l(sel),
            Sx::l(vec![Sx::a("where"), Sx::opt(self.filter.as_ref().map(|e| e.sx()))]),
            Sx::l(vec![
                Sx::a("order"),
                Sx::l(self
                    .order
                    .iter()
                    .map(|(k, d)| {
                        Sx::l(vec![
                            match k {
                                OKey::Expr(e) => Sx::l(vec![Sx::a("expr"), e.sx()]),
                                OKey::Out(i) => Sx::l(vec![Sx::a("out"), Sx::int(i)]),
                            },
                            Sx::boolean(*d),
                        ])
                    })
                    .collect()),
            ]),
            Sx::l(vec![Sx::a("limit"), Sx::opt(self.limit.map(Sx::int))]),
            Sx::l(vec![Sx::a("offset"), Sx::int(self.offset)]),
        ])
    }
    pub fn from_sx(x: &Sx) -> Query {
        let it = x.items();
        assert_eq!(it[0].atom(), "query");
        let opt = |x: &Sx| -> Option<Sx> {
            match x {
                Sx::A(_) => None,
                Sx::L(l) => Some(l[1].clone()),
            }
        };
        Query {
            select: it[1].items()[1..].iter().map(Sel::from_sx).collect(),
            filter: opt(&it[2].items()[1]).map(|e| Expr::from_sx(&e)),
            order: it[3].items()[1]
                .items()
                .iter()
                .map(|kd| {
                    let kd = kd.items();
                    let k = kd[0].items();
                    (
                        match k[0].atom() {
                            "expr" => OKey::Expr(Expr::from_sx(&k[1])),
                            _ => OKey::Out(k[1].as_usize()),
                        },
                        kd[1].atom() == "true",
                    )
                })
                .collect(),
            limit: opt(&it[4].items()[1]).map(|l| l.as_u64()),
            offset: it[5].items()[1].as_u64(),
            explicit_offset: it[5].items()[1].as_u64() > 0,
        }
    }
    pub fn sql(&self, t: &Table) -> String {
        let mut s = format!(
            "SELECT {} FROM t",
            self.select.iter().map(|x| x.sql(t)).collect::<Vec<_>>().join(", ")
        );
        if let Some(f) = &self.filter {
            s.push_str(&format!(" WHERE {}", f.sql(t)));
        }
        if !self.order.is_empty() {
            s.push_str(" ORDER BY ");
            s.push_str(
                &self
                    .order
                    .iter()
                    .map(|(k, d)| {
                        let txt = match k {
                            OKey::Expr(e) => e.sql(t),
                            OKey::Out(i) => self.select[*i].sql(t),
                        };
                        format!("{}{}", txt, if *d { " DESC" } else { " ASC" })
                    })
                    .collect::<Vec<_>>()
                    .join(", "),
            );
        }
        if let Some(l) = self.limit {
            s.push_str(&format!(" LIMIT {}", l));
        }
        if self.offset > 0 || self.explicit_offset {
            s.push_str(&format!(" OFFSET {}", self.offset));
        }
        s
    }
    pub fn exprs(&self) -> Vec<&Expr> {
        let mut v: Vec<&Expr> = vec![];
        if let Some(f) = &self.filter {
            v.push(f);
        }
        for s in &self.select {
            v.push(s.expr());
        }
        for (k, _) in &self.order {
            if let OKey::Expr(e) = k {
                v.push(e);
            }
        }
        v
    }
}
