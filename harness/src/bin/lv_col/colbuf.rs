//! C01, column level: drive the real ColumnBuffer with a generated push sequence, finalize, and
//!  (1) compare the structure the writer chose (codec ops, sections, range) with the Coq model's,
//!  (2) SELECT the column through the real query engine and compare every cell with what was pushed
//!      (the property oracle) and with the model's decode of its own column.
use crate::dump::*;
use crate::ops::*;
use crate::values::*;
use locustdb::verif::mem_store::DataSource;
use lvharness::rng::Rng;
use lvharness::suite::{Case, Outcome, Suite};
use lvharness::sx::Sx;

pub fn suites() -> Vec<Box<dyn Suite>> {
    vec![Box::new(ColBuf)]
}

pub struct ColBuf;

#[derive(Clone)]
pub enum V {
    I(i64),
    F(u64),
    S(String),
}

/// turn a list of optional values into pushes. style 0: maximal runs; 1: runs split at random;
/// 2: one push per value with push_nulls(gap) before each (gap may be 0), as the sparse API does
pub fn chunk(r: &mut Rng, cells: &[Option<V>], style: u64) -> Vec<Op> {
    let mut ops: Vec<Op> = vec![];
    let mut i = 0;
    let flush_vals = |ops: &mut Vec<Op>, vals: &[V]| {
        if vals.is_empty() {
            return;
        }
        match &vals[0] {
            V::I(_) => ops.push(Op::Ints(vals.iter().map(|v| if let V::I(x) = v { *x } else { unreachable!() }).collect(), None)),
            V::F(_) => ops.push(Op::Floats(vals.iter().map(|v| if let V::F(x) = v { *x } else { unreachable!() }).collect(), None)),
            V::S(_) => ops.push(Op::Strs(vals.iter().map(|v| if let V::S(x) = v { x.clone() } else { unreachable!() }).collect(), None)),
        }
    };
    let same_type = |a: &V, b: &V| matches!((a, b), (V::I(_), V::I(_)) | (V::F(_), V::F(_)) | (V::S(_), V::S(_)));
    while i < cells.len() {
        match &cells[i] {
            None => {
                let mut j = i;
                while j < cells.len() && cells[j].is_none() {
                    j += 1;
                }
                if style == 2 && j < cells.len() {
                    // gap before a value
                    ops.push(Op::Nulls(j - i));
                    flush_vals(&mut ops, &[cells[j].clone().unwrap()]);
                    j += 1;
                } else {
                    ops.push(Op::Nulls(j - i));
                }
                i = j;
            }
            Some(v0) => {
                if style == 2 {
                    ops.push(Op::Nulls(0));
                    flush_vals(&mut ops, &[v0.clone()]);
                    i += 1;
                    continue;
                }
                let mut j = i;
                let mut run: Vec<V> = vec![];
                while j < cells.len() {
                    match &cells[j] {
                        Some(v) if same_type(v0, v) => {
                            run.push(v.clone());
                            j += 1;
                            if style == 1 && r.chance(1, 6) {
                                break;
                            }
                        }
                        _ => break,
                    }
                }
                flush_vals(&mut ops, &run);
                i = j;
            }
        }
    }
    if style == 2 {
        // the sparse arms always end with push_nulls(c - next_i)
        if !matches!(ops.last(), Some(Op::Nulls(_))) {
            ops.push(Op::Nulls(0));
        }
    }
    ops
}

fn with_nulls(vals: Vec<V>, present: &[bool]) -> Vec<Option<V>> {
    // `present` decides which positions carry a value; values are consumed in order
    let mut it = vals.into_iter();
    present.iter().map(|p| if *p { it.next() } else { None }).collect()
}

pub fn gen_typed_cells(r: &mut Rng, ty: &str, class: &str, n: usize, pattern: &str) -> Vec<Option<V>> {
    match ty {
        "int" => {
            let xs = match class {
                "F10" => gen_ints_f10(r, n),
                "F19" => gen_ints_f19(r, n),
                c => gen_ints(r, c, n),
            };
            let p = gen_present(r, pattern, xs.len());
            with_nulls(xs.into_iter().map(V::I).collect(), &p)
        }
        "float" => {
            let fs = gen_floats(r, class, n);
            let p = gen_present(r, pattern, fs.len());
            with_nulls(fs.into_iter().map(V::F).collect(), &p)
        }
        _ => {
            let ss = gen_strings(r, class, n);
            let p = gen_present(r, pattern, ss.len());
            with_nulls(ss.into_iter().map(V::S).collect(), &p)
        }
    }
}

/// facts about a push sequence that the known-finding signatures refer to (mirrors the KnownClass
/// predicates of the Coq statements)
pub struct Shape {
    /// rows in the buffer
    pub len: usize,
    /// byte length of the null bitmap, if the buffer has one (BitVecMut::set grows it lazily, so
    /// it ends with the byte of the last non-NULL cell)
    pub bitmap_bytes: Option<usize>,
    pub int_min_is_i64_min_and_max_is_zero: bool,
    pub increasing_step_overflows: bool,
    pub null_after_mixed: bool,
    pub final_kind: &'static str,
}

pub fn shape_of(ops: &[Op]) -> Shape {
    #[derive(PartialEq, Clone, Copy)]
    enum K {
        Empty,
        Int,
        Float,
        Str,
        Mixed,
    }
    let mut k = K::Empty;
    let mut len = 0usize;
    let mut ints: Vec<i64> = vec![]; // raw data of the Int buffer incl. placeholders
    let mut null_after_mixed = false;
    let mut bitmap: Option<usize> = None;
    for op in ops {
        // the bitmap: created when values arrive in an empty buffer that already has rows, or when
        // NULLs arrive in a non-empty buffer; afterwards it grows to the byte of every value pushed
        match op {
            Op::Nulls(_) => {
                if k != K::Empty && bitmap.is_none() {
                    bitmap = Some(len.div_ceil(8));
                }
            }
            _ => {
                if k == K::Empty && len > 0 {
                    bitmap = Some(len / 8);
                }
                if let Some(b) = bitmap {
                    if op.count() > 0 {
                        bitmap = Some(b.max((len + op.count() - 1) / 8 + 1));
                    }
                }
            }
        }
        match op {
            Op::Ints(xs, _) => {
                match k {
                    K::Empty => {
                        ints = vec![0; len];
                        ints.extend(xs);
                        k = K::Int
                    }
                    K::Int => ints.extend(xs),
                    K::Str => k = K::Mixed,
                    _ => {}
                }
            }
            Op::Floats(_, _) => match k {
                K::Empty | K::Int => k = K::Float,
                K::Str => k = K::Mixed,
                _ => {}
            },
            Op::Strs(_, _) => match k {
                K::Empty => k = K::Str,
                K::Int | K::Float => k = K::Mixed,
                _ => {}
            },
            Op::Nulls(n) => {
                if k == K::Int {
                    ints.extend(std::iter::repeat(0).take(*n));
                }
                if k == K::Mixed && *n > 0 {
                    null_after_mixed = true;
                }
            }
        }
        len += op.count();
    }
    let is_int = k == K::Int;
    let mn = ints.iter().min().cloned();
    let mx = ints.iter().max().cloned();
    let step_overflow = ints.windows(2).any(|w| (w[1] as i128 - w[0] as i128) > i64::MAX as i128);
    Shape {
        len,
        bitmap_bytes: bitmap,
        int_min_is_i64_min_and_max_is_zero: is_int && mn == Some(i64::MIN) && mx == Some(0),
        increasing_step_overflows: is_int && step_overflow,
        null_after_mixed,
        final_kind: match k {
            K::Empty => "empty",
            K::Int => "int",
            K::Float => "float",
            K::Str => "str",
            K::Mixed => "mixed",
        },
    }
}

impl Shape {
    /// the streamed read of the bitmap section starts at byte (k * batch_size) / 8 for batch k; the
    /// last batch starts beyond the end of a bitmap that stops early (trailing NULLs)
    pub fn bitmap_shorter_than_stream_offset(&self, batch_size: usize) -> bool {
        match self.bitmap_bytes {
            Some(l) if self.len >= batch_size => {
                // batches 0 ..= len / batch_size are executed (one more than needed when the length
                // is a multiple of the batch size)
                let kmax = self.len / batch_size;
                (kmax * batch_size).div_ceil(8) > l
            }
            _ => false,
        }
    }
}

pub fn shape_tag(s: &Shape, batch_size: usize) -> String {
    let mut t = vec![];
    if s.bitmap_shorter_than_stream_offset(batch_size) {
        t.push("bitmap-shorter-than-stream-offset");
    }
    if s.int_min_is_i64_min_and_max_is_zero {
        t.push("min-is-i64-MIN-and-max-is-0");
    }
    if s.increasing_step_overflows {
        t.push("increasing-step-exceeds-i64-MAX");
    }
    if s.null_after_mixed {
        t.push("null-after-mixed");
    }
    if t.is_empty() {
        "-".into()
    } else {
        t.join("+")
    }
}

pub fn nontrivial(cells: &[Cell]) -> bool {
    cells.iter().any(|c| *c == Cell::Null) || cells.windows(2).any(|w| w[0] != w[1])
}

const BATCH_SIZES: [usize; 6] = [1024, 1024, 8, 16, 64, 4096];

impl Suite for ColBuf {
    fn name(&self) -> &'static str {
        "c01_colbuf"
    }

    fn generate(&self, seed: u64, tier: &str) -> Vec<Case> {
        let mut r = Rng::new(seed ^ 0xC01_C01);
        let n_cases = if tier == "thorough" { 40_000 } else { 2_400 };
        let mut cases = vec![];
        for i in 0..n_cases {
            let mut r = r.fork(i as u64);
            let style = r.below(3);
            let pattern = *r.pick(&NULL_PATTERNS);
            let sel = r.below(100);
            let big_dict = i % 800 == 799 && i < 4000;
            let (class, cells): (String, Vec<Option<V>>) = if big_dict {
                ("str/dict-65536/none/oracle-only".to_string(), gen_typed_cells(&mut r, "str", "dict-65536", 1, "none"))
            } else if sel < 40 {
                let c = *r.pick(&INT_CLASSES);
                let n = pick_len(&mut r);
                (format!("int/{}/{}", c, pattern), gen_typed_cells(&mut r, "int", c, n, pattern))
            } else if sel < 42 {
                let n = pick_len(&mut r);
                (format!("int/F10/{}", "none"), gen_typed_cells(&mut r, "int", "F10", n, "none"))
            } else if sel < 44 {
                let n = pick_len(&mut r);
                (format!("int/F19/{}", pattern), gen_typed_cells(&mut r, "int", "F19", n, pattern))
            } else if sel < 58 {
                let c = *r.pick(&FLOAT_CLASSES);
                let n = pick_len(&mut r);
                (format!("float/{}/{}", c, pattern), gen_typed_cells(&mut r, "float", c, n, pattern))
            } else if sel < 84 {
                let c = *r.pick(&STRING_CLASSES);
                let n = pick_len(&mut r);
                (format!("str/{}/{}", c, pattern), gen_typed_cells(&mut r, "str", c, n, pattern))
            } else if sel < 86 {
                ("all-null".to_string(), vec![None; pick_len(&mut r)])
            } else {
                // several types in one buffer
                let segs = r.usize(2, 4);
                let mut cells = vec![];
                let mut label = vec![];
                for _ in 0..segs {
                    let ty = *r.pick(&["int", "float", "str"]);
                    let c = match ty {
                        "int" => *r.pick(&["small-signed", "u8", "full-i64", "extremes"]),
                        "float" => *r.pick(&["specials", "integral", "f32-exact", "random-bits"]),
                        _ => *r.pick(&["dict-low", "numeric", "hex-lower", "unicode", "empty"]),
                    };
                    let n = r.usize(1, 12);
                    let p = *r.pick(&["none", "some", "leading", "trailing"]);
                    label.push(ty);
                    cells.extend(gen_typed_cells(&mut r, ty, c, n, p));
                }
                (format!("mixed/{}", label.join("+")), cells)
            };
            let ops = chunk(&mut r, &cells, style);
            let sh = shape_of(&ops);
            let class = if sh.null_after_mixed { format!("{}/F4-shape", class) } else { class };
            let bs = *r.pick(&BATCH_SIZES);
            let mut input = vec![Sx::int(bs), ops_sx(&ops)];
            if big_dict {
                input.push(Sx::a("oracle-only"));
            }
            cases.push(Case { class, input: Sx::l(input) });
        }
        cases
    }

    fn run(&self, input: &Sx) -> Vec<Outcome> {
        install_panic_hook();
        let it = input.items();
        let batch_size = it[0].as_usize();
        let ops = parse_ops(&it[1]);
        // columns beyond the size the list-based model can evaluate are checked by the oracle only
        let with_model = it.len() < 3;
        let tbl = float_table(floats_of_ops(&ops).iter());
        let model_input = Sx::l(vec![tbl, it[1].clone()]);
        let exp = expected(&ops);
        let sh = shape_of(&ops);
        let nt = nontrivial(&exp);
        let mut outs = vec![];

        // (1) structure
        let built = match build_column("c", &ops) {
            Err((msg, file)) => {
                outs.push(Outcome {
                    model: Some("col_build".into()),
                    model_input: Some(model_input),
                    impl_out: Some(Sx::l(vec![Sx::a("panic"), Sx::a(panic_class(&msg))])),
                    oracle: Some(format!("building the column panicked at {}: {}", file, msg)),
                    signature: Some(format!("finalize-panic:{}:{}:{}", file, skeleton(&msg), shape_tag(&sh, batch_size))),
                    nontrivial: nt,
                });
                return outs;
            }
            Ok(b) => b,
        };
        let len_ok = built.column.len() == built.buffer_len;
        let comp = compression_of(&built.column);
        let (len_oracle, len_sig) = if len_ok {
            (None, None)
        } else {
            (
                Some(format!(
                    "column buffer holds {} rows but the finished column has {} (kind {}, compression {})",
                    built.buffer_len,
                    built.column.len(),
                    sh.final_kind,
                    comp
                )),
                Some(format!("finalize-length-mismatch:{}:{}", sh.final_kind, shape_tag(&sh, batch_size))),
            )
        };
        match dump_column(built.column) {
            Ok(d) => outs.push(Outcome {
                model: if with_model { Some("col_build".into()) } else { None },
                model_input: if with_model { Some(model_input.clone()) } else { None },
                impl_out: if with_model { Some(d) } else { Some(Sx::l(vec![Sx::a("ops"), d.items()[3].clone()])) },
                oracle: len_oracle,
                signature: len_sig,
                nontrivial: nt,
            }),
            Err(msg) => outs.push(Outcome {
                model: None,
                model_input: None,
                impl_out: Some(Sx::a("panic")),
                oracle: Some(format!("decompressing section 0 of the finished column panicked: {}", msg)),
                signature: Some(format!("decompress-panic:{}:{}", last_panic_location(), skeleton(&msg))),
                nontrivial: nt,
            }),
        }

        // (2) SELECT through the query engine
        let col = match build_column("c", &ops) {
            Ok(b) => b.column,
            Err(_) => return outs,
        };
        match select_column(col, batch_size) {
            Ok(cells) => {
                let diff = first_diff(&exp, &cells);
                let sig = diff.as_ref().map(|_| format!("select-{}:{}:{}", diff_signature(&exp, &cells), sh.final_kind, shape_tag(&sh, batch_size)));
                outs.push(Outcome {
                    model: if with_model { Some("col_cells".into()) } else { None },
                    model_input: if with_model { Some(model_input) } else { None },
                    impl_out: if with_model { Some(cells_sx(&cells)) } else { Some(Sx::l(vec![Sx::a("cells"), Sx::int(cells.len())])) },
                    oracle: diff.map(|d| format!("SELECT returned something else than was pushed: {}", d)),
                    signature: sig,
                    nontrivial: nt,
                });
            }
            Err((kind, msg, file)) => outs.push(Outcome {
                model: None,
                model_input: None,
                impl_out: Some(Sx::l(vec![Sx::a(&kind), Sx::a(skeleton(&msg))])),
                oracle: Some(format!("SELECT on the finished column failed ({} at {}): {}", kind, file, msg)),
                signature: Some(format!("select-{}:{}:{}:{}:{}", kind, file, skeleton(&msg), sh.final_kind, shape_tag(&sh, batch_size))),
                nontrivial: nt,
            }),
        }
        outs
    }
}
