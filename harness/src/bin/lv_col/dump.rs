//! Driving the real column writer and the real query engine on a single column, without a database.
use crate::ops::{Cell, Op};
use locustdb::verif::engine::data_types::EncodingType;
use locustdb::verif::engine::query_task::QueryTask;
use locustdb::verif::mem_store::column_buffer::ColumnBuffer;
use locustdb::verif::mem_store::partition::Partition;
use locustdb::verif::mem_store::{CodecOp, Column, DataSection, DataSource, Lru};
use locustdb::verif::scheduler::verif_export::disk_read_scheduler::DiskReadScheduler;
use locustdb::verif::scheduler::{SharedSender, Task};
use locustdb::verif::syntax::parser;
use locustdb::{NoopStorage, Value};
use lvharness::suite::panic_message;
use lvharness::sx::Sx;
use ordered_float::OrderedFloat;
use std::cell::RefCell;
use std::sync::Arc;

thread_local! {
    static LAST_PANIC_LOCATION: RefCell<String> = RefCell::new(String::new());
}

/// every panic of every thread since the last `take_panics` (file, message skeleton): panics in the
/// database's worker / flush threads are only visible here
static PANIC_LOG: std::sync::Mutex<Vec<(String, String)>> = std::sync::Mutex::new(Vec::new());

pub fn take_panics() -> Vec<(String, String)> {
    std::mem::take(&mut *PANIC_LOG.lock().unwrap_or_else(|e| e.into_inner()))
}
pub fn panics_seen() -> usize {
    PANIC_LOG.lock().unwrap_or_else(|e| e.into_inner()).len()
}

/// Install a panic hook that is silent but remembers `file` of the panic location (line numbers
/// are deliberately dropped: signatures must survive unrelated edits).
pub fn install_panic_hook() {
    static ONCE: std::sync::Once = std::sync::Once::new();
    ONCE.call_once(install_panic_hook_inner);
}

fn install_panic_hook_inner() {
    std::panic::set_hook(Box::new(|info| {
        let loc = info
            .location()
            .map(|l| {
                let f = l.file();
                match f.find("src/") {
                    Some(i) => f[i..].to_string(),
                    None => f.rsplit('/').next().unwrap_or(f).to_string(),
                }
            })
            .unwrap_or_default();
        if std::env::var("LV_PANIC_TRACE").is_ok() {
            eprintln!("panic: {}", info);
        }
        let msg = if let Some(s) = info.payload().downcast_ref::<&str>() {
            s.to_string()
        } else if let Some(s) = info.payload().downcast_ref::<String>() {
            s.clone()
        } else {
            "?".to_string()
        };
        PANIC_LOG.lock().unwrap_or_else(|e| e.into_inner()).push((loc.clone(), skeleton(&msg)));
        LAST_PANIC_LOCATION.with(|c| *c.borrow_mut() = loc);
    }));
}

pub fn last_panic_location() -> String {
    LAST_PANIC_LOCATION.with(|c| c.borrow().clone())
}

/// digits and quoted payloads removed
pub fn skeleton(msg: &str) -> String {
    let mut out = String::new();
    let mut prev_hash = false;
    for ch in msg.chars().take(160) {
        if ch.is_ascii_digit() {
            if !prev_hash {
                out.push('#');
            }
            prev_hash = true;
        } else {
            prev_hash = false;
            out.push(if ch == ' ' { '_' } else { ch });
        }
    }
    out
}

/// The small enum the model uses for panics
pub fn panic_class(msg: &str) -> &'static str {
    if msg.contains("attempt to subtract with overflow") {
        "sub-overflow"
    } else if msg.contains("attempt to add with overflow") {
        "add-overflow"
    } else if msg.contains("unreachable") {
        "encode-unreachable"
    } else if msg.contains("out of range") || msg.contains("out of bounds") {
        "out-of-bounds"
    } else if msg.contains("not yet implemented") || msg.contains("not implemented") {
        "unsupported"
    } else {
        "other"
    }
}

pub fn apply_ops(cb: &mut ColumnBuffer, ops: &[Op]) {
    for op in ops {
        match op {
            Op::Ints(xs, p) => cb.push_ints(xs.iter().cloned(), p.as_deref()),
            Op::Floats(fs, p) => cb.push_floats(fs.iter().map(|b| OrderedFloat(f64::from_bits(*b))), p.as_deref()),
            Op::Strs(ss, p) => cb.push_strings(ss.iter().map(|s| s.as_str()), p.as_deref()),
            Op::Nulls(n) => cb.push_nulls(*n),
        }
    }
}

pub struct Built {
    pub column: Arc<Column>,
    pub buffer_len: usize,
}

/// ColumnBuffer::default() + pushes + finalize, panics reported as (message, file)
pub fn build_column(name: &str, ops: &[Op]) -> Result<Built, (String, String)> {
    let ops = ops.to_vec();
    let name = name.to_string();
    std::panic::catch_unwind(move || {
        let mut cb = ColumnBuffer::default();
        apply_ops(&mut cb, &ops);
        let buffer_len = cb.len();
        let column = cb.finalize(&name);
        Built { column, buffer_len }
    })
    .map_err(|e| (panic_message(e), last_panic_location()))
}

fn etype_sx(t: &EncodingType) -> Sx {
    Sx::a(match t {
        EncodingType::U8 => "u8",
        EncodingType::U16 => "u16",
        EncodingType::U32 => "u32",
        EncodingType::U64 => "u64",
        EncodingType::I64 => "i64",
        EncodingType::F64 => "f64",
        other => return Sx::a(format!("{:?}", other).to_lowercase()),
    })
}

fn op_sx(op: &CodecOp) -> Sx {
    match op {
        CodecOp::Nullable => Sx::a("nullable"),
        CodecOp::Add(t, x) => Sx::l(vec![Sx::a("add"), etype_sx(t), Sx::int(x)]),
        CodecOp::Delta(t) => Sx::l(vec![Sx::a("delta"), etype_sx(t)]),
        CodecOp::ToI64(t) => Sx::l(vec![Sx::a("toi64"), etype_sx(t)]),
        CodecOp::PushDataSection(i) => Sx::l(vec![Sx::a("push"), Sx::int(i)]),
        CodecOp::DictLookup(t) => Sx::l(vec![Sx::a("dict"), etype_sx(t)]),
        CodecOp::LZ4(t, n) => Sx::l(vec![Sx::a("lz4"), etype_sx(t), Sx::int(n)]),
        CodecOp::Pco(t, n, f) => Sx::l(vec![Sx::a("pco"), etype_sx(t), Sx::int(n), Sx::boolean(*f)]),
        CodecOp::UnpackStrings => Sx::a("unpack"),
        CodecOp::UnhexpackStrings(u, n) => Sx::l(vec![Sx::a("unhex"), Sx::boolean(*u), Sx::int(n)]),
        CodecOp::Unknown => Sx::a("unknown"),
    }
}

fn section_sx(s: &DataSection) -> Sx {
    match s {
        DataSection::U8(x) => Sx::l(vec![Sx::a("u8"), Sx::bytes(x)]),
        DataSection::U16(x) => Sx::l(vec![Sx::a("u16"), Sx::list(x, |v| Sx::int(v))]),
        DataSection::U32(x) => Sx::l(vec![Sx::a("u32"), Sx::list(x, |v| Sx::int(v))]),
        DataSection::U64(x) => Sx::l(vec![Sx::a("u64"), Sx::list(x, |v| Sx::int(v))]),
        DataSection::I64(x) => Sx::l(vec![Sx::a("i64"), Sx::list(x, |v| Sx::int(v))]),
        DataSection::F64(x) => Sx::l(vec![Sx::a("f64"), Sx::list(x, |v| Sx::int(v.0.to_bits()))]),
        DataSection::Null(n) => Sx::l(vec![Sx::a("null"), Sx::int(n)]),
        DataSection::Bitvec(x) => Sx::l(vec![Sx::a("bitvec"), Sx::bytes(x)]),
        DataSection::LZ4 { data, .. } => Sx::l(vec![Sx::a("lz4"), Sx::int(data.len())]),
        DataSection::Pco { data, .. } => Sx::l(vec![Sx::a("pco"), Sx::int(data.len())]),
    }
}

/// which generic compression `lz4_or_pco_encode` chose for section 0
pub fn compression_of(col: &Column) -> &'static str {
    match col.codec().ops().first() {
        Some(CodecOp::LZ4(..)) => "lz4",
        Some(CodecOp::Pco(_, _, true)) => "pco-fp32",
        Some(CodecOp::Pco(..)) => "pco",
        _ => "plain",
    }
}

/// (col len range ops sections) of the column with section 0 decompressed again
/// (`lz4_or_pco_decode`, the routine the disk loader uses): the structure the writer chose.
pub fn dump_column(col: Arc<Column>) -> Result<Sx, String> {
    std::panic::catch_unwind(move || {
        // re-serialise through bincode-free route: Column is not Clone; decompress a deep copy made
        // through serde_json would lose NaN payloads, so take the Arc apart instead.
        let mut col = match Arc::try_unwrap(col) {
            Ok(c) => c,
            Err(_) => panic!("column handle is shared"),
        };
        col.lz4_or_pco_decode();
        Sx::l(vec![
            Sx::a("col"),
            Sx::int(DataSource::len(&col)),
            Sx::opt(DataSource::range(&col).map(|(a, b)| Sx::l(vec![Sx::int(a), Sx::int(b)]))),
            Sx::list(col.codec().ops(), op_sx),
            Sx::list(col.data(), section_sx),
        ])
    })
    .map_err(panic_message)
}

fn value_cell(v: &Value) -> Cell {
    match v {
        Value::Int(i) => Cell::Int(*i),
        Value::Float(f) => Cell::Float(f.0.to_bits()),
        Value::Str(s) => Cell::Str(s.as_bytes().to_vec()),
        Value::Null => Cell::Null,
    }
}

pub fn rows_to_cells(rows: &[Vec<Value>], col: usize) -> Vec<Cell> {
    rows.iter().map(|r| value_cell(&r[col])).collect()
}

/// `SELECT <name> FROM t` executed by the real query engine over one in-memory partition that holds
/// exactly this column.  Err = (kind, message, file) with kind in {panic, error}.
pub fn select_column(col: Arc<Column>, batch_size: usize) -> Result<Vec<Cell>, (String, String, String)> {
    let name = col.name().to_string();
    let r = std::panic::catch_unwind(move || {
        let lru = Lru::default();
        let (partition, _keys) = Partition::new("t", 0, vec![col], lru.clone(), true, 0);
        let drs = Arc::new(DiskReadScheduler::new(Arc::new(NoopStorage), lru, 1, false));
        let query = parser::parse_query(&format!("SELECT \"{}\" FROM t", name)).map_err(|e| format!("{:?}", e))?;
        let (sender, mut receiver) = futures::channel::oneshot::channel();
        let task = QueryTask::new(
            query,
            true,
            false,
            vec![],
            vec![Arc::new(partition)],
            drs,
            SharedSender::new(sender),
            batch_size,
            None,
        )
        .map_err(|e| format!("{:?}", e))?;
        task.execute();
        match receiver.try_recv() {
            Ok(Some(Ok(out))) => match out.rows {
                Some(rows) => Ok(rows_to_cells(&rows, 0)),
                None => Err("no rows in output".to_string()),
            },
            Ok(Some(Err(e))) => Err(format!("{:?}", e)),
            Ok(None) => Err("query task finished without sending a result".to_string()),
            Err(_) => Err("result channel cancelled".to_string()),
        }
    });
    match r {
        Ok(Ok(cells)) => Ok(cells),
        Ok(Err(e)) => Err(("error".into(), e, String::new())),
        Err(p) => Err(("panic".into(), panic_message(p), last_panic_location())),
    }
}
