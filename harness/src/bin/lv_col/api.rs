//! C01, API level (filled in below).
use lvharness::suite::Suite;
pub fn suites() -> Vec<Box<dyn Suite>> {
    vec![]
}
